// rxfacts: a rustc_private driver that dumps the type-checked program of the
// crate being compiled (MIR at -Zmir-opt-level=0, resolved callees, ADT
// layout, statics, unsafe blocks) as one JSON fact file per crate.
//
// It is used as RUSTC_WORKSPACE_WRAPPER: argv[1] is the real rustc, which we
// drop. Nothing of the analysed crate is ever executed.
#![feature(rustc_private)]
#![allow(clippy::all)]

extern crate rustc_abi;
extern crate rustc_data_structures;
extern crate rustc_driver;
extern crate rustc_hir;
extern crate rustc_index;
extern crate rustc_interface;
extern crate rustc_middle;
extern crate rustc_session;
extern crate rustc_span;

use std::collections::BTreeMap;
use std::fmt::Write as _;

use rustc_driver::{Callbacks, Compilation};
use rustc_hir::def::DefKind;
use rustc_hir::def_id::{DefId, LocalDefId};
use rustc_middle::mir::{
    self, AggregateKind, AssertKind, BasicBlockData, Body, CastKind, ConstValue, Operand, Place,
    PlaceElem, Rvalue, StatementKind, TerminatorKind,
};
use rustc_middle::ty::print::with_no_trimmed_paths;
use rustc_middle::ty::{self, Instance, Ty, TyCtxt, TypingEnv};
use rustc_span::Span;

// ---------------------------------------------------------------- JSON

#[derive(Clone)]
enum J {
    Null,
    Bool(bool),
    Int(i128),
    Str(String),
    Arr(Vec<J>),
    Obj(Vec<(&'static str, J)>),
}

fn jesc(s: &str, out: &mut String) {
    out.push('"');
    for c in s.chars() {
        match c {
            '"' => out.push_str("\\\""),
            '\\' => out.push_str("\\\\"),
            '\n' => out.push_str("\\n"),
            '\r' => out.push_str("\\r"),
            '\t' => out.push_str("\\t"),
            c if (c as u32) < 0x20 => {
                let _ = write!(out, "\\u{:04x}", c as u32);
            }
            c => out.push(c),
        }
    }
    out.push('"');
}

impl J {
    fn write(&self, out: &mut String) {
        match self {
            J::Null => out.push_str("null"),
            J::Bool(b) => out.push_str(if *b { "true" } else { "false" }),
            J::Int(i) => {
                let _ = write!(out, "{}", i);
            }
            J::Str(s) => jesc(s, out),
            J::Arr(v) => {
                out.push('[');
                for (i, x) in v.iter().enumerate() {
                    if i > 0 {
                        out.push(',');
                    }
                    x.write(out);
                }
                out.push(']');
            }
            J::Obj(v) => {
                out.push('{');
                for (i, (k, x)) in v.iter().enumerate() {
                    if i > 0 {
                        out.push(',');
                    }
                    jesc(k, out);
                    out.push(':');
                    x.write(out);
                }
                out.push('}');
            }
        }
    }
}

fn s(x: impl Into<String>) -> J {
    J::Str(x.into())
}
fn n(x: impl TryInto<i128>) -> J {
    J::Int(x.try_into().ok().unwrap_or(-1))
}

// ---------------------------------------------------------------- extraction

struct Cx<'tcx> {
    tcx: TyCtxt<'tcx>,
}

impl<'tcx> Cx<'tcx> {
    fn path(&self, did: DefId) -> String {
        with_no_trimmed_paths!(self.tcx.def_path_str(did))
    }

    fn ty(&self, ty: Ty<'tcx>) -> String {
        with_no_trimmed_paths!(ty.to_string())
    }

    fn span(&self, sp: Span) -> J {
        let sm = self.tcx.sess.source_map();
        let lo = sm.lookup_char_pos(sp.lo());
        let file = format!("{}", lo.file.name.prefer_local_unconditionally());
        J::Obj(vec![
            ("file", s(file)),
            ("line", n(lo.line)),
            ("col", n(lo.col.0 + 1)),
            ("exp", J::Bool(sp.from_expansion())),
        ])
    }

    fn line(&self, sp: Span) -> J {
        let sm = self.tcx.sess.source_map();
        // for code from macro expansion report the call-site line
        let sp2 = sp.source_callsite();
        let lo = sm.lookup_char_pos(sp2.lo());
        n(lo.line)
    }

    fn fn_const(&self, owner: DefId, did: DefId, args: ty::GenericArgsRef<'tcx>) -> J {
        let tcx = self.tcx;
        let mut o: Vec<(&'static str, J)> = vec![
            ("def", s(self.path(did))),
            ("inst", s(with_no_trimmed_paths!(tcx.def_path_str_with_args(did, args)))),
            (
                "targs",
                J::Arr(
                    args.iter()
                        .map(|a| s(with_no_trimmed_paths!(a.to_string())))
                        .collect(),
                ),
            ),
            ("local", J::Bool(did.is_local())),
        ];
        // trait method? try to resolve to the impl
        let kind = tcx.def_kind(did);
        if matches!(kind, DefKind::Fn | DefKind::AssocFn) {
            if let Some(tr) = tcx.trait_of_assoc(did) {
                o.push(("trait", s(self.path(tr))));
            }
            let env = TypingEnv::post_analysis(tcx, owner);
            let r = std::panic::catch_unwind(std::panic::AssertUnwindSafe(|| {
                Instance::try_resolve(tcx, env, did, args)
            }));
            if let Ok(Ok(Some(inst))) = r {
                let rd = inst.def_id();
                o.push(("res", s(self.path(rd))));
                o.push((
                    "res_inst",
                    s(with_no_trimmed_paths!(tcx.def_path_str_with_args(rd, inst.args))),
                ));
                o.push(("res_local", J::Bool(rd.is_local())));
                let k = match inst.def {
                    ty::InstanceKind::Item(_) => "item",
                    ty::InstanceKind::Virtual(..) => "virtual",
                    ty::InstanceKind::Intrinsic(_) => "intrinsic",
                    ty::InstanceKind::ClosureOnceShim { .. } => "closure_once_shim",
                    ty::InstanceKind::FnPtrShim(..) => "fnptr_shim",
                    ty::InstanceKind::DropGlue(..) => "drop_glue",
                    ty::InstanceKind::CloneShim(..) => "clone_shim",
                    ty::InstanceKind::VTableShim(..) => "vtable_shim",
                    ty::InstanceKind::ReifyShim(..) => "reify_shim",
                    _ => "other",
                };
                o.push(("res_kind", s(k)));
            }
        }
        J::Obj(o)
    }

    fn constant(&self, owner: DefId, c: &mir::ConstOperand<'tcx>) -> J {
        let tcx = self.tcx;
        let ty = c.const_.ty();
        let mut o: Vec<(&'static str, J)> = vec![("k", s("const")), ("ty", s(self.ty(ty)))];
        if let ty::FnDef(did, args) = *ty.kind() {
            o.push(("fn", self.fn_const(owner, did, args)));
            return J::Obj(o);
        }
        match c.const_ {
            mir::Const::Unevaluated(uv, _) => {
                o.push(("uneval", s(self.path(uv.def))));
                if let Some(p) = uv.promoted {
                    o.push(("promoted", n(p.as_u32())));
                }
                // try to evaluate scalars (e.g. associated consts like usize::MAX, OPT_HASBOL)
                let env = TypingEnv::post_analysis(tcx, owner);
                let r = std::panic::catch_unwind(std::panic::AssertUnwindSafe(|| {
                    c.const_.try_eval_scalar_int(tcx, env)
                }));
                if let Ok(Some(si)) = r {
                    self.scalar(ty, si, &mut o);
                }
            }
            mir::Const::Val(v, _) => match v {
                ConstValue::Scalar(sc) => {
                    if let Ok(si) = sc.try_to_scalar_int() {
                        self.scalar(ty, si, &mut o);
                    } else {
                        o.push(("ptr", J::Bool(true)));
                        if let rustc_middle::mir::interpret::Scalar::Ptr(ptr, _) = sc {
                            let alloc_id = ptr.provenance.alloc_id();
                            if let Some(rustc_middle::mir::interpret::GlobalAlloc::Static(sdid)) =
                                tcx.try_get_global_alloc(alloc_id)
                            {
                                o.push(("static", s(self.path(sdid))));
                            }
                        }
                    }
                }
                ConstValue::ZeroSized => {
                    o.push(("zst", J::Bool(true)));
                }
                ConstValue::Slice { .. } | ConstValue::Indirect { .. } => {
                    let is_str_like = match ty.kind() {
                        ty::Ref(_, inner, _) => match inner.kind() {
                            ty::Str => true,
                            ty::Slice(e) => *e == tcx.types.u8,
                            _ => false,
                        },
                        _ => false,
                    };
                    if is_str_like {
                        if let Some(bytes) = v.try_get_slice_bytes_for_diagnostics(tcx) {
                            o.push(("str", s(String::from_utf8_lossy(bytes).to_string())));
                        }
                    } else {
                        o.push(("indirect", J::Bool(true)));
                    }
                }
            },
            mir::Const::Ty(_, ct) => {
                o.push(("tyconst", s(with_no_trimmed_paths!(ct.to_string()))));
            }
        }
        J::Obj(o)
    }

    fn scalar(&self, ty: Ty<'tcx>, si: ty::ScalarInt, o: &mut Vec<(&'static str, J)>) {
        let size = si.size();
        let bits = si.to_bits(size);
        match ty.kind() {
            ty::Bool => o.push(("bool", J::Bool(bits != 0))),
            ty::Char => {
                o.push(("char", n(bits as i128)));
            }
            ty::Int(_) => {
                let v = size.sign_extend(bits) as i128;
                o.push(("int", J::Int(v)));
            }
            ty::Uint(_) => {
                // u128 may not fit i128; clamp (never happens here)
                o.push(("int", J::Int(bits as i128)));
                if bits == u64::MAX as u128 && size.bytes() == 8 {
                    o.push(("max", J::Bool(true)));
                }
            }
            _ => o.push(("bits", J::Int(bits as i128))),
        }
    }

    fn place(&self, body: &Body<'tcx>, p: &Place<'tcx>) -> J {
        let tcx = self.tcx;
        let mut projs = Vec::new();
        let mut pty = mir::PlaceTy::from_ty(body.local_decls[p.local].ty);
        for elem in p.projection.iter() {
            let j = match elem {
                PlaceElem::Deref => s("deref"),
                PlaceElem::Field(f, fty) => {
                    let mut name = format!("{}", f.as_u32());
                    let mut adt = String::new();
                    if let ty::Adt(def, _) = pty.ty.kind() {
                        let vidx = pty.variant_index.unwrap_or(rustc_abi::FIRST_VARIANT);
                        if def.is_enum() || def.is_struct() || def.is_union() {
                            let v = def.variant(vidx);
                            if let Some(fd) = v.fields.get(f) {
                                name = fd.name.to_string();
                            }
                            adt = self.path(def.did());
                        }
                    }
                    J::Obj(vec![
                        ("f", s(name)),
                        ("i", n(f.as_u32())),
                        ("adt", s(adt)),
                        ("ty", s(self.ty(fty))),
                    ])
                }
                PlaceElem::Index(l) => J::Obj(vec![("idx", n(l.as_u32()))]),
                PlaceElem::ConstantIndex { offset, min_length, from_end } => J::Obj(vec![
                    ("cidx", n(offset)),
                    ("min", n(min_length)),
                    ("from_end", J::Bool(from_end)),
                ]),
                PlaceElem::Subslice { from, to, from_end } => J::Obj(vec![
                    ("sub_from", n(from)),
                    ("sub_to", n(to)),
                    ("from_end", J::Bool(from_end)),
                ]),
                PlaceElem::Downcast(name, vidx) => J::Obj(vec![
                    (
                        "downcast",
                        s(name.map(|x| x.to_string()).unwrap_or_default()),
                    ),
                    ("v", n(vidx.as_u32())),
                ]),
                PlaceElem::OpaqueCast(_) => s("opaque"),
                PlaceElem::UnwrapUnsafeBinder(_) => s("unwrap_binder"),
            };
            projs.push(j);
            pty = pty.projection_ty(tcx, elem);
        }
        J::Obj(vec![("l", n(p.local.as_u32())), ("p", J::Arr(projs))])
    }

    fn operand(&self, owner: DefId, body: &Body<'tcx>, op: &Operand<'tcx>) -> J {
        match op {
            Operand::Copy(p) => J::Obj(vec![("k", s("copy")), ("place", self.place(body, p))]),
            Operand::Move(p) => J::Obj(vec![("k", s("move")), ("place", self.place(body, p))]),
            Operand::Constant(c) => self.constant(owner, c),
            #[allow(unreachable_patterns)]
            _ => J::Obj(vec![("k", s("other"))]),
        }
    }

    fn rvalue(&self, owner: DefId, body: &Body<'tcx>, rv: &Rvalue<'tcx>) -> J {
        let tcx = self.tcx;
        match rv {
            Rvalue::Use(op, ..) => J::Obj(vec![("k", s("use")), ("op", self.operand(owner, body, op))]),
            Rvalue::Repeat(op, ct) => J::Obj(vec![
                ("k", s("repeat")),
                ("op", self.operand(owner, body, op)),
                ("count", s(with_no_trimmed_paths!(ct.to_string()))),
            ]),
            Rvalue::Ref(_, bk, p) => J::Obj(vec![
                ("k", s("ref")),
                ("mut", J::Bool(matches!(bk, mir::BorrowKind::Mut { .. }))),
                ("place", self.place(body, p)),
            ]),
            Rvalue::ThreadLocalRef(did) => {
                J::Obj(vec![("k", s("tlsref")), ("def", s(self.path(*did)))])
            }
            Rvalue::RawPtr(kind, p) => J::Obj(vec![
                ("k", s("rawptr")),
                ("mut", J::Bool(matches!(kind, mir::RawPtrKind::Mut))),
                ("place", self.place(body, p)),
            ]),
            Rvalue::Cast(kind, op, ty) => {
                let k = match kind {
                    CastKind::PointerCoercion(pc, _) => format!("ptr:{:?}", pc),
                    other => format!("{:?}", other),
                };
                let src_ty = op.ty(&body.local_decls, tcx);
                J::Obj(vec![
                    ("k", s("cast")),
                    ("kind", s(k)),
                    ("op", self.operand(owner, body, op)),
                    ("from", s(self.ty(src_ty))),
                    ("ty", s(self.ty(*ty))),
                ])
            }
            Rvalue::BinaryOp(op, ab) => J::Obj(vec![
                ("k", s("bin")),
                ("op", s(format!("{:?}", op))),
                ("a", self.operand(owner, body, &ab.0)),
                ("b", self.operand(owner, body, &ab.1)),
            ]),
            Rvalue::UnaryOp(op, a) => J::Obj(vec![
                ("k", s("un")),
                ("op", s(format!("{:?}", op))),
                ("a", self.operand(owner, body, a)),
            ]),
            Rvalue::Discriminant(p) => {
                let pty = p.ty(&body.local_decls, tcx).ty;
                J::Obj(vec![
                    ("k", s("discr")),
                    ("place", self.place(body, p)),
                    ("ty", s(self.ty(pty))),
                    ("variants", self.variants_of(pty)),
                ])
            }
            Rvalue::Aggregate(kind, fields) => {
                let fs: Vec<J> = fields.iter().map(|f| self.operand(owner, body, f)).collect();
                let mut o: Vec<(&'static str, J)> = vec![("k", s("agg"))];
                match &**kind {
                    AggregateKind::Array(t) => {
                        o.push(("agg", s("array")));
                        o.push(("ty", s(self.ty(*t))));
                    }
                    AggregateKind::Tuple => o.push(("agg", s("tuple"))),
                    AggregateKind::Adt(did, vidx, _args, _, _) => {
                        o.push(("agg", s("adt")));
                        o.push(("adt", s(self.path(*did))));
                        let def = tcx.adt_def(*did);
                        let v = def.variant(*vidx);
                        o.push(("variant", s(v.name.to_string())));
                        o.push(("vidx", n(vidx.as_u32())));
                        o.push((
                            "fnames",
                            J::Arr(v.fields.iter().map(|f| s(f.name.to_string())).collect()),
                        ));
                    }
                    AggregateKind::Closure(did, _) => {
                        o.push(("agg", s("closure")));
                        o.push(("def", s(self.path(*did))));
                    }
                    AggregateKind::RawPtr(..) => o.push(("agg", s("rawptr"))),
                    _ => o.push(("agg", s("other"))),
                }
                o.push(("fields", J::Arr(fs)));
                J::Obj(o)
            }
            Rvalue::CopyForDeref(p) => J::Obj(vec![
                ("k", s("use")),
                ("op", J::Obj(vec![("k", s("copy")), ("place", self.place(body, p))])),
            ]),
            Rvalue::WrapUnsafeBinder(op, _) => {
                J::Obj(vec![("k", s("use")), ("op", self.operand(owner, body, op))])
            }
        }
    }

    fn variants_of(&self, ty: Ty<'tcx>) -> J {
        if let ty::Adt(def, _) = ty.kind() {
            if def.is_enum() {
                let mut v = Vec::new();
                for (vidx, discr) in def.discriminants(self.tcx) {
                    v.push(J::Arr(vec![
                        J::Int(discr.val as i128),
                        s(def.variant(vidx).name.to_string()),
                    ]));
                }
                return J::Arr(v);
            }
        }
        J::Null
    }

    fn block(&self, owner: DefId, body: &Body<'tcx>, bb: &BasicBlockData<'tcx>) -> J {
        let tcx = self.tcx;
        let mut stmts = Vec::new();
        for st in &bb.statements {
            let j = match &st.kind {
                StatementKind::Assign(b) => {
                    let (p, rv) = &**b;
                    J::Obj(vec![
                        ("k", s("assign")),
                        ("place", self.place(body, p)),
                        ("rv", self.rvalue(owner, body, rv)),
                        ("line", self.line(st.source_info.span)),
                        ("exp", J::Bool(st.source_info.span.from_expansion())),
                    ])
                }
                StatementKind::SetDiscriminant { place, variant_index } => J::Obj(vec![
                    ("k", s("setdiscr")),
                    ("place", self.place(body, place)),
                    ("v", n(variant_index.as_u32())),
                ]),
                StatementKind::StorageLive(l) => {
                    J::Obj(vec![("k", s("live")), ("l", n(l.as_u32()))])
                }
                StatementKind::StorageDead(l) => {
                    J::Obj(vec![("k", s("dead")), ("l", n(l.as_u32()))])
                }
                _ => continue,
            };
            stmts.push(j);
        }
        let term = bb.terminator();
        let tline = self.line(term.source_info.span);
        let texp = J::Bool(term.source_info.span.from_expansion());
        let t = match &term.kind {
            TerminatorKind::Goto { target } => {
                J::Obj(vec![("k", s("goto")), ("t", n(target.as_u32()))])
            }
            TerminatorKind::SwitchInt { discr, targets } => {
                let dty = discr.ty(&body.local_decls, tcx);
                let mut ts = Vec::new();
                for (v, bbx) in targets.iter() {
                    // sign-extend for signed ints
                    let val: i128 = match dty.kind() {
                        ty::Int(_) => {
                            let bits = match dty.kind() {
                                ty::Int(i) => i.bit_width().unwrap_or(64),
                                _ => 64,
                            };
                            rustc_abi::Size::from_bits(bits).sign_extend(v) as i128
                        }
                        _ => v as i128,
                    };
                    ts.push(J::Arr(vec![J::Int(val), n(bbx.as_u32())]));
                }
                J::Obj(vec![
                    ("k", s("switch")),
                    ("op", self.operand(owner, body, discr)),
                    ("ty", s(self.ty(dty))),
                    ("targets", J::Arr(ts)),
                    ("otherwise", n(targets.otherwise().as_u32())),
                    ("line", tline),
                    ("exp", texp),
                ])
            }
            TerminatorKind::Return => J::Obj(vec![("k", s("return")), ("line", tline)]),
            TerminatorKind::Unreachable => J::Obj(vec![("k", s("unreachable"))]),
            TerminatorKind::UnwindResume => J::Obj(vec![("k", s("resume"))]),
            TerminatorKind::UnwindTerminate(_) => J::Obj(vec![("k", s("terminate"))]),
            TerminatorKind::Drop { place, target, unwind, .. } => {
                let pty = place.ty(&body.local_decls, tcx).ty;
                J::Obj(vec![
                    ("k", s("drop")),
                    ("place", self.place(body, place)),
                    ("ty", s(self.ty(pty))),
                    ("t", n(target.as_u32())),
                    (
                        "unwind",
                        match unwind {
                            mir::UnwindAction::Cleanup(b) => n(b.as_u32()),
                            _ => J::Null,
                        },
                    ),
                    ("line", tline),
                ])
            }
            TerminatorKind::Call { func, args, destination, target, unwind, fn_span, .. } => {
                let a: Vec<J> = args.iter().map(|x| self.operand(owner, body, &x.node)).collect();
                J::Obj(vec![
                    ("k", s("call")),
                    ("func", self.operand(owner, body, func)),
                    ("args", J::Arr(a)),
                    ("dest", self.place(body, destination)),
                    ("t", target.map(|b| n(b.as_u32())).unwrap_or(J::Null)),
                    (
                        "unwind",
                        match unwind {
                            mir::UnwindAction::Cleanup(b) => n(b.as_u32()),
                            _ => J::Null,
                        },
                    ),
                    ("line", self.line(*fn_span)),
                    ("exp", J::Bool(fn_span.from_expansion())),
                ])
            }
            TerminatorKind::TailCall { func, args, .. } => {
                let a: Vec<J> = args.iter().map(|x| self.operand(owner, body, &x.node)).collect();
                J::Obj(vec![
                    ("k", s("tailcall")),
                    ("func", self.operand(owner, body, func)),
                    ("args", J::Arr(a)),
                ])
            }
            TerminatorKind::Assert { cond, expected, msg, target, .. } => {
                let (kind, ops): (String, Vec<J>) = match &**msg {
                    AssertKind::BoundsCheck { len, index } => (
                        "BoundsCheck".into(),
                        vec![self.operand(owner, body, len), self.operand(owner, body, index)],
                    ),
                    AssertKind::Overflow(op, a, b) => (
                        format!("Overflow:{:?}", op),
                        vec![self.operand(owner, body, a), self.operand(owner, body, b)],
                    ),
                    AssertKind::OverflowNeg(a) => {
                        ("OverflowNeg".into(), vec![self.operand(owner, body, a)])
                    }
                    AssertKind::DivisionByZero(a) => {
                        ("DivisionByZero".into(), vec![self.operand(owner, body, a)])
                    }
                    AssertKind::RemainderByZero(a) => {
                        ("RemainderByZero".into(), vec![self.operand(owner, body, a)])
                    }
                    AssertKind::MisalignedPointerDereference { .. } => {
                        ("MisalignedPointerDereference".into(), vec![])
                    }
                    AssertKind::NullPointerDereference => ("NullPointerDereference".into(), vec![]),
                    AssertKind::InvalidEnumConstruction(_) => {
                        ("InvalidEnumConstruction".into(), vec![])
                    }
                    _ => ("Other".into(), vec![]),
                };
                J::Obj(vec![
                    ("k", s("assert")),
                    ("cond", self.operand(owner, body, cond)),
                    ("expected", J::Bool(*expected)),
                    ("kind", s(kind)),
                    ("ops", J::Arr(ops)),
                    ("t", n(target.as_u32())),
                    ("line", tline),
                    ("exp", texp),
                ])
            }
            TerminatorKind::FalseEdge { real_target, .. } => {
                J::Obj(vec![("k", s("goto")), ("t", n(real_target.as_u32()))])
            }
            TerminatorKind::FalseUnwind { real_target, .. } => {
                J::Obj(vec![("k", s("goto")), ("t", n(real_target.as_u32()))])
            }
            _ => J::Obj(vec![("k", s("other"))]),
        };
        J::Obj(vec![
            ("stmts", J::Arr(stmts)),
            ("term", t),
            ("cleanup", J::Bool(bb.is_cleanup)),
        ])
    }

    fn body(&self, owner: DefId, body: &Body<'tcx>) -> Vec<(&'static str, J)> {
        let tcx = self.tcx;
        let mut locals = Vec::new();
        let mut names: BTreeMap<u32, String> = BTreeMap::new();
        // debug names; for closures, captured upvars are places into _1
        let mut upvars = Vec::new();
        for vdi in &body.var_debug_info {
            if let mir::VarDebugInfoContents::Place(p) = &vdi.value {
                if p.projection.is_empty() {
                    names.insert(p.local.as_u32(), vdi.name.to_string());
                } else {
                    upvars.push(J::Obj(vec![
                        ("name", s(vdi.name.to_string())),
                        ("place", self.place(body, p)),
                    ]));
                }
            }
        }
        for (l, decl) in body.local_decls.iter_enumerated() {
            locals.push(J::Obj(vec![
                ("ty", s(self.ty(decl.ty))),
                (
                    "name",
                    names.get(&l.as_u32()).map(|x| s(x.clone())).unwrap_or(J::Null),
                ),
                ("user", J::Bool(names.contains_key(&l.as_u32()))),
                ("mut", J::Bool(decl.mutability.is_mut())),
            ]));
        }
        let blocks: Vec<J> =
            body.basic_blocks.iter().map(|bb| self.block(owner, body, bb)).collect();
        let _ = tcx;
        vec![
            ("argc", n(body.arg_count)),
            ("locals", J::Arr(locals)),
            ("upvars", J::Arr(upvars)),
            ("blocks", J::Arr(blocks)),
        ]
    }

    fn vis(&self, did: DefId) -> String {
        let k = self.tcx.def_kind(did);
        if !matches!(
            k,
            DefKind::Fn
                | DefKind::AssocFn
                | DefKind::Struct
                | DefKind::Enum
                | DefKind::Const { .. }
                | DefKind::Static { .. }
                | DefKind::Field
        ) {
            return "n/a".into();
        }
        match self.tcx.visibility(did) {
            ty::Visibility::Public => "pub".into(),
            ty::Visibility::Restricted(m) => {
                if m.is_crate_root() {
                    "crate".into()
                } else {
                    format!("in:{}", self.path(m))
                }
            }
        }
    }

    // transitive set of ADTs (and raw pointers / dyn) reachable through the fields of a type
    fn reach(&self, ty: Ty<'tcx>, seen: &mut BTreeMap<String, ()>, flags: &mut BTreeMap<String, ()>, depth: usize) {
        let tcx = self.tcx;
        if depth > 40 {
            flags.insert("depth-limit".into(), ());
            return;
        }
        match ty.kind() {
            ty::Adt(def, args) => {
                let key = self.ty(ty);
                if seen.contains_key(&key) {
                    return;
                }
                seen.insert(key, ());
                flags.insert(format!("adt:{}", self.path(def.did())), ());
                for a in args.iter() {
                    if let Some(t) = a.as_type() {
                        self.reach(t, seen, flags, depth + 1);
                    }
                }
                for v in def.variants() {
                    for f in &v.fields {
                        let fty = f.ty(tcx, args);
                        self.reach(fty, seen, flags, depth + 1);
                    }
                }
            }
            ty::RawPtr(t, _) => {
                flags.insert(format!("rawptr:{}", self.ty(ty)), ());
                self.reach(*t, seen, flags, depth + 1);
            }
            ty::Ref(_, t, _) => self.reach(*t, seen, flags, depth + 1),
            ty::Array(t, _) | ty::Slice(t) => self.reach(*t, seen, flags, depth + 1),
            ty::Tuple(ts) => {
                for t in ts.iter() {
                    self.reach(t, seen, flags, depth + 1);
                }
            }
            ty::Dynamic(..) => {
                flags.insert(format!("dyn:{}", self.ty(ty)), ());
            }
            ty::FnPtr(..) => {
                flags.insert("fnptr".into(), ());
            }
            ty::Closure(..) => {
                flags.insert("closure".into(), ());
            }
            ty::Alias(..) => {
                flags.insert(format!("alias:{}", self.ty(ty)), ());
            }
            _ => {}
        }
    }
}

struct UnsafeFinder<'a, 'tcx> {
    cx: &'a Cx<'tcx>,
    out: Vec<J>,
}

impl<'a, 'tcx> rustc_hir::intravisit::Visitor<'tcx> for UnsafeFinder<'a, 'tcx> {
    type NestedFilter = rustc_middle::hir::nested_filter::All;
    fn maybe_tcx(&mut self) -> Self::MaybeTyCtxt {
        self.cx.tcx
    }
    fn visit_block(&mut self, b: &'tcx rustc_hir::Block<'tcx>) {
        if let rustc_hir::BlockCheckMode::UnsafeBlock(src) = b.rules {
            self.out.push(J::Obj(vec![
                ("what", s("unsafe-block")),
                ("user", J::Bool(matches!(src, rustc_hir::UnsafeSource::UserProvided))),
                ("span", self.cx.span(b.span)),
            ]));
        }
        rustc_hir::intravisit::walk_block(self, b);
    }
    fn visit_item(&mut self, it: &'tcx rustc_hir::Item<'tcx>) {
        match &it.kind {
            rustc_hir::ItemKind::Impl(imp) => {
                if let Some(tr) = imp.of_trait {
                    if matches!(tr.safety, rustc_hir::Safety::Unsafe) {
                        self.out.push(J::Obj(vec![
                            ("what", s("unsafe-impl")),
                            ("user", J::Bool(!it.span.from_expansion())),
                            ("span", self.cx.span(it.span)),
                        ]));
                    }
                }
            }
            rustc_hir::ItemKind::Fn { sig, .. } => {
                if sig.header.is_unsafe() {
                    self.out.push(J::Obj(vec![
                        ("what", s("unsafe-fn")),
                        ("user", J::Bool(!it.span.from_expansion())),
                        ("span", self.cx.span(it.span)),
                    ]));
                }
            }
            _ => {}
        }
        rustc_hir::intravisit::walk_item(self, it);
    }
    fn visit_impl_item(&mut self, it: &'tcx rustc_hir::ImplItem<'tcx>) {
        if let rustc_hir::ImplItemKind::Fn(sig, _) = &it.kind {
            if sig.header.is_unsafe() {
                self.out.push(J::Obj(vec![
                    ("what", s("unsafe-fn")),
                    ("user", J::Bool(!it.span.from_expansion())),
                    ("span", self.cx.span(it.span)),
                ]));
            }
        }
        rustc_hir::intravisit::walk_impl_item(self, it);
    }
}

fn extract<'tcx>(tcx: TyCtxt<'tcx>) -> J {
    let cx = Cx { tcx };
    let mut bodies = Vec::new();
    for ldid in tcx.hir_body_owners() {
        let did: DefId = ldid.to_def_id();
        let kind = tcx.def_kind(did);
        let fnlike = matches!(kind, DefKind::Fn | DefKind::AssocFn | DefKind::Closure);
        let constlike = matches!(
            kind,
            DefKind::Const { .. }
                | DefKind::AssocConst { .. }
                | DefKind::Static { .. }
                | DefKind::AnonConst
                | DefKind::InlineConst
        );
        if !fnlike && !constlike {
            continue;
        }
        let body: &Body<'tcx> = if fnlike {
            // skip coroutines etc.
            if kind == DefKind::Closure && tcx.is_coroutine(did) {
                continue;
            }
            tcx.optimized_mir(did)
        } else {
            tcx.mir_for_ctfe(did)
        };
        let mut o: Vec<(&'static str, J)> = vec![
            ("path", s(cx.path(did))),
            ("kind", s(format!("{:?}", kind))),
            ("vis", s(cx.vis(did))),
            ("span", cx.span(tcx.def_span(did))),
        ];
        // impl information
        let mut parent_impl = None;
        let mut cur = did;
        loop {
            match tcx.opt_parent(cur) {
                Some(p) => {
                    if matches!(tcx.def_kind(p), DefKind::Impl { .. }) {
                        parent_impl = Some(p);
                        break;
                    }
                    if p == cur || p.is_crate_root() {
                        break;
                    }
                    cur = p;
                }
                None => break,
            }
        }
        if let Some(imp) = parent_impl {
            let self_ty = tcx.type_of(imp).instantiate_identity().skip_norm_wip();
            o.push(("impl_self", s(cx.ty(self_ty))));
            if let ty::Adt(def, _) = self_ty.kind() {
                o.push(("impl_adt", s(cx.path(def.did()))));
            }
            if matches!(tcx.def_kind(imp), DefKind::Impl { of_trait: true }) {
                let tr = tcx.impl_trait_ref(imp).instantiate_identity().skip_norm_wip();
                o.push(("impl_trait", s(cx.path(tr.def_id))));
                o.push(("impl_trait_ref", s(with_no_trimmed_paths!(tr.to_string()))));
            }
        }
        if fnlike && kind != DefKind::Closure {
            let sig = tcx.fn_sig(did).instantiate_identity().skip_norm_wip();
            o.push(("sig", s(with_no_trimmed_paths!(sig.to_string()))));
            o.push(("name", s(tcx.item_name(did).to_string())));
        }
        o.extend(cx.body(did, body));
        // promoted bodies
        let mut proms = Vec::new();
        if fnlike || constlike {
            let ps = tcx.promoted_mir(did);
            for (_i, pb) in ps.iter_enumerated() {
                proms.push(J::Obj(cx.body(did, pb)));
            }
        }
        o.push(("promoted", J::Arr(proms)));
        bodies.push(J::Obj(o));
    }

    // ADTs
    let mut adts = Vec::new();
    for ldid in tcx.hir_crate_items(()).definitions() {
        let did = ldid.to_def_id();
        let kind = tcx.def_kind(did);
        if !matches!(kind, DefKind::Struct | DefKind::Enum | DefKind::Union) {
            continue;
        }
        let def = tcx.adt_def(did);
        let mut variants = Vec::new();
        for v in def.variants() {
            let mut fields = Vec::new();
            for f in &v.fields {
                let fty = tcx.type_of(f.did).instantiate_identity().skip_norm_wip();
                fields.push(J::Obj(vec![
                    ("name", s(f.name.to_string())),
                    ("ty", s(cx.ty(fty))),
                    ("vis", s(cx.vis(f.did))),
                ]));
            }
            variants.push(J::Obj(vec![("name", s(v.name.to_string())), ("fields", J::Arr(fields))]));
        }
        let self_ty = tcx.type_of(did).instantiate_identity().skip_norm_wip();
        let mut seen = BTreeMap::new();
        let mut flags = BTreeMap::new();
        cx.reach(self_ty, &mut seen, &mut flags, 0);
        adts.push(J::Obj(vec![
            ("path", s(cx.path(did))),
            ("kind", s(format!("{:?}", kind))),
            ("vis", s(cx.vis(did))),
            ("variants", J::Arr(variants)),
            ("reach", J::Arr(flags.keys().map(|k| s(k.clone())).collect())),
            ("span", cx.span(tcx.def_span(did))),
        ]));
    }

    // statics
    let mut statics = Vec::new();
    for ldid in tcx.hir_crate_items(()).definitions() {
        let did = ldid.to_def_id();
        if let DefKind::Static { mutability, nested, .. } = tcx.def_kind(did) {
            let ty = tcx.type_of(did).instantiate_identity().skip_norm_wip();
            statics.push(J::Obj(vec![
                ("path", s(cx.path(did))),
                ("ty", s(cx.ty(ty))),
                ("mut", J::Bool(mutability.is_mut())),
                ("nested", J::Bool(nested)),
                ("thread_local", J::Bool(tcx.is_thread_local_static(did))),
                ("span", cx.span(tcx.def_span(did))),
            ]));
        }
    }

    // unsafe
    let mut uf = UnsafeFinder { cx: &cx, out: Vec::new() };
    tcx.hir_walk_toplevel_module(&mut uf);

    // trait impls of local types (for virtual-call edges)
    let mut impls = Vec::new();
    for ldid in tcx.hir_crate_items(()).definitions() {
        let did = ldid.to_def_id();
        if let DefKind::Impl { of_trait } = tcx.def_kind(did) {
            let self_ty = tcx.type_of(did).instantiate_identity().skip_norm_wip();
            let mut o = vec![
                ("self", s(cx.ty(self_ty))),
                ("span", cx.span(tcx.def_span(did))),
            ];
            if of_trait {
                let tr = tcx.impl_trait_ref(did).instantiate_identity().skip_norm_wip();
                o.push(("trait", s(cx.path(tr.def_id))));
                o.push(("trait_ref", s(with_no_trimmed_paths!(tr.to_string()))));
            }
            let items: Vec<J> = tcx
                .associated_item_def_ids(did)
                .iter()
                .map(|d| s(cx.path(*d)))
                .collect();
            o.push(("items", J::Arr(items)));
            impls.push(J::Obj(o));
        }
    }

    J::Obj(vec![
        ("crate", s(tcx.crate_name(rustc_hir::def_id::LOCAL_CRATE).to_string())),
        ("nonce", s(std::env::var("RXFACTS_NONCE").unwrap_or_default())),
        ("bodies", J::Arr(bodies)),
        ("adts", J::Arr(adts)),
        ("statics", J::Arr(statics)),
        ("unsafe", J::Arr(uf.out)),
        ("impls", J::Arr(impls)),
    ])
}

struct Cb {
    out_dir: String,
}

impl Callbacks for Cb {
    fn after_analysis<'tcx>(
        &mut self,
        _compiler: &rustc_interface::interface::Compiler,
        tcx: TyCtxt<'tcx>,
    ) -> Compilation {
        let name = tcx.crate_name(rustc_hir::def_id::LOCAL_CRATE).to_string();
        let j = extract(tcx);
        let mut out = String::with_capacity(1 << 22);
        j.write(&mut out);
        let kind = if tcx.sess.opts.test { "test" } else { "main" };
        let ctype = format!("{:?}", tcx.crate_types().first());
        let file = if ctype.contains("Executable") {
            format!("{}/{}.bin.{}.json", self.out_dir, name, kind)
        } else {
            format!("{}/{}.{}.json", self.out_dir, name, kind)
        };
        let tmp = format!("{}.tmp.{}", file, std::process::id());
        std::fs::write(&tmp, out).expect("write facts");
        std::fs::rename(&tmp, &file).expect("rename facts");
        Compilation::Continue
    }
}

struct NoCb;
impl Callbacks for NoCb {}

fn main() {
    let mut args: Vec<String> = std::env::args().collect();
    // RUSTC_WORKSPACE_WRAPPER: argv[1] is the path of the real rustc
    if args.len() > 1 && (args[1].ends_with("rustc") || args[1].contains("/rustc")) {
        args.remove(1);
    }
    let out_dir = std::env::var("RXFACTS_OUT").unwrap_or_default();
    // only analyse real crate compilations (not `rustc -vV`, not build scripts)
    let is_probe = args.iter().any(|a| a == "-vV" || a == "--version" || a.starts_with("--print"));
    let crate_name = args
        .iter()
        .position(|a| a == "--crate-name")
        .and_then(|i| args.get(i + 1))
        .cloned()
        .unwrap_or_default();
    let is_build_script = crate_name.starts_with("build_script");
    if out_dir.is_empty() || is_probe || is_build_script {
        rustc_driver::run_compiler(&args, &mut NoCb);
    } else {
        let _ = std::fs::create_dir_all(&out_dir);
        rustc_driver::run_compiler(&args, &mut Cb { out_dir });
    }
}

#[allow(dead_code)]
fn _unused(_: LocalDefId) {}
