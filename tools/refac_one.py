#!/usr/bin/env python3
"""tools/refac_one.py [-j N] <id>... : dev helper - evaluates the named refactorings (see refactor_results.py) and prints
every rule instance that fires, without rewriting RESULTS.md."""
import sys, os
V = os.path.dirname(os.path.dirname(os.path.abspath(__file__)))
sys.path.insert(0, os.path.join(V, "tools"))
sys.path.insert(0, V)
from concurrent.futures import ProcessPoolExecutor
import refactor_results as RR

if __name__ == "__main__":
    ids = [a for a in sys.argv[1:] if not a.startswith("-")]
    with ProcessPoolExecutor(min(12, len(ids))) as ex:
        for rid, r in ex.map(RR.one, ids):
            if "error" in r:
                print(rid, "ERROR", r["error"])
                continue
            keys = sorted({k for ks in r["fired"].values() for k in ks})
            print(rid, "quiet" if not keys else "ALARM %s" % " ".join(sorted(r["fired"])), "| inlined:", ",".join(r.get("inlined", [])))
            for k in keys:
                print("    ", k[:230])
