#!/usr/bin/env python3
"""tools/intake_seed.py <agent seed dir> <Cnn> <suffix> <round> : takes a seeding agent's output (patch.diff, demo.rs,
meta.json, notes.md), confirms it with tools/verify_seed.sh on a scratch worktree (demo passes without, fails with the
change; the existing suite passes with it), records the result of the checks *as they stand now* (first run) and keeps
it as /verif/seeded/<Cnn><suffix>/.  Nothing is kept when the confirmation fails (status is printed)."""
import sys, os, json, re, shutil, subprocess
V = os.path.dirname(os.path.dirname(os.path.abspath(__file__)))


def main():
    src, prop, suf, rnd = sys.argv[1], sys.argv[2], sys.argv[3], int(sys.argv[4])
    sid = prop + suf
    am = json.load(open(os.path.join(src, "meta.json")))
    line = subprocess.run([os.path.join(V, "tools", "verify_seed.sh"), src], stdout=subprocess.PIPE, stderr=subprocess.STDOUT, text=True).stdout.strip().splitlines()[-1]
    m = re.match(r".*? \| base: (.*?) \| with patch: (.*?) \| suite: (.*)$", line)
    if not m:
        print(sid, "verify failed:", line)
        return 1
    base, withp, suite = (x.strip() for x in m.groups())
    base_ok = base.startswith("test result: ok")
    with_fail = not withp.startswith("test result: ok") and withp != "patch does not apply"
    suite_ok = re.search(r"(\d+) tests run: \1 pass", suite) is not None
    status = "verified" if (base_ok and suite_ok and with_fail) else ("neutralised" if base_ok and suite_ok else "rejected")
    print(sid, status, "|", base, "|", withp, "|", suite)
    if status != "verified":
        return 1
    out = os.path.join(V, "seeded", sid)
    os.makedirs(out, exist_ok=True)
    for f in ("patch.diff", "demo.rs", "notes.md"):
        if os.path.exists(os.path.join(src, f)):
            shutil.copy(os.path.join(src, f), os.path.join(out, f))
    head = subprocess.run(["git", "-C", "/repo", "rev-parse", "--short", "HEAD"], stdout=subprocess.PIPE, text=True).stdout.strip()
    meta = {
        "id": sid,
        "property": prop,
        "title": "%s - %s" % (prop, am.get("title", "")),
        "status": status,
        "author": "fresh sub-agent (round %d, one change per property) given only the property text, the titles of the earlier changes to avoid, and a scratch worktree of /repo at HEAD %s" % (rnd, head),
        "summary": am.get("summary", ""),
        "needs_to_manifest": am.get("needs_to_manifest", ""),
        "verified_on": "scratch worktree of /repo HEAD (with all fix: commits) under /tmp, removed afterwards",
        "what_was_run": [
            "tools/verify_seed.sh <dir>: cp demo.rs regexml/tests/demo_seed.rs; cargo test --offline -p regexml --test demo_seed (unchanged tree) -> " + base,
            "patch -p1 < patch.diff; same demo -> " + withp,
            "cargo nextest run --workspace --no-fail-fast --offline (with the patch, demo removed) -> " + suite,
        ],
        "round": rnd,
    }
    json.dump(meta, open(os.path.join(out, "meta.json"), "w"), indent=1)
    # first run: the checks as they stand
    r = subprocess.run([sys.executable, os.path.join(V, "tools", "seed_results.py"), sid], stdout=subprocess.PIPE, stderr=subprocess.STDOUT, text=True).stdout
    meta = json.load(open(os.path.join(out, "meta.json")))
    fired = meta.get("detected_by", {})
    meta["first_run"] = {"own_property_check_fired": prop in fired, "any_check_fired": bool(fired), "note": "result of the checks as they stood before this change was seen"}
    json.dump(meta, open(os.path.join(out, "meta.json"), "w"), indent=1)
    print(r.strip()[:1500])
    return 0


if __name__ == "__main__":
    sys.exit(main())
