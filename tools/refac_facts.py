#!/usr/bin/env python3
"""tools/refac_facts.py <refactoring id | seeded id> : dev helper - applies the patch to a scratch copy of /repo, extracts
the facts (cached under /verif/.cache/facts) and prints the facts directory."""
import sys, os, subprocess, shutil, tempfile
V = os.path.dirname(os.path.dirname(os.path.abspath(__file__)))
sys.path.insert(0, V)
from rxv import extract as X
rid = sys.argv[1]
d = os.path.join(V, "refactorings", rid)
if not os.path.isdir(d):
    d = os.path.join(V, "seeded", rid)
tmp = tempfile.mkdtemp(prefix="rxv-one-", dir="/tmp")
dst = os.path.join(tmp, "repo")
try:
    subprocess.check_call(["rsync", "-a", "--exclude", "target", "--exclude", ".git", "/repo/", dst + "/"])
    subprocess.check_call(["patch", "-p1", "-s", "-i", os.path.join(d, "patch.diff")], cwd=dst)
    fd, info = X.extract(dst)
    print(fd)
finally:
    shutil.rmtree(tmp, ignore_errors=True)
