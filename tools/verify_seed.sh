#!/bin/bash
# tools/verify_seed.sh <seed dir with patch.diff and demo.rs> : confirms on a scratch worktree of /repo (outside /repo and
# /verif) that (1) the demo passes on the unchanged tree, (2) with the patch the existing suite still passes and (3) the
# demo fails. Prints one line: <dir> base_demo=<pass|fail> suite=<n passed/n failed> demo_with_patch=<pass|fail>
set -u
D=$(realpath "$1")
WT=/tmp/wt/verify-$$
git -C /repo worktree add -q --detach "$WT" HEAD || exit 2
export CARGO_TARGET_DIR=${VERIFY_TARGET:-/tmp/wt/verify-target} CARGO_NET_OFFLINE=true
cd "$WT"
cp "$D/demo.rs" regexml/tests/demo_seed.rs
base=$(cargo test --offline -q -p regexml --test demo_seed 2>&1 | grep -E "^test result" | head -1)
if patch -p1 -s < "$D/patch.diff" >/dev/null 2>&1; then applied=yes; else applied=no; fi
if [ "$applied" = yes ]; then
  withp=$(cargo test --offline -q -p regexml --test demo_seed 2>&1 | grep -E "^test result|^error(\[|:)" | head -1)
  rm -f regexml/tests/demo_seed.rs
  suite=$(cargo nextest run --workspace --no-fail-fast --offline 2>&1 | grep -E "Summary|error:" | head -1)
else
  withp="patch does not apply"; suite="-"
fi
cd /
git -C /repo worktree remove --force "$WT"
echo "$1 | base: $base | with patch: $withp | suite: $suite"
