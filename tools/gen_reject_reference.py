#!/usr/bin/env python3
"""tools/gen_reject_reference.py : writes rxv/reject_reference.json - for every site of /repo's current tree that builds a
syntax / flags error in the compiler, the branch conditions that dominate it (see rxv/rules/reject.py).  Run only
together with a `fix:` commit of /repo."""
import sys, os, json
V = os.path.dirname(os.path.dirname(os.path.abspath(__file__)))
sys.path.insert(0, V)
from rxv import extract as X, context
from rxv.rules import reject
fd, _ = X.extract("/repo")
ctx = context.make(fd, "/repo", "quick")
s = reject.sites(ctx)
json.dump(s, open(os.path.join(V, "rxv", "reject_reference.json"), "w"), indent=1, ensure_ascii=False)
print(len(s), "keys;", sum(len(v) for v in s.values()), "sites")
