#!/usr/bin/env python3
"""Developer tool: proposes rxv/rules/panic_audit.json entries for the currently undischarged panic sites from a
table of (regex over 'function|shape' -> reason). Every reason was confirmed by reading the code; sites that match
no line stay unaudited (and therefore reported). Genuine defects carry "finding": true and stay violations."""
import sys, os, re, json
V = os.path.dirname(os.path.dirname(os.path.abspath(__file__)))
sys.path.insert(0, V)
from rxv import context, extract
from rxv.rules import panic as P
import rxv.rules

def _with_types(pat):
    import re as _re
    return _re.sub(r"(Overflow(?::(?:Add|Sub|Mul))?|OverflowNeg)(?!<)(\\\()", r"\1(?:<[^>]*>)?\2", pat)


R = [
 # ---- genuine defects (DESIGN.md section 6)
 (r"^analyze_string::AnalyzeIter::compute_nesting_table\|", None, "runs only on the text of a pattern the parser accepted (gated on !is_literal, LITERAL-ANALYZE): parentheses and brackets are balanced, every '(' has a successor, no trailing backslash; stacks have pattern.len() slots"),
 (r"^analyze_string::RegexMatchHandler::(on_group_end|top)\|unwrap", None, "the handler stack holds the outer pseudo group plus one entry per open group; events are balanced and each start precedes its end (EVENT-ORDER)"),
 (r"^analyze_string::AnalyzeIter::process_matching_substring\|unwrap:unwrap\(Vec::pop", None, "after balanced events only the outer pseudo group remains on the stack (EVENT-ORDER)"),
 (r"^<op_greedy_fixed::GreedyFixed as operation::OperationControl>::matches_iter\|OverflowNeg\(\(Ord::min\(a1\.len, 9223372036854775807\) as i64\)\)", None, "operand clamped to 0..=i64::MAX, whose negation is representable"),
 (r"^<op_(repeat::GreedyRepeat|sequence::Sequence)Iterator as std::iter::Iterator>::next\|unwrap:unwrap\(last_mut\(a1\.iterators\)\)", None, "the iterator stack is non-empty: either the enclosing test just established it or an iterator was pushed immediately before"),
 (r"^<op_repeat::Repeat as operation::OperationControl>::matches_iter\|Overflow:Sub\(len\(a2\.search\), a3\)", "F16", "F16: position may exceed the input length when a precondition is probed at a fixed position"),
 (r"tainted|Overflow:Mul\(|Overflow:Add\(a3, mul\(|get_minimum_match_length\(|get_match_length\(.*Overflow|OverflowNeg\(\(a1\.len as i64\)\)", "F17", "F17: arithmetic on quantifier bounds / lengths derived from them is unchecked (e.g. (?:ab){9223372036854775808})"),
 # ---- audited (safe by an invariant confirmed by reading)
 (r"^re_compiler::ReCompiler::compile\|index:index\(a1\.pattern, a1\.idx\)", None, "idx <= len is a parser invariant (every increment is guarded or follows a successful look-ahead); here idx != len was just established"),
 (r"^re_compiler::ReCompiler::compile\|Overflow:Sub<i32>\(v, 1\)", None, "i32 nesting counter: it may go negative (a stray ']'), underflow needs 2^31 unescaped ']' (pattern length assumption)"),
 (r"^re_compiler::ReCompiler::(escape|parse_character_class|parse_terminal|bracket)\|index:index\(a1\.pattern, a1\.idx\)", None, "callee-entry read of pattern[idx]: every caller tested idx < len and/or pattern[idx] (belief consistency is checked by INTERNAL-UNREACHABLE)"),
 (r"^re_compiler::ReCompiler::parse_expr\|index:index\(a1\.pattern, a1\.idx\)", None, "evaluated only when NODE_TOPLEVEL is clear, i.e. when called from parse_terminal's '(' arm which tested pattern[idx]"),
 (r"^re_compiler::ReCompiler::parse_expr\|index:index\(a1\.pattern, add\(1, a1\.idx\)\)", None, "guarded by idx+2 < len (arithmetic consequence, not syntactic)"),
 (r"^re_compiler::ReCompiler::parse_atom\|index:index\(a1\.pattern, a1\.idx\)", None, "idx was restored to its pre-look-ahead value, for which idx < len holds; escape() never writes pattern/len"),
 (r"^re_compiler::ReCompiler::escape\|index:index\(a1\.pattern, Range", None, "close = from + position(..) of an element found inside pattern[from..], hence from <= close < len"),
 (r"^re_compiler::ReCompiler::escape\|Overflow:Sub\(a1\.capturing_open_paren_count, 1\)", None, "capturing_open_paren_count starts at 1 (FLAG-Q-XPATH compiler-init) and is only incremented"),
 (r"^re_compiler::ReCompiler::there_follows(::\{closure#0\})?\|index", None, "guarded by idx + n <= len with i < n (arithmetic; the decision table of there_follows is checked by THERE-FOLLOWS)"),
 (r"^re_compiler::ReCompiler::(piece|parse_expr|parse_branch)\|(BoundsCheck\(len\(a2\), 0\)|index:index(_mut)?\((a2|vec!\[[^\]]*\]), 0\))", None, "flag vectors are created with vec![x] (length 1) by every caller, or are the caller's own checked parameter (FLAGS-SLICE)"),
 (r"^re_compiler::ReCompiler::parse_branch\|index:index_mut\(box_assume_init_into_vec_unsafe\(Box::new_uninit\(\)\), 0\)", None, "quantifier_flags is vec![1] and is only indexed, never shortened"),
 (r"^re_compiler::ReCompiler::parse_character_class\|panic:panic\(\"internal error: entered unreachable code\"\)", None, "escape(true) cannot return BackReference: the in_square_brackets test returns Err first (ESC-TABLE digit arms)"),
 (r"^<op_sequence::SequenceIterator as std::iter::Iterator>::next\|panic:panic\(\"not yet implemented\"\)", None, "dominated by backtracking_limit = Some; the field's only store is None (INTERNAL-UNREACHABLE todo-unreachable)"),
 (r"^<op_sequence::Sequence as operation::OperationControl>::optimize::\{closure#0\}\|(Overflow:Sub\(a1\.1, 1\)|index:index\(a1\.2, add\(1, a2\.0\)\))", None, "inside the arm for len >= 2; index i+1 is used only after the i == l-1 early return"),
 (r"^<op_sequence::Sequence as operation::OperationControl>::optimize\|unwrap", None, "arm of match operations.len() == 1"),
 (r"^(op_sequence::SequenceIterator::new|re_program::ReProgram::new)\|unwrap:unwrap\(first\(", None, "a Sequence is only built by make_sequence with >= 2 operations (optimize returns the sole element of a 1-sequence)"),
 (r"^<op_choice::Choice as operation::OperationControl>::get_(minimum_)?match_length\|unwrap", None, "Choice::new is called only when more than one branch was parsed"),
 (r"^<op_atom::Atom as operation::OperationControl>::get_initial_character_class\|index:index\(a1\.atom, 0\)", None, "guarded by len != 0 where Atom.len mirrors atom.len() (set together in Atom::new, the only constructor)"),
 (r"^<op_atom::Atom as operation::OperationControl>::matches_iter\|Overflow:Add\(a3, a1\.len\)", None, "position <= len(search) on entry to every matches_iter (POSITION-RANGE: the scan loops range below len+1 [SEARCH-COVER range|*], check_preconditions tests fixed positions against the input length [PRECOND-CHECK fixed|position-within-input] and ranges below len [floating|range-bounds], every operator passes on its own position or one a child iterator yielded, and the leaves yield at most len [LITERAL-ATOM, CLASS-MEMBERSHIP, LEAF-BACKREF]); a1.len is the length of the atom, at most the pattern length"),
 (r"^<op_back_reference::BackReference as operation::OperationControl>::matches_iter\|Overflow:Add\(a3, ", None, "position <= len(search) on entry to every matches_iter (POSITION-RANGE: the scan loops range below len+1 [SEARCH-COVER range|*], check_preconditions tests fixed positions against the input length [PRECOND-CHECK fixed|position-within-input] and ranges below len [floating|range-bounds], every operator passes on its own position or one a child iterator yielded, and the leaves yield at most len [LITERAL-ATOM, CLASS-MEMBERSHIP, LEAF-BACKREF]); the other operand is the length of a captured span or an index below it, at most len(search)"),
 (r"^<op_greedy_fixed::GreedyFixed as operation::OperationControl>::matches_iter\|Overflow:Add\(v, a1\.len\)", None, "executed only after the repeated term, whose every match has length a1.len, matched at p: p + len <= len(search)"),
 (r"^<op_atom::Atom as operation::OperationControl>::matches_iter\|unwrap", None, "position + len <= input length was just established, so skip(position) yields at least len items"),
 (r"^<op_back_reference::BackReference as operation::OperationControl>::matches_iter\|Overflow:Sub\(ReMatcher::end_backref", None, "start <= end in every slot of the back-reference arrays at all times: the arrays are written only through their two setters, every writer of a start writes an end that is the same position or one delivered from it, an end written alone is the slot's own start (BACKREF-ORDERED); before the repair 0876d9a Capture::matches_iter wrote the start alone and this site could fire (F33)"),
 (r"^<op_back_reference::BackReference as operation::OperationControl>::matches_iter\|Overflow:Sub\(add\(a3, sub\(", None, "l = e - s > 0 on this path (s != e)"),
 (r"^<op_back_reference::BackReference as operation::OperationControl>::matches_iter\|index:index\(a2\.search,", None, "position + l - 1 < len was established; i < l; s + i < e <= len"),
 (r"^re_matcher::CaptureState::set_paren_end\|", None, "endn starts with 3 entries and only grows; the loop exits with group_nr <= len - 1"),
 (r"^re_matcher::ReMatcher::(capture_state_startn|set_capture_state_endn)\|index", None, "called from clear_captured_groups_beyond with i < startn.len(); startn and endn are extended in step"),
 (r"^re_matcher::ReMatcher::(start_backref|end_backref|set_start_backref|set_end_backref)\|index", None, "arrays are allocated with max_parens entries in match_at when the program has back-references (BACKREF-ALLOC); group numbers are < max_parens"),
 (r"^re_matcher::ReMatcher::get_paren\|index:index\(a1\.search, Range", None, "group spans are start <= end <= len (written by CaptureGroupIterator::next from positions the child iterator yielded; nobody else writes a group's start, and an end alone is written only for group 0 or as the slot's own start: CAPTURE-WRITERS, CLEAR-BEYOND)"),
 (r"^re_matcher::ReMatcher::is_new_line\|index", None, "callers: Bol passes position-1 with position != 0 (and position <= len), Eol passes position after testing position < len (LEAF-BOL/LEAF-EOL)"),
 (r"^re_matcher::ReMatcher::(match_at|replace)\|unwrap:unwrap\(a1\.program\.max_parens\)", None, "max_parens is Some(..) at both ReProgram::new call sites (LITERAL-PATH program-args)"),
 (r"^re_matcher::ReMatcher::replace\|Overflow:Sub\(Option::unwrap\(a1\.program\.max_parens\), 1\)", None, "max_parens = capturing_open_paren_count >= 1"),
 (r"^re_matcher::ReMatcher::replace\|Overflow:Sub\(\(a2\[v\] as usize\), 48\)", None, "guarded by is_ascii_digit(ch): ch >= '0' = 48"),
 (r"^re_matcher::ReMatcher::replace\|index:index\(a1\.search, Range", None, "pos <= match start <= match end <= len (SCAN-SLICES)"),
 (r"^re_matcher::ReMatcher::replace\|unwrap:unwrap\(ReMatcher::get_paren_end\(a1, 0\)\)", None, "matches() returned true, so match_at set paren end 0"),
 (r"^re_matcher::ReMatcher::matches\|Overflow:Sub\(len\(a1\.search\), a2\)", None, "callers pass a start <= len (SCAN-RESUME: 0, a previous match end, or prev_end+1 after the search_start >= len early exit)"),
 (r"^re_matcher::ReMatcher::matches\|Overflow:Sub\(add\(1, len\(a1\.search\)\), len\(a1\.program\.prefix", None, "the minimum-length test just passed and minimum_length >= prefix length (OPT-MINLEN/OPT-PREFIX)"),
 (r"^re_matcher::ReMatcher::matches\|index:index\(a1\.search,", None, "j ranges below len+1-prefix.len() with k < prefix.len(), resp. j ranges below len"),
 (r"^<regex::TokenIter as std::iter::Iterator>::next\|", None, "matches() returned true => paren start/end 0 are Some with prev_end <= start <= len (SCAN-SLICES, TOKEN-TABLE)"),
 (r"^<analyze_string::AnalyzeIter as std::iter::Iterator>::next\|", None, "matches() returned true => paren start/end 0 are Some; prev_end <= start <= end <= len (SCAN-SLICES, ANALYZE-GUARDS)"),
 (r"^analyze_string::AnalyzeIter::process_matching_substring\|Overflow:Sub\(ReMatcher::paren_count", None, "called only for a match: match_at sets paren_count >= 1"),
 (r"^analyze_string::AnalyzeIter::process_matching_substring\|Overflow:Sub\((Option::unwrap\()?ReMatcher::get_paren_(start|end)", None, "group spans lie inside the match: start_0 <= start_i <= end_i (the capture state is emptied at every start position [STATE-RESET capture-state-empty, MATCH-AT], so every group start was written during this attempt, at or after start_0; start_i <= end_i by CAPTURE-WRITERS)"),
 (r"^analyze_string::AnalyzeIter::process_matching_substring\|unwrap:unwrap\(ReMatcher::get_paren_end", None, "a group with a start has an end (written together)"),
 (r"^analyze_string::AnalyzeIter::process_matching_substring\|unwrap:unwrap\(HashMap::get\(a1\.nesting_table", None, "nesting table has an entry for every capturing group of the (non-literal) pattern (NESTING-SCANNER)"),
 (r"^analyze_string::AnalyzeIter::process_matching_substring(::\{closure#\d\})?\|vecop:insert", None, "insert position is 0 or an index found by scanning the same vector (pos <= len)"),
]

def main():
    d, _ = extract.extract("/repo")
    ctx = context.make(d)
    audit = {}
    unmatched = []
    groups = {}
    for b in P.api_bodies(ctx):
        sc = P.scan(ctx, b)
        for bb, s in sc.sites.items():
            if s["kind"] == "refcell" or s["undis"] == 0:
                continue
            key = "%s|%s" % (b.path, P._static_key(ctx, b, bb, s["kind"]))
            groups.setdefault(key, []).append(s["why"])
    for key, lst in sorted(groups.items()):
        why = lst[0]
        for rx, fid, reason in R:
            if re.search(_with_types(rx), key) or (fid == "F17" and "tainted" in why and re.search(r"tainted", rx)):
                e = {"count": len(lst), "reason": reason}
                if fid:
                    e["finding"] = fid
                audit[key] = e
                break
        else:
            unmatched.append((key, why))
    old = P.load_audit()
    for k in ("__internal__",):
        if k in old:
            audit[k] = old[k]
    json.dump(audit, open(os.path.join(V, "rxv", "rules", "panic_audit.json"), "w"), indent=1, sort_keys=True)
    print("audited", sum(1 for v in audit.values() if isinstance(v, dict) and "finding" not in v and "count" in v), "findings", sum(1 for v in audit.values() if isinstance(v, dict) and v.get("finding")), "unmatched", len(unmatched))
    for k, w in unmatched:
        print("UNMATCHED", k[:200], "[", w[:80], "]")

main()
