#!/usr/bin/env python3
"""tools/gen_order_reference.py : writes rxv/order_reference.json - for every operator function of /repo's current tree
the set of orders in which its paths perform state-affecting calls (see rxv/rules/order.py)."""
import sys, os, json
V = os.path.dirname(os.path.dirname(os.path.abspath(__file__)))
sys.path.insert(0, V)
from rxv import extract as X, context
from rxv.rules import order
fd, _ = X.extract("/repo")
ctx = context.make(fd, "/repo", "quick")
out = {}
for b in ctx.f.bodies:
    if order._scope(b):
        s = order.sequences(ctx, b)
        if s is not None:
            out[b.path] = sorted(s)
json.dump(out, open(os.path.join(V, "rxv", "order_reference.json"), "w"), indent=1)
print(len(out), "functions;", sum(len(v) for v in out.values()), "orders")
for k, v in out.items():
    if "SequenceIterator::new" in k or "Capture" in k:
        print(k, v)
