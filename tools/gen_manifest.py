#!/usr/bin/env python3
"""Regenerates /verif/MANIFEST.json from the rule registry and tools/manifest_notes.json."""
import json, os, sys
V = os.path.dirname(os.path.dirname(os.path.abspath(__file__)))
sys.path.insert(0, V)
from rxv.engine import RULES
import rxv.rules

notes = json.load(open(os.path.join(V, "tools", "manifest_notes.json")))
from rxv.engine import scope
props = [json.loads(l) for l in open(os.path.join(V, "properties.jsonl"))]
checks = []
na = []
for p in props:
    pid = p["id"]
    rules = sorted(r.id for r in RULES.values() if set(r.props) & scope(pid))
    n = notes.get(pid, {})
    if not rules or n.get("not_applicable"):
        na.append({"property_id": pid, "reason": n.get("not_applicable") or "no structural clause of this property is checked yet"})
        continue
    checks.append({
        "property_id": pid,
        "quick_cmd": "./check %s --tier quick" % pid,
        "thorough_cmd": "./check %s --tier thorough" % pid,
        "evidence_file": "/verif/evidence/%s.json" % pid,
        "replay_cmd_template": "./check %s --replay {path}" % pid,
        "engine": "rxv",
        "level_claimed": {
            "category": "other",
            "text": n.get("text", "Static structural analysis of the type-checked program: every instance of the rules %s must hold on the current tree. These are necessary conditions of the property that are visible in the shape of the code on every path; the behaviour for all inputs is not decided." % ", ".join(rules)),
            "design_ref": "DESIGN.md section 5, " + pid,
        },
        "level_note": n.get("note", "Trusted: rustc MIR construction, the rxfacts driver, the Python analyses (incl. the normal forms of DESIGN.md 10.9), oracle tables. Undecided remainder: see DESIGN.md section 5 under this property. Open findings printed as KNOWN-FINDING are listed in known_findings.json. The thorough tier evaluates the same rules plus the compile witnesses / positive controls and a self-test on the tree under check: every kept seeded change for this property must make the check fire, every kept behaviour-preserving refactoring must leave it silent (CONTROL-LOST / CONTROL-NOISY lines and evidence coverage.self_test; never part of the verdict)."),
        "technique": n.get("technique", "static analysis: repository-specific rules over rustc MIR facts of the current tree (path-sensitive symbolic decision tables of the anchored functions compared with specifications, guard dominance, data flow of iterators and saved state, table-vs-oracle comparison, call-graph reachability and SCCs, audited panic-site inventory); nothing is executed"),
    })
m = {
    "version": 1,
    "setup_cmd": "cd /verif && ./setup.sh",
    "hooks": {
        "guard": "regexml_verif",
        "enable": "no hooks are used: static analysis reads the unmodified sources through a rustc driver (RUSTC_WORKSPACE_WRAPPER); nothing in /repo is instrumented",
        "baseline_off_cmd": "cd /repo && cargo test --workspace --no-fail-fast --offline",
        "source_commits": [],
        "add_only": True,
    },
    "engines": [
        {"name": "rxfacts", "path": "/verif/driver", "serves_properties": [c["property_id"] for c in checks], "kind_free_text": "rustc_private driver dumping MIR/ADT/static/unsafe facts as JSON (no execution)"},
        {"name": "rxv", "path": "/verif/rxv", "serves_properties": [c["property_id"] for c in checks], "kind_free_text": "Python static analyses over the facts: CFG/dominators, conditional constant propagation, path-sensitive decision tables, call graph, set-expression evaluation, panic-site inventory, loop progress"},
    ],
    "checks": checks,
    "not_applicable": na,
    "notes": "Technique family: static analysis only. See DESIGN.md.",
}
json.dump(m, open(os.path.join(V, "MANIFEST.json"), "w"), indent=1)
print("claimed:", [c["property_id"] for c in checks], "n/a:", [x["property_id"] for x in na])
