#!/usr/bin/env python3
"""tools/gen_vocabulary_adaptors.py : records, from /repo's current tree (the reference tree), which functions call an
iterator adaptor (all/any/find/position/for_each) with a closure of the crate -> rxv/vocabulary_adaptors.json.  The
normaliser (rxv/inline.py desugar_iterator_adaptors) turns adaptor calls into the loops they abbreviate *except* those
the reference tree itself contains: the rules over those functions are written against the adaptor form."""
import sys, os, json
V = os.path.dirname(os.path.dirname(os.path.abspath(__file__)))
sys.path.insert(0, V)
from rxv import extract as X
from rxv.facts import strip_lt
from rxv.inline import ADAPTORS

fd, info = X.extract("/repo")
raw = json.load(open(os.path.join(fd, "regexml.main.json")))
out = {}
for b in raw["bodies"]:
    for blk in b["blocks"]:
        t = blk["term"]
        if t["k"] != "call" or blk.get("cleanup"):
            continue
        f = t.get("func", {})
        fn = f.get("fn") if f.get("k") == "const" else None
        kind = ADAPTORS.get(fn.get("def")) if fn else None
        if kind and kind not in ("fold", "min", "max") and len(t.get("args", [])) == 2:  # folds are always read as loops
            a = t["args"][-1]
            if a.get("k") == "const" or (a.get("k") in ("move", "copy") and "closure@" in b["locals"][a["place"]["l"]]["ty"]):
                p = strip_lt(b["path"]).split("::{closure")[0]
                out.setdefault(p, {}).setdefault(kind, 0)
                out[p][kind] += 1
        if fn and fn.get("def") == "std::sync::OnceLock::<T>::get_or_init":
            p = strip_lt(b["path"]).split("::{closure")[0]
            out.setdefault(p, {}).setdefault("memo", 0)
            out[p]["memo"] += 1
        if fn and fn.get("def") in ("std::option::Option::<T>::and_then", "std::option::Option::<T>::map") and len(t.get("args", [])) == 2 and t["args"][1].get("k") == "const":
            p = strip_lt(b["path"]).split("::{closure")[0]
            out.setdefault(p, {}).setdefault("option_fn", 0)
            out[p]["option_fn"] += 1
json.dump(out, open(os.path.join(V, "rxv", "vocabulary_adaptors.json"), "w"), indent=1, sort_keys=True)
print(out)
