// Development aid, see README.md. Naive reference: ends(node, i) = set of end positions.
use regexml::Regex;
use std::collections::BTreeSet;

#[derive(Clone, Debug)]
enum N {
    Ch(char),
    Dot,
    Cls(&'static str, bool), // members, negated
    Bol,
    Eol,
    Ref(usize),
    Cat(Vec<N>),
    Alt(Vec<N>),
    Grp(Box<N>, bool, usize), // body, capturing?, group number (set by renumber)
    Rep(Box<N>, usize, Option<usize>, bool, &'static str), // body, min, max, greedy, spelling
}

fn show(n: &N, out: &mut String) {
    match n {
        N::Ch(c) => out.push(*c),
        N::Dot => out.push('.'),
        N::Cls(m, neg) => {
            out.push('[');
            if *neg { out.push('^'); }
            out.push_str(m);
            out.push(']');
        }
        N::Ref(g) => { out.push('\\'); out.push_str(&g.to_string()); }
        N::Bol => out.push('^'),
        N::Eol => out.push('$'),
        N::Cat(v) => for x in v { show(x, out) },
        N::Alt(v) => {
            for (i, x) in v.iter().enumerate() {
                if i > 0 { out.push('|'); }
                show(x, out);
            }
        }
        N::Grp(b, cap, _) => {
            out.push_str(if *cap { "(" } else { "(?:" });
            show(b, out);
            out.push(')');
        }
        N::Rep(b, _, _, greedy, sp) => {
            show(b, out);
            out.push_str(sp);
            if !*greedy { out.push('?'); }
        }
    }
}

fn eqi(a: char, b: char) -> bool {
    let one = |mut it: std::char::ToLowercase| { let c = it.next(); if it.next().is_none() { c } else { None } };
    let oneu = |mut it: std::char::ToUppercase| { let c = it.next(); if it.next().is_none() { c } else { None } };
    a == b || one(a.to_lowercase()) == Some(b) || oneu(a.to_uppercase()) == Some(b) || one(b.to_lowercase()) == Some(a) || oneu(b.to_uppercase()) == Some(a)
}
fn ends(n: &N, s: &[char], i: usize, fl: &str) -> BTreeSet<usize> {
    let mut r = BTreeSet::new();
    match n {
        N::Ch(c) => if i < s.len() && (s[i] == *c || (fl.contains('i') && eqi(s[i], *c))) { r.insert(i + 1); },
        N::Dot => if i < s.len() && (fl.contains('s') || (s[i] != '\n' && s[i] != '\r')) { r.insert(i + 1); },
        N::Cls(m, neg) => if i < s.len() && ((m.contains(s[i]) || (fl.contains('i') && m.chars().any(|x| eqi(x, s[i])))) != *neg) { r.insert(i + 1); },
        N::Ref(_) => { r.insert(i); } // not meaningful without captures; only used through bt
        N::Bol => if i == 0 || (fl.contains('m') && i < s.len() && s[i - 1] == '\n') { r.insert(i); },
        N::Eol => if i == s.len() || (fl.contains('m') && s[i] == '\n') { r.insert(i); },
        N::Cat(v) => {
            let mut cur: BTreeSet<usize> = [i].into_iter().collect();
            for x in v {
                let mut nx = BTreeSet::new();
                for &p in &cur { nx.extend(ends(x, s, p, fl)); }
                cur = nx;
            }
            r = cur;
        }
        N::Alt(v) => for x in v { r.extend(ends(x, s, i, fl)); },
        N::Grp(b, _, _) => r = ends(b, s, i, fl),
        N::Rep(b, min, max, _, _) => {
            // k-fold concatenation for k in min..=max; positions only, so iterate sets
            let mut cur: BTreeSet<usize> = [i].into_iter().collect();
            let cap = max.unwrap_or(min + s.len() + 2).min(min + s.len() + 2);
            for k in 0..=cap {
                if k >= *min { r.extend(cur.iter().copied()); }
                if k == cap { break; }
                let mut nx = BTreeSet::new();
                for &p in &cur { nx.extend(ends(b, s, p, fl)); }
                if nx.is_empty() { break; }
                cur = nx;
            }
        }
    }
    r
}


// ordered-choice backtracking reference: first success in priority order
type Caps = std::cell::RefCell<Vec<Option<(usize, usize)>>>;
thread_local! { static CAPS: Caps = std::cell::RefCell::new(vec![None; 16]); }
fn renumber(n: &mut N, c: &mut usize) {
    match n {
        N::Grp(b, cap, id) => { if *cap { *c += 1; *id = *c; } renumber(b, c); }
        N::Cat(v) | N::Alt(v) => for x in v { renumber(x, c) },
        N::Rep(b, ..) => renumber(b, c),
        _ => {}
    }
}
fn groups_in(n: &N, out: &mut Vec<usize>) {
    match n {
        N::Grp(b, cap, id) => { if *cap { out.push(*id); } groups_in(b, out); }
        N::Cat(v) | N::Alt(v) => for x in v { groups_in(x, out) },
        N::Rep(b, ..) => groups_in(b, out),
        _ => {}
    }
}
fn bt(n: &N, s: &[char], i: usize, fl: &str, k: &mut dyn FnMut(usize) -> bool) -> bool {
    match n {
        N::Ref(g) => {
            match CAPS.with(|c| c.borrow()[*g]) {
                None => k(i),
                Some((a, b)) => { let l = b - a; if i + l <= s.len() && (s[a..b] == s[i..i + l] || (fl.contains('i') && (0..l).all(|x| eqi(s[a + x], s[i + x])))) { k(i + l) } else { false } }
            }
        }
        N::Ch(_) | N::Dot | N::Cls(..) | N::Bol | N::Eol => {
            for j in ends(n, s, i, fl) { if k(j) { return true; } }
            false
        }
        N::Cat(v) => bt_seq(v, s, i, fl, k),
        N::Alt(v) => { for x in v { if bt(x, s, i, fl, k) { return true; } } false }
        N::Grp(b, cap, id) => {
            if !*cap { return bt(b, s, i, fl, k); }
            bt(b, s, i, fl, &mut |j| {
                let old = CAPS.with(|c| c.borrow()[*id]);
                CAPS.with(|c| c.borrow_mut()[*id] = Some((i, j)));
                if k(j) { return true; }
                CAPS.with(|c| c.borrow_mut()[*id] = old);
                false
            })
        }
        N::Rep(b, min, max, greedy, _) => bt_rep(b, *min, *max, *greedy, 0, s, i, fl, k),
    }
}
fn bt_seq(v: &[N], s: &[char], i: usize, fl: &str, k: &mut dyn FnMut(usize) -> bool) -> bool {
    if v.is_empty() { return k(i); }
    let (h, t) = (&v[0], &v[1..]);
    bt(h, s, i, fl, &mut |j| bt_seq(t, s, j, fl, k))
}
#[allow(clippy::too_many_arguments)]
fn bt_rep(b: &N, min: usize, max: Option<usize>, greedy: bool, count: usize, s: &[char], i: usize, fl: &str, k: &mut dyn FnMut(usize) -> bool) -> bool {
    let can_more = max.map_or(true, |m| count < m);
    let mut more = |k: &mut dyn FnMut(usize) -> bool| -> bool {
        if !can_more { return false; }
        // ECMAScript-like: the groups inside the body are reset when an iteration is entered (TRIAGE_PERLCAPS keeps them)
        let mut ids = Vec::new();
        if std::env::var("TRIAGE_PERLCAPS").is_err() { groups_in(b, &mut ids); }
        let saved: Vec<_> = ids.iter().map(|g| CAPS.with(|c| c.borrow()[*g])).collect();
        for g in &ids { CAPS.with(|c| c.borrow_mut()[*g] = None); }
        let r = bt(b, s, i, fl, &mut |j| {
            if j == i && count >= min { return false; } // an empty iteration beyond min adds nothing
            bt_rep(b, min, max, greedy, count + 1, s, j, fl, k)
        });
        if !r { for (g, v) in ids.iter().zip(saved) { CAPS.with(|c| c.borrow_mut()[*g] = v); } }
        r
    };
    if count < min { return more(k); }
    if greedy { more(k) || k(i) } else { k(i) || more(k) }
}
fn first_match(n: &N, s: &[char], from: usize, fl: &str) -> Option<(usize, usize)> {
    for i in from..=s.len() {
        CAPS.with(|c| c.borrow_mut().iter_mut().for_each(|x| *x = None));
        let mut end = None;
        if bt(n, s, i, fl, &mut |j| { end = Some(j); true }) { return Some((i, end.unwrap())); }
    }
    None
}
fn ref_replace(n: &N, s: &[char], fl: &str) -> Option<String> {
    let mut out = String::new();
    let mut pos = 0;
    while let Some((i, j)) = first_match(n, s, pos, fl) {
        if j == i { return None; }
        out.extend(&s[pos..i]); out.push('<'); out.extend(&s[i..j]);
        if std::env::var("TRIAGE_CAPS").is_ok() {
            for g in 1..=3 { out.push('|'); if let Some((a, b)) = CAPS.with(|c| c.borrow()[g]) { out.extend(&s[a..b]); } }
        }
        out.push('>');
        pos = j;
    }
    out.extend(&s[pos..]);
    Some(out)
}

fn atoms() -> Vec<N> {
    let mut v = vec![N::Ch('a'), N::Ch('b'), N::Dot, N::Cls("ab", false), N::Cls("a", true), N::Bol, N::Eol];
    if std::env::var("TRIAGE_I").is_ok() { v = vec![N::Ch('a'), N::Ch('A'), N::Ch('b'), N::Ch('k'), N::Ch('\u{212A}'), N::Cls("ab", false), N::Cls("A", true), N::Cls("k", false), N::Dot]; }
    if std::env::var("TRIAGE_REFS").is_ok() { v = vec![N::Ch('a'), N::Ch('b'), N::Cls("ab", false), N::Ref(1)]; }
    v
}

fn quants() -> Vec<(usize, Option<usize>, &'static str)> {
    vec![(0, None, "*"), (1, None, "+"), (0, Some(1), "?"), (2, Some(2), "{2}"), (1, Some(2), "{1,2}"), (0, Some(2), "{0,2}"), (2, None, "{2,}"), (0, Some(0), "{0}")]
}

fn is_atomic(n: &N) -> bool { matches!(n, N::Ch(_) | N::Dot | N::Cls(..) | N::Grp(..) | N::Ref(_)) }

// all nodes of exactly `size`
fn gen(size: usize, memo: &mut Vec<Vec<N>>) -> Vec<N> {
    let capsize: usize = std::env::var("TRIAGE_CAPSIZE").ok().and_then(|s| s.parse().ok()).unwrap_or(4);
    if size < memo.len() { return memo[size].clone(); }
    let mut out = Vec::new();
    if size == 1 { out = atoms(); }
    else {
        // quantified: body of size-1 (atomic or wrapped in a group)
        for b in gen(size - 1, memo) {
            if matches!(b, N::Bol | N::Eol | N::Rep(..)) { continue; }
            let body = if is_atomic(&b) { b.clone() } else { continue };
            for (mn, mx, sp) in quants() {
                out.push(N::Rep(Box::new(body.clone()), mn, mx, true, sp));
                if sp != "{0}" && sp != "{2}" { out.push(N::Rep(Box::new(body.clone()), mn, mx, false, sp)); }
            }
        }
        // group
        for b in gen(size - 1, memo) {
            let atomic = is_atomic(&b) && !matches!(b, N::Grp(..));
            if atomic && std::env::var("TRIAGE_ATOMGROUPS").is_err() { continue; }
            if !atomic { out.push(N::Grp(Box::new(b.clone()), false, 0)); }
            if size <= capsize { out.push(N::Grp(Box::new(b), true, 0)); }
        }
        // binary cat / alt
        for l in 1..size - 1 {
            let r_ = size - 1 - l;
            for a in gen(l, memo) {
                for b in gen(r_, memo) {
                    if !matches!(a, N::Alt(_)) && !matches!(b, N::Alt(_) | N::Cat(_)) {
                        let mut v = match &a { N::Cat(v) => v.clone(), x => vec![x.clone()] };
                        v.push(b.clone());
                        out.push(N::Cat(v));
                    }
                    if !matches!(b, N::Alt(_)) {
                        let mut v = match &a { N::Alt(v) => v.clone(), x => vec![x.clone()] };
                        v.push(b.clone());
                        out.push(N::Alt(v));
                    }
                }
            }
        }
    }
    while memo.len() <= size { memo.push(Vec::new()); }
    memo[size] = out.clone();
    out
}

#[test]
fn diff_enum() {
    let maxsize: usize = std::env::var("TRIAGE_SIZE").ok().and_then(|s| s.parse().ok()).unwrap_or(5);
    let stride: usize = std::env::var("TRIAGE_STRIDE").ok().and_then(|s| s.parse().ok()).unwrap_or(1);
    let fl = std::env::var("TRIAGE_FLAGS").unwrap_or_default();
    let fl = fl.as_str();
    let spans = std::env::var("TRIAGE_SPANS").is_ok();
    let alpha = std::env::var("TRIAGE_ALPHA").unwrap_or("ab".to_string());
    let mut inputs: Vec<Vec<char>> = vec![vec![]];
    let mut frontier: Vec<Vec<char>> = vec![vec![]];
    for _ in 0..4 {
        let mut nx = Vec::new();
        for s in &frontier { for c in alpha.chars() { let mut t = s.clone(); t.push(c); nx.push(t); } }
        inputs.extend(nx.iter().cloned());
        frontier = nx;
    }
    let mut memo = vec![Vec::new()];
    let mut total = 0usize; let mut bad = 0usize; let mut errs = 0usize; let mut shown = 0usize;
    for size in 1..=maxsize {
        let pats = gen(size, &mut memo);
        for (pi, n0) in pats.iter().enumerate() {
            if pi % stride != 0 { continue; }
            let mut n1 = n0.clone();
            renumber(&mut n1, &mut 0);
            let n = &n1;
            if std::env::var("TRIAGE_CAPS").is_ok() && !format!("{:?}", n).contains("true") { continue; }
            let mut p = String::new();
            show(n, &mut p);
            let re = match Regex::xpath(&p, fl) { Ok(r) => r, Err(_) => { errs += 1; continue } };
            total += 1;
            for s in &inputs {
                let st: String = s.iter().collect();
                if std::env::var("TRIAGE_XSD").is_ok() {
                    // C17: a pattern of the common subset gives identical results under both dialects
                    let pc = p.replace("(?:", "(");
                    if pc.replace("[^", "[").contains('^') || pc.contains('$') { break; }
                    let dbg = format!("{:?}", n);
                    if dbg.contains("false, \"") { break; } // a reluctant quantifier
                    let (a, b) = (Regex::xpath(&pc, fl), Regex::xsd(&pc, fl));
                    match (a, b) {
                        (Ok(a), Ok(b)) => {
                            let ra = (a.is_match(&st), a.replace_all(&st, "<$0|$1>").ok(), a.tokenize(&st).map(|t| t.collect::<Vec<_>>()).ok(), a.analyze(&st).map(|t| format!("{:?}", t.collect::<Vec<_>>())).ok());
                            let rb = (b.is_match(&st), b.replace_all(&st, "<$0|$1>").ok(), b.tokenize(&st).map(|t| t.collect::<Vec<_>>()).ok(), b.analyze(&st).map(|t| format!("{:?}", t.collect::<Vec<_>>())).ok());
                            if ra != rb { bad += 1; if bad <= 100 { println!("XSD {:?} on {:?}: xpath {:?} xsd {:?}", pc, st, ra, rb); } break; }
                        }
                        (a, b) => { if a.is_ok() != b.is_ok() { bad += 1; if bad <= 100 { println!("XSD {:?}: xpath ok={} xsd ok={}", pc, a.is_ok(), b.is_ok()); } } break; }
                    }
                    continue;
                }
                if std::env::var("TRIAGE_X").is_ok() {
                    // flag x: the same pattern with white space sprinkled in (outside classes) must behave identically
                    let mut px = String::new();
                    let mut depth = 0i32; let mut esc = false;
                    for (ci, c) in p.chars().enumerate() {
                        if depth == 0 && !esc { match ci % 4 { 0 => px.push(' '), 1 => px.push('\n'), 2 => px.push('\t'), _ => px.push('\r') } }
                        px.push(c);
                        if esc { esc = false; } else if c == '\\' { esc = true; } else if c == '[' { depth += 1; } else if c == ']' { depth -= 1; }
                    }
                    px.push(' ');
                    match Regex::xpath(&px, &format!("{}x", fl)) {
                        Err(e) => { bad += 1; if bad <= 100 { println!("X {:?} rejected with x: {:?}", px, e); } break; }
                        Ok(rx) => {
                            let (a, b) = (re.is_match(&st), rx.is_match(&st));
                            let (ra, rb) = (re.replace_all(&st, "<$0>").ok(), rx.replace_all(&st, "<$0>").ok());
                            if a != b || ra != rb { bad += 1; if bad <= 100 { println!("X {:?} vs {:?} on {:?}: {} {:?} / {} {:?}", p, px, st, a, ra, b, rb); } break; }
                        }
                    }
                    continue;
                }
                if std::env::var("TRIAGE_Q").is_ok() {
                    // flag q: the pattern text is a literal
                    match Regex::xpath(&p, &format!("{}q", fl)) {
                        Err(e) => { bad += 1; if bad <= 100 { println!("Q {:?} rejected with q: {:?}", p, e); } break; }
                        Ok(rq) => {
                            for hay in [st.clone(), format!("{}{}", st, p), format!("{}{}{}", p, st, p), format!("x{}y{}", p, p)] {
                                let want = hay.contains(p.as_str());
                                let got = rq.is_match(&hay);
                                let wr = hay.replace(p.as_str(), "<$0\\>");
                                let gr = rq.replace_all(&hay, "<$0\\>");
                                let wt: Vec<&str> = if hay.is_empty() { vec![] } else { hay.split(p.as_str()).collect() };
                                let gt = rq.tokenize(&hay).map(|t| t.collect::<Vec<_>>());
                                let an = rq.analyze(&hay).map(|a| a.count());
                                if want != got || gr.as_deref() != Ok(wr.as_str()) || gt.as_ref().map(|v| v.iter().map(|s| s.as_str()).collect::<Vec<_>>()) != Ok(wt.clone()) || an.is_err() {
                                    bad += 1; if bad <= 100 { println!("Q {:?} on {:?}: is_match {} want {}; replace {:?} want {:?}; tokens {:?} want {:?}; analyze {:?}", p, hay, got, want, gr, wr, gt, wt, an); }
                                    break;
                                }
                            }
                        }
                    }
                    break;
                }
                if std::env::var("TRIAGE_API").is_ok() {
                    // C04/C06/C16 shaped sanity: partition, token count bound, no empty match
                    let mut msg = String::new();
                    if let Ok(tk) = re.tokenize(&st) {
                        let v: Vec<String> = tk.take(s.len() + 3).collect();
                        if v.len() > s.len() + 1 { msg.push_str(&format!("tokenize yields more than len+1 tokens: {:?} ", v)); }
                    }
                    if let Ok(an) = re.analyze(&st) {
                        let v: Vec<_> = an.take(2 * s.len() + 4).collect();
                        if v.len() > 2 * s.len() + 1 { msg.push_str("analyze yields more than 2*len+1 entries "); }
                        let d = format!("{:?}", v);
                        if d.contains("Match([String(\"\")])") && !d.contains("NonMatch([String(\"\")])") && d.matches("Match([String(\"\")])").count() > d.matches("NonMatch(").count() { msg.push_str(&format!("empty match: {} ", d)); }
                    }
                    if let Ok(rp) = re.replace_all(&st, "") {
                        if rp.chars().count() > s.len() { msg.push_str("replace grew "); }
                    }
                    let nullable = re.replace_all("", "x").is_err();
                    let matches_empty = re.is_match("");
                    if nullable != matches_empty { msg.push_str(&format!("guard {} vs is_match(\"\") {} ", nullable, matches_empty)); }
                    if !msg.is_empty() {
                        bad += 1;
                        if bad <= 200 { println!("API {:?} on {:?}: {}", p, st, msg); }
                        break;
                    }
                    continue;
                }
                if spans {
                    if let Ok(got) = re.replace_all(&st, if std::env::var("TRIAGE_CAPS").is_ok() { "<$0|$1|$2|$3>" } else { "<$0>" }) {
                        if let Some(want) = ref_replace(n, s, fl) {
                            // only unambiguous differences: the engine agrees with neither the reset-per-iteration
                            // nor the keep-across-iterations reading of captures inside repetitions
                            let other = {
                                let perl = std::env::var("TRIAGE_PERLCAPS").is_ok();
                                if perl { std::env::remove_var("TRIAGE_PERLCAPS"); } else { std::env::set_var("TRIAGE_PERLCAPS", "1"); }
                                let o = ref_replace(n, s, fl);
                                if perl { std::env::set_var("TRIAGE_PERLCAPS", "1"); } else { std::env::remove_var("TRIAGE_PERLCAPS"); }
                                o
                            };
                            if want != got && other.as_deref() != Some(got.as_str()) {
                                bad += 1;
                                let skip = std::env::var("TRIAGE_SKIP").unwrap_or_default();
                                let hidden = !skip.is_empty() && skip.split(' ').any(|x| p.contains(x));
                                if !hidden { shown += 1; }
                                if !hidden && shown <= 400 { println!("SPAN {:?} on {:?}: engine {:?} reference {:?}", p, st, got, want); }
                                break;
                            }
                        }
                    }
                    continue;
                }
                let want = if std::env::var("TRIAGE_REFS").is_ok() { first_match(n, s, 0, fl).is_some() } else { (0..=s.len()).any(|i| !ends(n, s, i, fl).is_empty()) };
                let got = re.is_match(&st);
                if want != got {
                    bad += 1;
                    let skip = std::env::var("TRIAGE_SKIP").unwrap_or_default();
                    let hidden = !skip.is_empty() && skip.split(' ').any(|x| p.contains(x));
                    if !hidden { shown += 1; }
                    if !hidden && shown <= 400 { println!("DIFF {:?} on {:?}: engine {} reference {}", p, st, got, want); }
                    break;
                }
            }
        }
        println!("size {} done: {} patterns so far, {} rejected, {} differing", size, total, errs, bad);
    }
}
