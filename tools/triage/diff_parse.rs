// Development aid (see README.md): acceptance differential between Regex::xpath / Regex::xsd and a hand-written
// recogniser of the XPath 3.1 / XSD 1.1 regular-expression grammar, over all strings up to a length bound.
use regexml::Regex;

struct P<'a> {
    s: &'a [char],
    i: usize,
    xpath: bool,
    opened: usize,
    closed: Vec<bool>,
}

const CATS: &[&str] = &["L", "Lu", "Ll", "Lt", "Lm", "Lo", "M", "Mn", "Mc", "Me", "N", "Nd", "Nl", "No", "P", "Pc", "Pd", "Ps", "Pe", "Pi", "Pf", "Po", "Z", "Zs", "Zl", "Zp", "S", "Sm", "Sc", "Sk", "So", "C", "Cc", "Cf", "Co", "Cn"];

impl<'a> P<'a> {
    fn peek(&self) -> Option<char> { self.s.get(self.i).copied() }
    fn eat(&mut self, c: char) -> bool { if self.peek() == Some(c) { self.i += 1; true } else { false } }

    fn regexp(&mut self) -> bool {
        if !self.branch() { return false; }
        while self.eat('|') { if !self.branch() { return false; } }
        true
    }
    fn branch(&mut self) -> bool {
        while let Some(c) = self.peek() {
            if c == '|' || c == ')' { break; }
            if !self.piece() { return false; }
        }
        true
    }
    fn piece(&mut self) -> bool {
        if !self.atom() { return false; }
        self.quantifier()
    }
    fn number(&mut self) -> Option<u128> {
        let st = self.i;
        let mut v: u128 = 0;
        while let Some(c) = self.peek() { if c.is_ascii_digit() { v = v.saturating_mul(10).saturating_add(c as u128 - 48); self.i += 1; } else { break; } }
        if self.i == st { None } else { Some(v) }
    }
    fn quantifier(&mut self) -> bool {
        match self.peek() {
            Some('?') | Some('*') | Some('+') => { self.i += 1; }
            Some('{') => {
                self.i += 1;
                let Some(n) = self.number() else { return false };
                if self.eat(',') {
                    if let Some(m) = self.number() { if n > m { return false; } }
                }
                if !self.eat('}') { return false; }
            }
            _ => return true,
        }
        if self.xpath { self.eat('?'); }
        true
    }
    fn atom(&mut self) -> bool {
        let Some(c) = self.peek() else { return false };
        match c {
            '(' => {
                self.i += 1;
                let mut cap = None;
                if self.xpath && self.peek() == Some('?') && self.s.get(self.i + 1) == Some(&':') { self.i += 2; }
                else { self.opened += 1; self.closed.push(false); cap = Some(self.opened); }
                if !self.regexp() { return false; }
                if !self.eat(')') { return false; }
                if let Some(g) = cap { self.closed[g - 1] = true; }
                true
            }
            '[' => self.class_expr(),
            '.' => { self.i += 1; true }
            '\\' => self.escape(false).is_some(),
            '?' | '*' | '+' | '{' | '}' | ']' | ')' | '|' => false,
            _ => { self.i += 1; true } // includes ^ and $ (anchors in XPath, ordinary in XSD)
        }
    }
    // returns Some(true) if the escape denotes a single character (usable as a range end point)
    fn escape(&mut self, in_class: bool) -> Option<bool> {
        self.i += 1;
        let c = self.peek()?;
        self.i += 1;
        match c {
            'n' | 'r' | 't' | '\\' | '|' | '.' | '?' | '*' | '+' | '(' | ')' | '{' | '}' | '-' | '[' | ']' | '^' => Some(true),
            '$' => if self.xpath { Some(true) } else { None },
            's' | 'S' | 'i' | 'I' | 'c' | 'C' | 'd' | 'D' | 'w' | 'W' => Some(false),
            'p' | 'P' => {
                if !self.eat('{') { return None; }
                let st = self.i;
                while let Some(c) = self.peek() { if c == '}' { break; } self.i += 1; }
                let name: String = self.s[st..self.i].iter().collect();
                if !self.eat('}') { return None; }
                if CATS.contains(&name.as_str()) { return Some(false); }
                if let Some(b) = name.strip_prefix("Is") { if known_block(b) { return Some(false); } }
                None
            }
            '0'..='9' => {
                if !self.xpath || in_class { return None; }
                let mut n = c as usize - 48;
                if n == 0 { return None; }
                // longest number not exceeding the groups opened so far
                while let Some(d) = self.peek() {
                    if d.is_ascii_digit() && n * 10 + (d as usize - 48) <= self.opened { n = n * 10 + (d as usize - 48); self.i += 1; } else { break; }
                }
                if n > self.opened || !self.closed[n - 1] { return None; }
                Some(false)
            }
            _ => None,
        }
    }
    fn class_expr(&mut self) -> bool {
        if !self.eat('[') { return false; }
        self.eat('^');
        let mut items = 0usize;
        loop {
            let Some(c) = self.peek() else { return false };
            match c {
                ']' => { if items == 0 { return false; } self.i += 1; return true; }
                '[' => return false,
                '-' => {
                    // subtraction, or a literal hyphen at the beginning or the end of the group
                    if self.s.get(self.i + 1) == Some(&'[') {
                        if items == 0 { return false; }
                        self.i += 1;
                        if !self.class_expr() { return false; }
                        return self.eat(']');
                    }
                    if items == 0 || self.s.get(self.i + 1) == Some(&']') { self.i += 1; items += 1; continue; }
                    // a hyphen elsewhere is only legal as a range operator, which is consumed below
                    return false;
                }
                _ => {}
            }
            // a single char or class escape
            let start_single: Option<char>;
            let single;
            if c == '\\' {
                let save = self.i;
                match self.escape(true) { None => return false, Some(sg) => { single = sg; } }
                start_single = if single { Some(unesc(self.s[save + 1])) } else { None };
            } else { self.i += 1; single = true; start_single = Some(c); }
            items += 1;
            // range?
            if single && self.peek() == Some('-') && self.s.get(self.i + 1) != Some(&'[') && self.s.get(self.i + 1) != Some(&']') {
                self.i += 1;
                let Some(e) = self.peek() else { return false };
                let end;
                if e == '\\' {
                    let save = self.i;
                    match self.escape(true) { Some(true) => { end = unesc(self.s[save + 1]); } _ => return false }
                } else if e == '[' { return false; } else { self.i += 1; end = e; }
                if start_single.unwrap() > end { return false; }
            }
        }
    }
}

fn unesc(c: char) -> char { match c { 'n' => '\n', 'r' => '\r', 't' => '\t', x => x } }
fn known_block(b: &str) -> bool { matches!(b, "BasicLatin" | "Greek" | "Latin-1Supplement" | "Cyrillic" | "Hebrew" | "Arabic" | "LowSurrogates" | "PrivateUse") }

fn reference(p: &str, xpath: bool) -> bool {
    let s: Vec<char> = p.chars().collect();
    let mut ps = P { s: &s, i: 0, xpath, opened: 0, closed: Vec::new() };
    ps.regexp() && ps.i == s.len()
}

#[test]
fn diff_parse() {
    let alpha: Vec<char> = std::env::var("TRIAGE_ALPHA").unwrap_or("ab()[]{}|?*+.\\^$-12,:".to_string()).chars().collect();
    let maxlen: usize = std::env::var("TRIAGE_LEN").ok().and_then(|s| s.parse().ok()).unwrap_or(4);
    let skip = std::env::var("TRIAGE_SKIP").unwrap_or_default();
    let mut idx = vec![0usize; 0];
    let mut total = 0u64; let mut bad = 0u64; let mut shown = 0u64;
    for len in 0..=maxlen {
        idx.clear(); idx.resize(len, 0);
        loop {
            let p: String = idx.iter().map(|&k| alpha[k]).collect();
            for xpath in [true, false] {
                let want = reference(&p, xpath);
                let got = if xpath { Regex::xpath(&p, "").is_ok() } else { Regex::xsd(&p, "").is_ok() };
                total += 1;
                if want != got {
                    bad += 1;
                    let hidden = !skip.is_empty() && skip.split(' ').any(|x| p.contains(x));
                    if !hidden { shown += 1; if shown <= 300 { println!("PARSE {} {:?}: engine {} reference {}", if xpath { "xpath" } else { "xsd" }, p, if got { "accepts" } else { "rejects" }, if want { "accepts" } else { "rejects" }); } }
                }
            }
            // next
            let mut k = len;
            loop { if k == 0 { break; } k -= 1; idx[k] += 1; if idx[k] < alpha.len() { break; } idx[k] = 0; if k == 0 { k = usize::MAX; break; } }
            if len == 0 || k == usize::MAX { break; }
        }
        println!("len {} done: {} compiled, {} differing ({} shown)", len, total, bad, shown);
    }
}
