// Development aid (see README.md): replacement-string expansion ($N, \$ , \\) against the rules of fn:replace.
use regexml::Regex;

// groups: texts of group 0..=n (None = did not participate)
fn expand(r: &[char], groups: &[Option<&str>]) -> Option<String> {
    let n = groups.len() - 1;
    let mut out = String::new();
    let mut i = 0;
    while i < r.len() {
        match r[i] {
            '\\' => { i += 1; match r.get(i) { Some('\\') => out.push('\\'), Some('$') => out.push('$'), _ => return None } i += 1; }
            '$' => {
                i += 1;
                let d = r.get(i)?.to_digit(10)? as usize;
                i += 1;
                let mut g = d;
                if n > 9 {
                    while let Some(x) = r.get(i).and_then(|c| c.to_digit(10)) { if g * 10 + x as usize <= n { g = g * 10 + x as usize; i += 1; } else { break; } }
                }
                if g <= n { if let Some(t) = groups[g] { out.push_str(t); } }
            }
            c => { out.push(c); i += 1; }
        }
    }
    Some(out)
}

#[test]
fn diff_repl() {
    let alpha = ['$', '\\', '0', '1', '2', 'a'];
    let cases: Vec<(&str, &str, Vec<Option<&str>>)> = vec![
        ("b", "xbx", vec![Some("b")]),
        ("(b)(c)?", "xbx", vec![Some("b"), Some("b"), None]),
        ("(b)(c)?", "xbcx", vec![Some("bc"), Some("b"), Some("c")]),
        ("(a)(b)(c)(d)(e)(f)(g)(h)(i)(j)(k)(l)", "xabcdefghijklx", vec![Some("abcdefghijkl"), Some("a"), Some("b"), Some("c"), Some("d"), Some("e"), Some("f"), Some("g"), Some("h"), Some("i"), Some("j"), Some("k"), Some("l")]),
        ("(a)(b)(c)(d)(e)(f)(g)(h)(i)(j)(k)?", "xabcdefghijx", vec![Some("abcdefghij"), Some("a"), Some("b"), Some("c"), Some("d"), Some("e"), Some("f"), Some("g"), Some("h"), Some("i"), Some("j"), None]),
    ];
    let (mut n, mut bad) = (0usize, 0usize);
    for len in 0..=5usize {
        let mut idx = vec![0usize; len];
        loop {
            let r: Vec<char> = idx.iter().map(|&k| alpha[k]).collect();
            let rs: String = r.iter().collect();
            for (p, input, groups) in &cases {
                let re = Regex::xpath(p, "").unwrap();
                let want = expand(&r, groups).map(|e| format!("x{}x", e));
                let got = re.replace_all(input, &rs).ok();
                n += 1;
                if want != got { bad += 1; if bad < 60 { println!("REPL {:?} replacement {:?} on {:?}: engine {:?} reference {:?}", p, rs, input, got, want); } }
                // no match: the replacement is not looked at
                if re.replace_all("zzz", &rs).ok().as_deref() != Some("zzz") && want.is_some() { bad += 1; if bad < 60 { println!("REPL {:?} replacement {:?}: input without match changed", p, rs); } }
            }
            let mut k = len;
            let mut done = len == 0;
            while k > 0 { k -= 1; idx[k] += 1; if idx[k] < alpha.len() { break; } idx[k] = 0; if k == 0 { done = true; } }
            if done { break; }
        }
    }
    println!("replacements compared: {}, differing: {}", n, bad);
}
