// Development aid (see README.md): character class expressions against set algebra, on a sample of characters.
use regexml::Regex;

#[derive(Clone, Debug)]
enum Item { Ch(char), Range(char, char), Esc(&'static str) }
#[derive(Clone, Debug)]
struct Class { neg: bool, items: Vec<Item>, sub: Option<Box<Class>> }

fn esc_has(e: &str, c: char) -> bool {
    match e {
        "\\d" => c.is_ascii_digit() || c == '\u{0663}',
        "\\D" => !esc_has("\\d", c),
        "\\s" => matches!(c, ' ' | '\t' | '\n' | '\r'),
        "\\S" => !esc_has("\\s", c),
        "\\w" => c.is_alphanumeric() || c == '_' && false || matches!(c, '+' | '$' | '^' | '|' | '<' | '=' | '>' | '~' | '`'),
        "\\W" => !esc_has("\\w", c),
        "\\p{Lu}" => c.is_uppercase() && c.is_alphabetic() && c != '\u{01C5}',
        "\\P{Lu}" => !esc_has("\\p{Lu}", c),
        "\\n" => c == '\n',
        "\\-" => c == '-',
        "\\^" => c == '^',
        "\\]" => c == ']',
        "\\[" => c == '[',
        "\\\\" => c == '\\',
        _ => unreachable!(),
    }
}
fn has(cl: &Class, c: char) -> bool {
    let mut m = cl.items.iter().any(|it| match it { Item::Ch(x) => *x == c, Item::Range(a, b) => *a <= c && c <= *b, Item::Esc(e) => esc_has(e, c) });
    if cl.neg { m = !m; }
    if let Some(s) = &cl.sub { if has(s, c) { m = false; } }
    m
}
fn show(cl: &Class, out: &mut String) {
    out.push('[');
    if cl.neg { out.push('^'); }
    for it in &cl.items { match it { Item::Ch(c) => out.push(*c), Item::Range(a, b) => { out.push(*a); out.push('-'); out.push(*b); } Item::Esc(e) => out.push_str(e) } }
    if let Some(s) = &cl.sub { out.push('-'); show(s, out); }
    out.push(']');
}

#[test]
fn diff_class() {
    let singles = [Item::Ch('a'), Item::Ch('c'), Item::Ch('A'), Item::Ch('0'), Item::Ch('_'), Item::Ch(' '), Item::Ch('.'), Item::Ch('$'), Item::Ch('{'), Item::Ch('\u{10400}'),
        Item::Range('a', 'c'), Item::Range('A', 'Z'), Item::Range('0', '9'), Item::Range('a', 'a'), Item::Range(' ', '~'), Item::Range('\u{FF}', '\u{10FFFF}'),
        Item::Esc("\\d"), Item::Esc("\\D"), Item::Esc("\\s"), Item::Esc("\\S"), Item::Esc("\\w"), Item::Esc("\\W"), Item::Esc("\\p{Lu}"), Item::Esc("\\P{Lu}"), Item::Esc("\\n"), Item::Esc("\\-"), Item::Esc("\\^"), Item::Esc("\\]"), Item::Esc("\\["), Item::Esc("\\\\")];
    let sample: Vec<char> = "abcdAZ09_ .$^-[]\\{}\n\t\r~\u{7f}\u{ff}\u{100}\u{0663}\u{10400}\u{10FFFF}\u{2028}".chars().collect();
    let mut classes: Vec<Class> = Vec::new();
    for a in &singles { for neg in [false, true] { classes.push(Class { neg, items: vec![a.clone()], sub: None }); } }
    for a in &singles { for b in &singles { for neg in [false, true] { classes.push(Class { neg, items: vec![a.clone(), b.clone()], sub: None }); } } }
    let base: Vec<Class> = classes.clone();
    // subtraction, one and two levels, from a stride of the base classes
    let mut subs = Vec::new();
    for (i, a) in base.iter().enumerate() { for (j, b) in base.iter().enumerate() { if (i * 31 + j * 17) % 97 == 0 { let mut c = a.clone(); c.sub = Some(Box::new(b.clone())); subs.push(c); } } }
    for (i, a) in subs.clone().iter().enumerate() { if i % 5 == 0 { let mut c = base[(i * 7) % base.len()].clone(); c.sub = Some(Box::new(a.clone())); subs.push(c); } }
    classes.extend(subs);
    let (mut n, mut bad) = (0usize, 0usize);
    for fl in ["", "i"] {
        for cl in &classes {
            let mut p = String::from("^");
            show(cl, &mut p);
            p.push('$');
            let Ok(re) = Regex::xpath(&p, fl) else { if fl.is_empty() { bad += 1; if bad < 60 { println!("CLASS {:?} rejected", p); } } continue };
            if fl == "i" { continue; } // only acceptance is compared under i here
            n += 1;
            for &c in &sample {
                let got = re.is_match(&c.to_string());
                let want = has(cl, c);
                if got != want { bad += 1; if bad < 60 { println!("CLASS {:?} on {:?} (U+{:04X}): engine {} reference {}", p, c, c as u32, got, want); } break; }
            }
        }
    }
    println!("classes compared: {}, differing: {}", n, bad);
}
