#!/bin/bash
# tools/verify_refactoring.sh <dir with patch.diff> : applies the patch to a scratch worktree of /repo (outside /repo and
# /verif) and runs the existing suite; prints "<dir> | suite: <summary>". Behaviour preservation beyond the suite rests on
# the author's argument in notes.md (read before the patch was kept).
set -u
D=$(realpath "$1")
WT=/tmp/wt/vrefac-$$
git -C /repo worktree add -q --detach "$WT" HEAD || exit 2
export CARGO_TARGET_DIR=${VERIFY_TARGET:-/tmp/wt/verify-target} CARGO_NET_OFFLINE=true
cd "$WT"
if patch -p1 -s < "$D/patch.diff" >/dev/null 2>&1; then
  suite=$(cargo nextest run --workspace --no-fail-fast --offline 2>&1 | grep -E "Summary|error:" | head -1)
else
  suite="patch does not apply"
fi
cd /
git -C /repo worktree remove --force "$WT"
echo "$1 | suite: $suite"
