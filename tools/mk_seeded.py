#!/usr/bin/env python3
"""tools/mk_seeded.py : (one-off, kept for provenance) builds /verif/seeded/<id>/ from the seeding agents' output under
/tmp/seedout/<Cnn>/<a|b>[_rebased]/ and the verification log lines of tools/verify_seed.sh."""
import os, re, json, shutil, sys
V = os.path.dirname(os.path.dirname(os.path.abspath(__file__)))
SRC = os.environ.get("SEED_SRC", "/tmp/seedout")
MAP = dict(x.split("=") for x in os.environ.get("SEED_MAP", "a=a,b=b").split(","))  # round 2: a=c,b=d
logs = {}
for f in sys.argv[1:]:
    for l in open(f):
        m = re.match(re.escape(SRC) + r"/(C\d\d)/([ab])(_rebased)? \| base: (.*?) \| with patch: (.*?) \| suite: (.*)$", l.strip())
        if m:
            logs[(m.group(1), m.group(2), bool(m.group(3)))] = (m.group(4).strip(), m.group(5).strip(), m.group(6).strip())

def section(text, pat):
    m = re.search(r"^##+\s*(%s)[^\n]*\n(.*?)(?=^##?\s|\Z)" % pat, text, re.S | re.M)
    return m.group(2).strip() if m else ""

for (prop, ab, reb), (base, withp, suite) in sorted(logs.items()):
    d = os.path.join(SRC, prop, ab + ("_rebased" if reb else ""))
    if (prop, ab, True) in logs and not reb:
        continue  # superseded by the rebased version
    notes = open(os.path.join(d, "notes.md")).read()
    title = notes.splitlines()[0].lstrip("# ").strip()
    needs = section(notes, "What it needs")
    base_ok = base.startswith("test result: ok")
    with_fail = not withp.startswith("test result: ok")  # FAILED, or the first line of a panic backtrace
    suite_ok = re.search(r"(\d+) tests run: \1 pass", suite) is not None
    if not (base_ok and suite_ok):
        status = "rejected"
    elif with_fail:
        status = "verified"
    else:
        status = "neutralised"
    sid = "%s%s" % (prop, MAP[ab])
    out = os.path.join(V, "seeded", sid)
    os.makedirs(out, exist_ok=True)
    shutil.copy(os.path.join(d, "patch.diff"), os.path.join(out, "patch.diff"))
    shutil.copy(os.path.join(d, "demo.rs"), os.path.join(out, "demo.rs"))
    shutil.copy(os.path.join(d, "notes.md"), os.path.join(out, "notes.md"))
    meta = {
        "id": sid,
        "property": prop,
        "title": title,
        "status": status,
        "author": "fresh sub-agent given only the property text and a scratch worktree of /repo at the pinned commit" + ("; patch re-based by hand onto the repaired tree (the fix: commits changed the surrounding lines), same edit" if reb else ""),
        "needs_to_manifest": needs,
        "verified_on": "scratch worktree of /repo HEAD (with all fix: commits) under /tmp, removed afterwards",
        "what_was_run": [
            "tools/verify_seed.sh <dir>: cp demo.rs regexml/tests/demo_seed.rs; cargo test --offline -p regexml --test demo_seed (unchanged tree) -> " + base,
            "patch -p1 < patch.diff; same demo -> " + withp,
            "cargo nextest run --workspace --no-fail-fast --offline (with the patch, demo removed) -> " + suite.strip(),
        ],
    }
    if status == "neutralised":
        meta["note"] = "written against the original tree; after the fix: commits in /repo the edit no longer changes behaviour (demo passes with the patch), kept only as a record and as a must-not-matter input for the checks' detection table"
    json.dump(meta, open(os.path.join(out, "meta.json"), "w"), indent=1)
    print(sid, status)
