#!/usr/bin/env python3
"""tools/rule_keys.py <RULE> [facts_dir] : dev helper - prints the instances a rule generates (key, ok, props)."""
import sys, os, glob
V = os.path.dirname(os.path.dirname(os.path.abspath(__file__)))
sys.path.insert(0, V)
from rxv import context, engine, extract as X
import rxv.rules  # noqa
rid = sys.argv[1]
if len(sys.argv) > 2:
    fd = sys.argv[2]
else:
    fd, _ = X.extract("/repo")
ctx = context.make(fd, "/repo", "quick")
for i in engine.RULES[rid].fn(ctx):
    print(i.key, i.ok, i.props, (i.msg or "")[:100] if not i.ok else "")
