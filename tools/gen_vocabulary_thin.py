#!/usr/bin/env python3
"""tools/gen_vocabulary_thin.py : from /repo's current tree (the reference tree) lists the *thin private accessors*:
module-private methods (a `self` receiver) with a single caller, no branching, and no call into the crate - getters and
setters of one field.  rxv/inline.py splices them into their caller on every tree, the reference tree included, so that
a version of the caller that reads the fields directly (the accessors removed, one RefCell borrow for the whole
function) and the version that goes through them reach the rules as the same code."""
import sys, os, json, collections
V = os.path.dirname(os.path.dirname(os.path.abspath(__file__)))
sys.path.insert(0, V)
from rxv import extract as X
from rxv.facts import strip_lt

fd, _ = X.extract("/repo")
raw = json.load(open(os.path.join(fd, "regexml.main.json")))
callers = collections.defaultdict(set)
for b in raw["bodies"]:
    for blk in b["blocks"]:
        t = blk["term"]
        if t["k"] == "call" and t["func"].get("k") == "const":
            fn = t["func"]["fn"]
            callers[strip_lt(fn.get("res", fn["def"]))].add(strip_lt(b["path"]))
out = []
for b in raw["bodies"]:
    p = strip_lt(b["path"])
    if b["kind"] != "AssocFn" or b.get("vis") in ("pub", "crate") or b["span"]["exp"] or "<" in p or len(b["blocks"]) > 8:
        continue
    if b["argc"] < 1 or not strip_lt(b["locals"][1]["ty"]).lstrip("&").replace("mut ", "").startswith(p.rsplit("::", 1)[0]):
        continue
    if strip_lt(b["locals"][1]["ty"]).startswith("&mut "):
        continue  # a method that changes its receiver is an operation of the type, not a field accessor
    if any(blk["term"]["k"] == "switch" for blk in b["blocks"]):
        continue
    local_call = False
    for blk in b["blocks"]:
        t = blk["term"]
        if t["k"] == "call" and t["func"].get("k") == "const" and t["func"]["fn"].get("res_local", t["func"]["fn"].get("local")):
            local_call = True
    if local_call or len(callers.get(p, ())) != 1:
        continue
    out.append(p)
# getters of the crate's own traits (`fn min(&self) -> usize { self.min }` in `impl RepeatOperation for ..`): they
# are reached through `dyn` in the reference tree (never spliced there); a statically resolved call - a trait default
# method spliced into an impl - reads the field
for b in raw["bodies"]:
    p = strip_lt(b["path"])
    if b["kind"] != "AssocFn" or not p.startswith("<") or b["span"]["exp"] or len(b["blocks"]) > 4 or b["argc"] != 1:
        continue
    tr = b.get("impl_trait") or ""
    if not tr.startswith(("operation::RepeatOperation",)):
        continue
    if any(blk["term"]["k"] == "switch" for blk in b["blocks"]):
        continue
    if any(blk["term"]["k"] == "call" and blk["term"]["func"].get("k") == "const" and blk["term"]["func"]["fn"].get("res_local", blk["term"]["func"]["fn"].get("local")) and not strip_lt(blk["term"]["func"]["fn"].get("res", "")).endswith("as std::clone::Clone>::clone") for blk in b["blocks"]):
        continue
    out.append(p)
json.dump(sorted(out), open(os.path.join(V, "rxv", "vocabulary_thin.json"), "w"), indent=1)
print(sorted(out))
