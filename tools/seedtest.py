#!/usr/bin/env python3
"""tools/seedtest.py <patch.diff>... : applies each patch to a scratch copy of /repo (outside /repo and /verif),
runs every registered check against it and prints which properties raise a VIOLATION."""
import sys, os, subprocess, shutil, tempfile, json
V = os.path.dirname(os.path.dirname(os.path.abspath(__file__)))

def run(patch, props):
    tmp = tempfile.mkdtemp(prefix="rxv-seed-", dir="/tmp")
    dst = os.path.join(tmp, "repo")
    try:
        subprocess.check_call(["rsync", "-a", "--exclude", "target", "--exclude", ".git", "/repo/", dst + "/"])
        r = subprocess.run(["patch", "-p1", "-s", "-i", os.path.abspath(patch)], cwd=dst, stdout=subprocess.PIPE, stderr=subprocess.STDOUT, text=True)
        if r.returncode != 0:
            return {"error": "patch failed: " + r.stdout[-300:]}
        res = {}
        for p in props:
            r = subprocess.run([os.path.join(V, "check"), p, "--repo", dst, "--no-evidence"], stdout=subprocess.PIPE, stderr=subprocess.STDOUT, text=True)
            lines = [l for l in r.stdout.splitlines() if l.startswith("violation:") or l.startswith("   instance:") or l.startswith("NO-VERDICT")]
            res[p] = (r.returncode, lines)
        return res
    finally:
        shutil.rmtree(tmp, ignore_errors=True)

if __name__ == "__main__":
    m = json.load(open(os.path.join(V, "MANIFEST.json")))
    props = [c["property_id"] for c in m["checks"]]
    for patch in sys.argv[1:]:
        if not os.path.exists(patch):
            print(patch, "missing"); continue
        res = run(patch, props)
        if "error" in res:
            print(patch, res["error"]); continue
        fired = {p: l for p, (rc, l) in res.items() if rc == 1}
        nov = [p for p, (rc, l) in res.items() if rc == 2]
        print("%s: fired=%s%s" % (patch, sorted(fired), " NO-VERDICT=%s" % nov if nov else ""))
        for p, l in sorted(fired.items()):
            for x in l[:4]:
                print("     %s %s" % (p, x[:220]))
