#!/usr/bin/env python3
"""tools/gen_required_keys.py : writes rxv/required_keys.json = for every rule, the semantic obligation keys produced on
the reference tree (/repo HEAD, confirmed by reading the listing).  At check time a required key that a rule no longer
produces is itself a violation (`required|<key>`): an obligation that is only generated when some construct is found
must not pass vacuously when the construct is deleted or no longer recognised.  Keys carrying incidental detail
(closure numbers, MIR block numbers, site counts) and the large inventories (which have floors) are not required.
Run by hand after a rule is added or its keys renamed; never run by a check."""
import sys, os, json, re
V = os.path.dirname(os.path.dirname(os.path.abspath(__file__)))
sys.path.insert(0, V)
from rxv import extract as X, context
from rxv.engine import RULES
import rxv.rules  # noqa
SKIP_RULES = {"PANIC-INVENTORY", "TABLE-BLOCKS", "LOOP-VARIANT", "BORROW-SCOPE", "CLASS-RANGE-INCLUSIVE", "API-NONDET", "POSITIVE-CONTROLS", "API-SEND-SYNC"}
INCIDENTAL = re.compile(r"\|row\[|\{closure#\d+\}|\|\d+$|\d+-sites|\d+-call-sites|#\d+$|^floor$|^rule-crashed$")
fd, info = X.extract("/repo")
ctx = context.make(fd, "/repo", "quick")
out = {}
for rid, r in sorted(RULES.items()):
    if rid in SKIP_RULES or r.tier == "thorough":
        continue
    keys = sorted({i.key for i in ctx.rule_result(r)})
    okkeys = {i.key for i in ctx.rule_result(r) if i.ok and not getattr(i, "optional", False)}
    req = [k for k in keys if not INCIDENTAL.search(k) and k in okkeys]
    if req:
        out[rid] = req
json.dump(out, open(os.path.join(V, "rxv", "required_keys.json"), "w"), indent=0, ensure_ascii=False)
print("rules:", len(out), "required keys:", sum(len(v) for v in out.values()))
