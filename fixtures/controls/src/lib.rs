//! Positive (and a few negative) controls for the generic analyses of /verif. Every item marked BAD must be
//! reported by the named analysis on every thorough run; every item marked GOOD must not. Nothing here is run.
#![allow(static_mut_refs, clippy::all, dead_code, unconditional_recursion)]
use std::cell::RefCell;
use std::collections::HashMap;
use std::sync::Mutex;

pub struct Spinner {
    pub pos: usize,
    pub limit: usize,
    pub other: usize,
}

impl Spinner {
    /// BAD (loop variant): the cycle writes nothing the exit condition reads
    pub fn spin(&mut self) -> usize {
        loop {
            if self.pos >= self.limit {
                break;
            }
            self.other += 1;
        }
        self.pos
    }

    /// GOOD (loop variant)
    pub fn advance(&mut self) -> usize {
        while self.pos < self.limit {
            self.pos += 1;
        }
        self.pos
    }
}

pub struct Holder {
    pub cell: RefCell<Vec<u32>>,
}

impl Holder {
    /// BAD (borrow scope): a RefCell guard is alive across a call that borrows the same cell
    pub fn reenter(&self) -> usize {
        let g = self.cell.borrow_mut();
        let n = self.peek();
        drop(g);
        n
    }

    /// GOOD (borrow scope): statement-local guard
    pub fn peek(&self) -> usize {
        self.cell.borrow().len()
    }
}

/// BAD (nondeterminism): iteration order of a hash container
pub fn hash_order(m: &HashMap<u32, u32>) -> Vec<u32> {
    m.keys().copied().collect()
}

/// BAD (nondeterminism): clock
pub fn clock() -> u64 {
    std::time::SystemTime::now().elapsed().unwrap().as_secs()
}

/// BAD (statics): mutable process-wide state
pub static mut COUNTER: u32 = 0;

thread_local! {
    /// BAD (statics): thread-local state
    pub static TL: RefCell<u32> = RefCell::new(0);
}

/// BAD (interior mutability reachable through Vec<Box<_>>)
pub struct Deep {
    pub inner: Vec<Box<Wrapped>>,
}

pub struct Wrapped {
    pub m: Mutex<u32>,
}

/// GOOD (no interior mutability)
pub struct Plain {
    pub v: Vec<Option<String>>,
}

/// BAD (panic site): unguarded index
pub fn unguarded_index(v: &[u32], i: usize) -> u32 {
    v[i]
}

/// GOOD (panic site): guarded index
pub fn guarded_index(v: &[u32], i: usize) -> u32 {
    if i < v.len() {
        v[i]
    } else {
        0
    }
}

/// BAD (panic site): unguarded subtraction
pub fn unguarded_sub(a: usize, b: usize) -> usize {
    a - b
}

/// GOOD (panic site): guarded subtraction
pub fn guarded_sub(a: usize, b: usize) -> usize {
    if a >= b {
        a - b
    } else {
        0
    }
}

/// BAD (panic site): unwrap without a dominating test
pub fn unguarded_unwrap(o: Option<u32>) -> u32 {
    o.unwrap()
}

/// GOOD (panic site): unwrap after is_some
pub fn guarded_unwrap(o: Option<u32>) -> u32 {
    if o.is_some() {
        o.unwrap()
    } else {
        0
    }
}

/// BAD (recursion): unconditional self-recursion
pub fn forever(n: u32) -> u32 {
    forever(n)
}

/// BAD (unsafe): user-written unsafe block
pub fn uses_unsafe(p: *const u32) -> u32 {
    unsafe { *p }
}
