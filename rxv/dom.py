"""Guards that dominate a program point (A2 + A1): every switch edge that every
entry->site path must take, with its condition as a normalised expression."""
from .sym import StaticEnv, show, mk_not
from .table import render


def switch_outcomes(body, bb, senv):
    """For switch block bb: list of (target, atom_expr, outcome) with outcome True/False for booleans,
    ('variant',name) / ('char',c) / ('val',n) / ('other',(..)) otherwise."""
    t = body.blocks[bb]["term"]
    if t["k"] != "switch":
        return []
    v = senv.operand(t["op"])
    neg = False
    if v[0] == "not":
        v = v[1]
        neg = True
    out = []
    if t["ty"] == "bool":
        present = set()
        for val, b2 in t["targets"]:
            o = bool(val)
            present.add(o)
            out.append((b2, v, (not o) if neg else o))
        for o in (True, False):
            if o not in present:
                out.append((t["otherwise"], v, (not o) if neg else o))
        return out
    names = None
    atom = v
    if v[0] == "discr":
        names = dict(v[2])
        atom = ("variant", v[1])
    opts = []
    for val, b2 in t["targets"]:
        if names is not None:
            opts.append((b2, atom, ("variant", names.get(val, val))))
        elif t["ty"] == "char":
            opts.append((b2, atom, ("char", val)))
        else:
            opts.append((b2, atom, ("val", val)))
    ex = tuple(o for _, _, o in opts)
    if names is not None:
        rest = tuple(n for d, n in v[2] if ("variant", n) not in ex)
        if len(rest) == 1:
            opts.append((t["otherwise"], atom, ("variant", rest[0])))
        elif rest:
            opts.append((t["otherwise"], atom, ("variants", rest)))
    else:
        opts.append((t["otherwise"], atom, ("other", ex)))
    return opts


def dominating_guards(body, site_bb, senv=None, _depth=0):
    """[(atom_expr, outcome, switch_bb)] for all switch edges that edge-dominate site_bb.  A test of the variant of a
    local that is assigned in several places (`let c = if flag { Some(x) } else { None }; ... if let Some(x) = c`)
    carries with it what dominates every assignment of that variant (here: flag)."""
    senv = senv or StaticEnv(body)
    res = _dominating_guards(body, site_bb, senv)
    if _depth < 2:
        extra = []
        for atom, o, s in res:
            if atom[0] == "variant" and isinstance(o, tuple) and o[0] == "variant" and isinstance(atom[1], tuple) and atom[1][0] in ("var", "ref") :
                x = atom[1]
                while x[0] == "ref":
                    x = x[1]
                if x[0] != "var":
                    continue
                l = x[1]
                sites = []
                okk = True
                for kind, bi, si in senv.defs.get(l, []):
                    if kind != "stmt":
                        okk = False
                        break
                    rv = body.blocks[bi]["stmts"][si]["rv"]
                    if rv.get("k") == "agg" and rv.get("agg") == "adt" and "variant" in rv:
                        if rv["variant"] == o[1]:
                            sites.append(bi)
                    else:
                        okk = False
                        break
                if not okk or not sites or l in senv.mut_borrowed:
                    continue
                common = None
                for bi in sites:
                    gsx = {(a, repr(oo)): (a, oo, ss) for a, oo, ss in dominating_guards(body, bi, senv, _depth + 1)}
                    common = gsx if common is None else {k: v for k, v in common.items() if k in gsx}
                have = {(a, repr(oo)) for a, oo, _ in res}
                for k, v in (common or {}).items():
                    if k not in have:
                        extra.append(v)
        res = res + extra
    return res


def _dominating_guards(body, site_bb, senv):
    res = []
    for s in range(len(body.blocks)):
        if body.blocks[s]["term"]["k"] != "switch":
            continue
        if s == site_bb or not body.dominates(s, site_bb):
            continue
        outs = switch_outcomes(body, s, senv)
        # group targets: an edge (s,t) may carry several outcomes (e.g. many chars to one arm)
        by_t = {}
        for tgt, atom, o in outs:
            by_t.setdefault(tgt, []).append((atom, o))
        for tgt, lst in by_t.items():
            if body.edge_dominates((s, tgt), site_bb):
                if len(lst) == 1:
                    res.append((lst[0][0], lst[0][1], s))
                else:
                    res.append((lst[0][0], ("oneof", tuple(o for _, o in lst)), s))
    return res


def guard_strings(body, site_bb, senv=None, abbr=()):
    out = set()
    for atom, o, s in dominating_guards(body, site_bb, senv):
        r = render(atom, abbr)
        if o is True:
            out.add(r)
        elif o is False:
            out.add("!" + r)
        else:
            out.add("%s=%s" % (r, fmt_outcome(o)))
    return out


def fmt_outcome(o):
    if isinstance(o, tuple):
        if o[0] == "variant":
            return o[1]
        if o[0] == "char":
            return repr(chr(o[1]))
        if o[0] == "val":
            return str(o[1])
        if o[0] == "oneof":
            return "{" + ",".join(fmt_outcome(x) for x in o[1]) + "}"
        if o[0] == "other":
            return "other"
        if o[0] == "variants":
            return "{" + ",".join(o[1]) + "}"
    return str(o)


def call_sites(body, pred):
    """[(bb, term, resolved_path)] of calls whose resolved callee path satisfies pred."""
    from .facts import callee

    out = []
    for bb, t in body.calls():
        if body.blocks[bb]["cleanup"]:
            continue
        d, r, fn = callee(t)
        if r is not None and pred(r):
            out.append((bb, t, r))
    return out


def aggregates(body, pred):
    """[(bb, si, rv)] of aggregate rvalues satisfying pred(rv)."""
    out = []
    for bi, b in enumerate(body.blocks):
        if b["cleanup"]:
            continue
        for si, st in enumerate(b["stmts"]):
            if st["k"] == "assign" and st["rv"]["k"] == "agg" and pred(st["rv"]):
                out.append((bi, si, st["rv"]))
    return out


def or_guarded(body, site_bb, pred, senv=None, abbr=()):
    """True iff every entry->site path takes at least one switch edge whose (atom string, outcome) satisfies pred.
    Handles guards written as disjunctions (a || b) where no single edge dominates."""
    senv = senv or StaticEnv(body)
    edges = set()
    for s in range(len(body.blocks)):
        if body.blocks[s]["term"]["k"] != "switch" or body.blocks[s]["cleanup"]:
            continue
        for tgt, atom, o in switch_outcomes(body, s, senv):
            if pred(render(atom, abbr), o):
                edges.add((s, tgt))
    if not edges:
        return False
    # an edge only counts if *all* outcomes leading to that target satisfy pred
    for (s, tgt) in list(edges):
        for t2, atom, o in switch_outcomes(body, s, senv):
            if t2 == tgt and not pred(render(atom, abbr), o):
                edges.discard((s, tgt))
    if not edges:
        return False
    r = body.reach_from(0, avoid_edges=edges)
    return site_bb not in r
