"""Analysis context: facts + shared derived structures."""
import os, re
from .facts import Facts, callee, strip_lt
from .engine import Ctx
from .callgraph import CallGraph, API_ROOTS
from . import sym


class RxCtx(Ctx):
    def __init__(self, facts, facts_dir, repo, tier):
        super().__init__(facts, facts_dir, repo, tier)
        self.cg = CallGraph(facts)
        self._touched = set()
        self.extra_evidence = {}
        self._mutators = None
        self.roots = list(API_ROOTS)

    # bodies -----------------------------------------------------------
    def body(self, path):
        b = self.f.body(path)
        if b is not None:
            self._touched.add(path)
        return b

    def analysed_bodies(self):
        return sorted(self._touched)

    def method(self, ty, trait, name):
        """<ty as trait>::name with module-qualified names."""
        return self.body("<%s as %s>::%s" % (ty, trait, name))

    def api_reachable(self):
        return self.cached("api_reach", lambda: self.cg.reachable(self.roots))

    # purity -----------------------------------------------------------
    def mutators(self):
        """Local functions that (transitively) mutate matcher state through the RefCell, or take &mut params."""
        if self._mutators is None:
            direct = set()
            for b in self.f.bodies:
                for _, t in b.calls():
                    d, r, fn = callee(t)
                    if r and ("RefCell" in r and "borrow_mut" in r):
                        direct.add(b.path)
                for i in range(1, b.argc + 1):
                    if strip_lt(b.locals[i]["ty"]).startswith("&mut "):
                        direct.add(b.path)
            # propagate to callers
            changed = True
            mut = set(direct)
            while changed:
                changed = False
                for caller, es in self.cg.edges.items():
                    if caller in mut:
                        continue
                    if any(e in mut for e in es if e in self.cg.local):
                        mut.add(caller)
                        changed = True
            self._mutators = mut
        return self._mutators

    def impure(self, callee_path, term):
        if callee_path in self.cg.local:
            return callee_path in self.mutators()
        # extern: impure iff a &mut argument is passed (checked by the walker) -> False here
        return False

    def walk(self, body, **kw):
        kw.setdefault("impure", self.impure)
        return sym.walk(body, self.f, **kw)

    def senv(self, body):
        return self.cached(("senv", body.path), lambda: sym.StaticEnv(body, self.f))

    def assumptions(self, prop):
        base = [
            "rustc nightly type-checks and lowers the crate as the stable toolchain does; MIR at -Zmir-opt-level=0, dev profile (overflow and bounds asserts present)",
            "dependencies (icu_*, ahash, std) are opaque and assumed correct and total except for the fixed may-panic table",
            "decided clauses are necessary, not sufficient, conditions of the property (DESIGN.md section 5 'Undecided')",
        ]
        return base


def make(facts_dir, repo="/repo", tier="quick", main_json="regexml.main.json"):
    f = Facts(os.path.join(facts_dir, main_json))
    c = RxCtx(f, facts_dir, repo, tier)
    return c
