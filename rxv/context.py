"""Analysis context: facts + shared derived structures."""
import os, json, re
from .facts import Facts, callee, strip_lt
from .engine import Ctx
from .callgraph import CallGraph, API_ROOTS
from . import sym


class RxCtx(Ctx):
    def __init__(self, facts, facts_dir, repo, tier):
        super().__init__(facts, facts_dir, repo, tier)
        self.cg = CallGraph(facts)
        self._touched = set()
        self.extra_evidence = {}
        self._mutators = None
        self.roots = list(API_ROOTS)

    # bodies -----------------------------------------------------------
    def body(self, path):
        b = self.f.body(path)
        if b is not None:
            self._touched.add(path)
        return b

    def analysed_bodies(self):
        return sorted(self._touched)

    def method(self, ty, trait, name):
        """<ty as trait>::name with module-qualified names."""
        return self.body("<%s as %s>::%s" % (ty, trait, name))

    def creator_root(self, path):
        """The function (not a closure) in which the closure `path` comes to be - followed through closures that make
        closures, and through helpers that were inlined (their closures are then made in the caller)."""
        from .facts import strip_lt
        def build():
            made = {}
            for b in self.f.bodies:
                for blk in b.blocks:
                    for st in blk["stmts"]:
                        if st["k"] == "assign" and st["rv"].get("k") == "agg" and st["rv"].get("agg") == "closure":
                            made.setdefault(strip_lt(st["rv"].get("def", "")), set()).add(b.path)
            return made
        made = self.cached(("closure-makers",), build)
        seen = set()
        cur = path
        while "{closure" in cur and cur not in seen:
            seen.add(cur)
            ms = sorted(made.get(cur, ()))
            if not ms:
                return cur.split("::{closure")[0]
            cur = ms[0]
        return cur

    def api_reachable(self):
        return self.cached("api_reach", lambda: self.cg.reachable(self.roots))

    # purity -----------------------------------------------------------
    def mutators(self):
        """Local functions that (transitively) mutate matcher state through the RefCell, or take &mut params."""
        if self._mutators is None:
            direct = set()
            for b in self.f.bodies:
                for _, t in b.calls():
                    d, r, fn = callee(t)
                    if r and ("RefCell" in r and "borrow_mut" in r):
                        direct.add(b.path)
                for i in range(1, b.argc + 1):
                    if i == 1 and b.kind == "Closure":
                        # the environment of an FnMut closure is passed as `&mut {closure}`: it mutates something
                        # only if it captured something mutably
                        ups = b.raw.get("upvars") or []
                        if "&mut " not in strip_lt(json.dumps(ups)):
                            continue
                    if strip_lt(b.locals[i]["ty"]).startswith("&mut "):
                        direct.add(b.path)
            # propagate to callers
            changed = True
            mut = set(direct)
            while changed:
                changed = False
                for caller, es in self.cg.edges.items():
                    if caller in mut:
                        continue
                    if any(e in mut for e in es if e in self.cg.local):
                        mut.add(caller)
                        changed = True
            self._mutators = mut
        return self._mutators

    def modset(self, path, argi):
        """First-level field names of the object behind `&mut` parameter argi (1-based) that the local function
        `path` may write (transitively); None = unknown (anything)."""
        ms = self.cached("modsets", self._compute_modsets)
        return ms.get((path, argi))

    def _compute_modsets(self):
        from .sym import StaticEnv
        ALL = None
        res = {}
        info = {}
        for b in self.f.bodies:
            if b.kind == "Closure":
                continue
            for i in range(1, b.argc + 1):
                if not strip_lt(b.locals[i]["ty"]).startswith("&mut "):
                    continue
                direct = set()
                calls = []
                unknown = False
                se = StaticEnv(b, self.f)
                # locals that hold (a reborrow of) the parameter
                alias = {i}
                changed = True
                while changed:
                    changed = False
                    for blk in b.blocks:
                        for st in blk["stmts"]:
                            if st["k"] != "assign" or st["place"]["p"]:
                                continue
                            rv = st["rv"]
                            src = None
                            if rv["k"] == "ref" and rv["place"]["p"] == ["deref"] and rv["place"]["l"] in alias:
                                src = rv["place"]["l"]
                            elif rv["k"] == "use" and rv["op"]["k"] in ("copy", "move") and not rv["op"]["place"]["p"] and rv["op"]["place"]["l"] in alias:
                                src = rv["op"]["place"]["l"]
                            if src is not None and st["place"]["l"] not in alias:
                                alias.add(st["place"]["l"])
                                changed = True
                fieldrefs = {}  # local -> field name (a &mut to one field)
                for blk in b.blocks:
                    for st in blk["stmts"]:
                        if st["k"] != "assign":
                            continue
                        pl = st["place"]
                        if pl["p"] and pl["p"][0] == "deref" and pl["l"] in alias:
                            f = next((e["f"] for e in pl["p"][1:] if isinstance(e, dict) and "f" in e), None)
                            if f is None:
                                unknown = True
                            else:
                                direct.add(f)
                        rv = st["rv"]
                        if rv["k"] in ("ref", "rawptr") and rv.get("mut") and rv["place"]["p"] and rv["place"]["p"][0] == "deref" and rv["place"]["l"] in alias and len(rv["place"]["p"]) > 1:
                            f = next((e["f"] for e in rv["place"]["p"][1:] if isinstance(e, dict) and "f" in e), None)
                            if f is None:
                                unknown = True
                            elif not pl["p"]:
                                fieldrefs[pl["l"]] = f
                            else:
                                direct.add(f)
                for blk in b.blocks:
                    t = blk["term"]
                    if t["k"] != "call":
                        continue
                    d, r, fn = callee(t)
                    for j, a in enumerate(t["args"]):
                        if a["k"] not in ("copy", "move") or a["place"]["p"]:
                            continue
                        l = a["place"]["l"]
                        if l in fieldrefs:
                            direct.add(fieldrefs[l])
                        elif l in alias and strip_lt(b.locals[l]["ty"]).startswith("&mut "):
                            if r is not None and r in self.cg.local:
                                calls.append((r, j + 1))
                            else:
                                unknown = True
                info[(b.path, i)] = (direct, calls, unknown)
        # fixpoint
        for k, (direct, calls, unknown) in info.items():
            res[k] = ALL if unknown else set(direct)
        changed = True
        while changed:
            changed = False
            for k, (direct, calls, unknown) in info.items():
                if res[k] is ALL:
                    continue
                cur = set(res[k])
                for c in calls:
                    m = res.get(c, ALL) if c in info else ALL
                    if m is ALL:
                        cur = ALL
                        break
                    cur |= m
                if cur is ALL or cur != res[k]:
                    res[k] = cur
                    changed = True
        return res

    def impure(self, callee_path, term):
        if callee_path in self.cg.local:
            return callee_path in self.mutators()
        # extern: impure iff a &mut argument is passed (checked by the walker) -> False here
        return False

    def walk(self, body, **kw):
        kw.setdefault("impure", self.impure)
        kw.setdefault("modset", self.modset)
        return sym.walk(body, self.f, **kw)

    def senv(self, body):
        return self.cached(("senv", body.path), lambda: sym.StaticEnv(body, self.f))

    def assumptions(self, prop):
        base = [
            "rustc nightly type-checks and lowers the crate as the stable toolchain does; MIR at -Zmir-opt-level=0, dev profile (overflow and bounds asserts present)",
            "dependencies (icu_*, ahash, std) are opaque and assumed correct and total except for the fixed may-panic table",
            "decided clauses are necessary, not sufficient, conditions of the property (DESIGN.md section 5 'Undecided')",
        ]
        extra = {
            "C05": [
                "input and pattern lengths are below isize::MAX/4 (lengths and in-range positions never overflow by themselves)",
                "POSITION-RANGE: every position handed to matches_iter is at most len(search); it is not a blanket assumption but rests on checked obligations - SEARCH-COVER range|* and bol|at-0 (scan loops), PRECOND-CHECK fixed|position-within-input and floating|range-bounds (preconditions), REPLACE-SCAN/TOKEN-TABLE/ANALYZE-TABLE (API scans), the leaf tables (a leaf yields at most len) - and on every operator passing on only its own position or one a child iterator yielded; arithmetic on the position parameter itself is inventoried and audited against this invariant",
                "audited sites (rxv/rules/panic_audit.json) are safe for the reason written next to each; a site whose shape changes leaves the audit and is reported",
            ],
            "C06": ["termination is argued per loop (LOOP-VARIANT), per recursion cycle (RECURSION-SCC) and from the bounds of the repeat operators (REPEAT-ITER, RELUCTANT-REPEAT); complexity (exponential backtracking) is not bounded"],
            "C03": ["what a group inside a repetition reports when it did not take part in the last iteration is not decided (the engine mixes keep and reset, the property text allows both readings); only captures of groups on the selected path are claimed"],
            "C19": ["same reading of 'participation' as for C03"],
        }
        return base + extra.get(prop, [])


def make(facts_dir, repo="/repo", tier="quick", main_json="regexml.main.json"):
    f = Facts(os.path.join(facts_dir, main_json))
    c = RxCtx(f, facts_dir, repo, tier)
    return c
