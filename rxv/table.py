"""Decision-table comparison (A5): paths of a loop-free body/region versus a
spec written over named atoms.  A path that does not test an atom the spec
outcome depends on is a violation; extra tests are ignored."""
import itertools
from .sym import show
from .engine import ok, bad, missing


import re as _re

_EPOCH = _re.compile(r"@\d+")


def render(e, abbr=()):
    if isinstance(e, tuple) and e and e[0] == "raw":
        return e[1]
    s = show(e) if isinstance(e, tuple) else str(e)
    s = _EPOCH.sub("", s)
    for name, txt in abbr:
        s = s.replace(txt, name)
    return s


def outcome_str(o):
    if o is True:
        return "T"
    if o is False:
        return "F"
    return str(o)


def check_table(rule_key, body, paths, atoms, spec, outcome, abbr=(), skip=None, loc=None):
    """atoms: {name: canonical string}; spec(valuation dict name->bool) -> expected outcome (str) or None (don't care).
    outcome(path) -> str.  Yields Inst."""
    res = []
    inv = {}
    for n, s in atoms.items():
        for alt in (s if isinstance(s, (list, tuple)) else [s]):
            inv[alt] = n
    seen_atoms = set()
    rows = 0
    for p in paths:
        if skip and skip(p):
            continue
        known = {}
        for a, o in p.guards:
            s = render(a, abbr)
            if s in inv and o in (True, False):
                known[inv[s]] = o
                seen_atoms.add(inv[s])
            elif s in inv:
                known[inv[s]] = o
                seen_atoms.add(inv[s])
        free = [n for n in atoms if n not in known]
        outs = {}
        for vals in itertools.product([False, True], repeat=len(free)):
            v = dict(known)
            v.update(zip(free, vals))
            e = spec(v)
            if e is None:
                continue
            outs.setdefault(e, dict(v))
        got = outcome(p)
        rows += 1
        guard_txt = " ∧ ".join(("" if o is True else "!" if o is False else "") + render(a, abbr) + ("" if o in (True, False) else "=" + str(o)) for a, o in p.guards)
        key = "%s|row[%s]" % (rule_key, " ∧ ".join("%s=%s" % (n, outcome_str(known[n])) for n in sorted(known)))
        if len(outs) > 1:
            dep = sorted(n for n in free if any(outs[a].get(n) != outs[b].get(n) for a in outs for b in outs))
            res.append(bad(key + "|untested", "%s: path [%s] yields %s without testing %s, on which the prescribed outcome depends (%s)" % (body.path, guard_txt, got, "/".join(dep), " vs ".join(sorted(outs))), loc or body.loc(p.blocks[-1] if p.blocks else None)))
        elif len(outs) == 1:
            exp = next(iter(outs))
            if exp != got:
                res.append(bad(key + "|outcome", "%s: path [%s] yields %s, the property prescribes %s" % (body.path, guard_txt, got, exp), loc or body.loc(p.blocks[-1] if p.blocks else None)))
            else:
                res.append(ok(key))
        else:
            res.append(ok(key + "|dontcare"))
    for n in atoms:
        if n not in seen_atoms:
            res.append(bad("%s|atom-untested|%s" % (rule_key, n), "%s: no path tests the condition %s = %s that the prescribed behaviour depends on" % (body.path, n, atoms[n]), loc or body.loc()))
    return res


_VER = _re.compile("\u2032(\\d*)")


def summarize(p, abbr=()):
    """(guard strings, outcome string) of a path; `x'N` versions are renumbered by order of appearance."""
    gs = []
    last = {}
    for i, (a, o) in enumerate(p.guards):
        if isinstance(o, tuple) and o[0] in ("variant", "variants"):
            last[a] = i
    for i, (a, o) in enumerate(p.guards):
        if isinstance(o, tuple) and o[0] in ("variant", "variants") and last.get(a) != i:
            continue
        s = render(a, abbr)
        if o is True:
            gs.append(s)
        elif o is False:
            gs.append("!" + s)
        elif isinstance(o, tuple) and o[0] in ("variant", "val"):
            gs.append("%s=%s" % (s, o[1]))
        elif isinstance(o, tuple) and o[0] == "char":
            gs.append("%s='%s'" % (s, chr(o[1])))
        elif isinstance(o, tuple) and o[0] == "variants":
            gs.append("%s∈{%s}" % (s, ",".join(o[1])))
        elif isinstance(o, tuple) and o[0] == "other":
            gs.append("%s=other" % s)
        else:
            gs.append("%s=%s" % (s, o))
    r = render(p.ret, abbr) if (p.end == "return" and p.ret is not None) else "<%s>" % p.end.split(":")[0]
    order = []
    for s in gs + [r]:
        for m in _VER.finditer(s):
            if m.group(1) not in order:
                order.append(m.group(1))
    if order:
        def rn(m):
            return "\u2032" * (order.index(m.group(1)) + 1)
        gs = [_VER.sub(rn, s) for s in gs]
        r = _VER.sub(rn, r)
    return gs, r


def strip_ver(s):
    return _VER.sub("", s)
