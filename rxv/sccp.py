"""Conditional constant propagation under assumptions (A4).

assume_calls: {resolved callee path (lifetime-stripped) or short name: expr}
assume_args:  {arg index: expr}
Result: executable blocks and edges of one body."""
from .facts import callee, strip_lt
from .sym import Evaluator, short, const, TRUE, FALSE

TOP = ("top",)


def is_const(v):
    if not isinstance(v, tuple):
        return False
    if v[0] in ("const", "enumc", "fn", "named", "zst"):
        return True
    if v[0] == "agg":
        return all(is_const(x) for x in v[4])
    if v[0] == "tuple":
        return all(is_const(x) for x in v[1])
    return False


def has_top(v):
    if v == TOP:
        return True
    if isinstance(v, tuple):
        for x in v[1:]:
            if isinstance(x, tuple):
                if x and isinstance(x[0], str):
                    if has_top(x):
                        return True
                else:
                    for y in x:
                        if isinstance(y, tuple) and has_top(y):
                            return True
    return False


class SCCP:
    def __init__(self, body, facts=None, assume_calls=None, assume_args=None):
        self.body = body
        self.ev = Evaluator(body, facts)
        self.assume_calls = assume_calls or {}
        self.assume_args = assume_args or {}
        self.exec_blocks = set()
        self.exec_edges = set()
        self.in_env = {}
        self.run()

    def _join(self, a, b):
        out = {}
        for k in set(a) | set(b):
            va = a.get(k)
            vb = b.get(k)
            if va is None:
                out[k] = vb
            elif vb is None:
                out[k] = va
            elif va == vb:
                out[k] = va
            else:
                out[k] = TOP
        return out

    def run(self):
        body = self.body
        env0 = {}
        for i in range(1, body.argc + 1):
            env0[i] = self.assume_args.get(i, TOP)
        self.in_env[0] = env0
        work = [0]
        while work:
            bb = work.pop()
            self.exec_blocks.add(bb)
            env = dict(self.in_env[bb])

            def get(l, env=env):
                v = env.get(l)
                return TOP if v is None else v

            blk = body.blocks[bb]
            for st in blk["stmts"]:
                if st["k"] == "assign":
                    v = self.ev.rvalue(st["rv"], get)
                    if has_top(v) and not is_const(v):
                        # keep partially-known aggregates (e.g. Result::Err{..}) but mark unknown scalars
                        if v[0] not in ("agg", "enumc", "tuple"):
                            v = TOP
                    if not st["place"]["p"]:
                        env[st["place"]["l"]] = v
                    else:
                        l = st["place"]["l"]
                        if st["place"]["p"][0] != "deref":
                            env[l] = TOP
            t = blk["term"]
            k = t["k"]
            succ = []
            if k == "goto":
                succ = [t["t"]]
            elif k == "switch":
                v = self.ev.operand(t["op"], get)
                cv = None
                if v[0] == "const" and v[1] in ("int", "bool", "char"):
                    cv = int(v[2])
                if cv is not None:
                    for val, b2 in t["targets"]:
                        if val == cv:
                            succ = [b2]
                            break
                    else:
                        succ = [t["otherwise"]]
                else:
                    succ = body.succs(bb)
            elif k == "call":
                d, r, fn = callee(t)
                val = TOP
                if r is not None:
                    a = self.assume_calls.get(r)
                    if a is None:
                        a = self.assume_calls.get(short(r))
                    if a is not None:
                        val = a
                    else:
                        v, _ = self.ev.call(t, get)
                        if is_const(v):
                            val = v
                if not t["dest"]["p"]:
                    env[t["dest"]["l"]] = val
                if t["t"] is not None:
                    succ = [t["t"]]
            elif k in ("drop", "assert"):
                succ = [t["t"]]
            for s in succ:
                self.exec_edges.add((bb, s))
                old = self.in_env.get(s)
                new = env if old is None else self._join(old, env)
                if old is None or new != old:
                    self.in_env[s] = new
                    work.append(s)

    def executable(self, bb):
        return bb in self.exec_blocks

    def value_at_end(self, bb, local):
        """Abstract value of a local at the entry of block bb."""
        return self.in_env.get(bb, {}).get(local, TOP)
