"""Developer tool: pretty-print MIR facts of one body.  python3 -m rxv.dump <facts.json> <path-substring>"""
import sys
from .facts import Facts, strip_lt, callee


def place(p, body):
    s = body.local_name(p["l"]) if p["l"] > body.argc or p["l"] == 0 else "a%d" % p["l"]
    if p["l"] == 0:
        s = "ret"
    for e in p["p"]:
        if e == "deref":
            s = "(*%s)" % s
        elif isinstance(e, dict) and "f" in e:
            s += "." + e["f"]
        elif isinstance(e, dict) and "idx" in e:
            s += "[%s]" % body.local_name(e["idx"])
        elif isinstance(e, dict) and "downcast" in e:
            s += " as " + e["downcast"]
        else:
            s += "{%s}" % (e,)
    return s


def operand(o, body):
    k = o["k"]
    if k in ("copy", "move"):
        return ("" if k == "copy" else "move ") + place(o["place"], body)
    if k == "const":
        if "fn" in o:
            return "fn:" + strip_lt(o["fn"].get("res_inst", o["fn"]["inst"]))
        for key in ("int", "bool", "str"):
            if key in o:
                return "const %r" % (o[key],)
        if "char" in o:
            return "const %r" % chr(o["char"])
        if "uneval" in o:
            return "const<%s%s>" % (o["uneval"], "[p%d]" % o["promoted"] if "promoted" in o else "")
        return "const<%s>" % strip_lt(o["ty"])
    return "?"


def rvalue(rv, body):
    k = rv["k"]
    if k == "use":
        return operand(rv["op"], body)
    if k == "ref":
        return ("&mut " if rv["mut"] else "&") + place(rv["place"], body)
    if k == "bin":
        return "%s(%s, %s)" % (rv["op"], operand(rv["a"], body), operand(rv["b"], body))
    if k == "un":
        return "%s(%s)" % (rv["op"], operand(rv["a"], body))
    if k == "cast":
        return "%s as %s [%s]" % (operand(rv["op"], body), strip_lt(rv["ty"]), rv["kind"])
    if k == "discr":
        return "discr(%s)" % place(rv["place"], body)
    if k == "agg":
        fs = ", ".join(operand(f, body) for f in rv["fields"])
        if rv["agg"] == "adt":
            return "%s::%s{%s}" % (rv["adt"], rv["variant"], fs)
        return "%s(%s)" % (rv["agg"] + (":" + rv.get("def", "") if rv["agg"] == "closure" else ""), fs)
    if k == "rawptr":
        return "&raw " + place(rv["place"], body)
    if k == "repeat":
        return "[%s; %s]" % (operand(rv["op"], body), rv["count"])
    return k


def dump(body, out=sys.stdout):
    w = out.write
    w("fn %s  [%s] argc=%d %s\n" % (body.path, body.kind, body.argc, body.loc()))
    for i, l in enumerate(body.locals):
        w("   let %s%s: %s\n" % ("_%d" % i, " (%s)" % l["name"] if l.get("name") else "", strip_lt(l["ty"])))
    for i, b in enumerate(body.blocks):
        if b["cleanup"]:
            continue
        w(" bb%d:\n" % i)
        for st in b["stmts"]:
            if st["k"] == "assign":
                w("    %s = %s   // L%s\n" % (place(st["place"], body), rvalue(st["rv"], body), st.get("line")))
            elif st["k"] == "setdiscr":
                w("    discr(%s) = %s\n" % (place(st["place"], body), st["v"]))
        t = b["term"]
        k = t["k"]
        if k == "goto":
            w("    goto bb%d\n" % t["t"])
        elif k == "switch":
            w("    switch %s [%s, else bb%d]  // L%s\n" % (operand(t["op"], body), ", ".join("%s->bb%d" % (v, b2) for v, b2 in t["targets"]), t["otherwise"], t.get("line")))
        elif k == "call":
            w("    %s = %s(%s) -> bb%s  // L%s\n" % (place(t["dest"], body), operand(t["func"], body), ", ".join(operand(a, body) for a in t["args"]), t["t"], t.get("line")))
        elif k == "assert":
            w("    assert(%s == %s, %s(%s)) -> bb%s  // L%s\n" % (operand(t["cond"], body), t["expected"], t["kind"], ", ".join(operand(a, body) for a in t["ops"]), t["t"], t.get("line")))
        elif k == "drop":
            w("    drop(%s) -> bb%s\n" % (place(t["place"], body), t["t"]))
        else:
            w("    %s\n" % k)
    for p in body.promoted:
        dump(p, out)


if __name__ == "__main__":
    f = Facts(sys.argv[1])
    for b in f.bodies:
        if sys.argv[2] in b.path:
            dump(b)
