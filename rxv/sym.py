"""Normalised symbolic expressions over MIR facts (toolbox A1) and the
path-sensitive walker (A5).

Expressions are hashable tuples.  Conditions are opaque atoms compared by
syntactic identity after normalisation; no solver, no arithmetic reasoning.
"""
import re
from .facts import strip_lt, callee

# ------------------------------------------------------------------ short names

_GEN = re.compile(r"::<[^<>]*(?:<[^<>]*(?:<[^<>]*>[^<>]*)*>[^<>]*)*>")


def strip_generics(p):
    prev = None
    while prev != p:
        prev = p
        p = _GEN.sub("", p)
    return p


def _short_simple(p):
    segs = p.split("::")
    for i, s in enumerate(segs):
        if s[:1].isupper() or s.startswith("{") or s.startswith("<"):
            return "::".join(segs[i:])
    return segs[-1]


def short(path):
    """re_flags::ReFlags::is_multi_line -> ReFlags::is_multi_line ;
    <op_bol::Bol as operation::OperationControl>::matches_iter -> <Bol as OperationControl>::matches_iter"""
    if path is None:
        return None
    p = strip_generics(strip_lt(path))
    m = re.match(r"^<(.+) as (.+?)>::(.+)$", p)
    if m:
        a = m.group(1)
        a2 = _short_ty(a)
        return "<%s as %s>::%s" % (a2, _short_simple(m.group(2)), m.group(3))
    m = re.match(r"^<(.+)>::(.+)$", p)
    if m:
        return "<%s>::%s" % (_short_ty(m.group(1)), m.group(2))
    return _short_simple(p)


def _short_ty(t):
    # shorten every path inside a type string
    return re.sub(r"[A-Za-z_][A-Za-z_0-9]*(?:::[A-Za-z_][A-Za-z_0-9]*)+", lambda m: _short_simple(m.group(0)), t)


short_ty = _short_ty

SHORT2FULL = {}

# ------------------------------------------------------------------ constructors


def const(kind, v):
    return ("const", kind, v)


TRUE = const("bool", True)
FALSE = const("bool", False)
UNIT = const("unit", None)


def mk_not(x):
    if x[0] == "not":
        return x[1]
    if x == TRUE:
        return FALSE
    if x == FALSE:
        return TRUE
    return ("not", x)


def _key(x):
    return repr(x)


def mk_eq(a, b):
    if a[0] == "const" and b[0] == "const" and a[1] == b[1] and a[1] in ("int", "char", "bool", "str"):
        return TRUE if a[2] == b[2] else FALSE
    if a[0] == "enumc" and b[0] == "enumc":
        return TRUE if a == b else FALSE
    if a[0] in ("agg", "enumc", "tuple") and b[0] in ("agg", "enumc", "tuple") and is_ground(a) and is_ground(b):
        return TRUE if a == b else FALSE
    # Option == Option with both variants known: Some(x) == Some(y) is x == y (through references), Some == None is false
    def _opt(v):
        if v[0] == "agg" and v[1] == "std::option::Option" and v[2] == "Some" and len(v[4]) == 1:
            return ("Some", v[4][0])
        if v[0] == "enumc" and v[1] == "std::option::Option" and v[2] == "None":
            return ("None", None)
        return None
    oa, ob = _opt(a), _opt(b)
    if oa and ob:
        if oa[0] != ob[0]:
            return FALSE
        if oa[0] == "None":
            return TRUE
        x, y = oa[1], ob[1]
        while x[0] == "ref":
            x = x[1]
        while y[0] == "ref":
            y = y[1]
        return mk_eq(x, y)
    if _key(a) > _key(b):
        a, b = b, a
    # x == true -> x ; x == false -> !x
    if a == TRUE:
        return b
    if b == TRUE:
        return a
    if a == FALSE:
        return mk_not(b)
    if b == FALSE:
        return mk_not(a)
    return ("eq", a, b)


def is_ground(v):
    if not isinstance(v, tuple):
        return False
    if v[0] == "const":
        return v[1] in ("int", "char", "bool", "str", "unit")
    if v[0] == "enumc":
        return True
    if v[0] == "agg":
        return all(is_ground(x) for x in v[4])
    if v[0] == "tuple":
        return all(is_ground(x) for x in v[1])
    return False


def substitute(e, m):
    """Replace sub-expressions by the mapping m and re-normalise."""
    if not m or not isinstance(e, tuple):
        return e
    if e in m:
        return m[e]
    k = e[0]
    if k in ("const", "arg", "enumc", "named", "fn", "uninit", "var", "argvar", "zst", "local", "mut"):
        return e
    if k == "not":
        return mk_not(substitute(e[1], m))
    if k == "eq":
        return mk_eq(substitute(e[1], m), substitute(e[2], m))
    if k == "lt":
        return mk_lt(substitute(e[1], m), substitute(e[2], m))
    if k in ("add", "mul", "bitand", "bitor", "bitxor"):
        return mk_comm(k, substitute(e[1], m), substitute(e[2], m))
    if k == "sub":
        return mk_bin("Sub", substitute(e[1], m), substitute(e[2], m))
    if k == "agg":
        return ("agg", e[1], e[2], e[3], tuple(substitute(x, m) for x in e[4]))
    if k == "tuple":
        return ("tuple", tuple(substitute(x, m) for x in e[1]))
    if k == "call":
        return (e[0], e[1], tuple(substitute(x, m) for x in e[2])) + tuple(e[3:])
    if k == "is":
        return mk_is(substitute(e[1], m), e[2])
    if k in ("field", "downcast", "cast"):
        if k == "cast":
            return (k, e[1], substitute(e[2], m))
        return (k, substitute(e[1], m), e[2])
    if k in ("index",):
        return (k, substitute(e[1], m), substitute(e[2], m))
    if k in ("len", "neg", "try", "propagate", "chk", "ovf"):
        return (k, substitute(e[1], m))
    if k == "discr":
        inner = substitute(e[1], m)
        if inner[0] in ("agg", "enumc"):
            for d, nme in e[2]:
                if nme == inner[2]:
                    return const("int", d)
        return (k, inner, e[2])
    if k == "conv":
        return (k, e[1], substitute(e[2], m))
    return e


def mk_len(x):
    if x[0] == "vec":
        return const("int", len(x[1]))
    return ("len", x)


def mk_is(x, variant):
    if x[0] in ("enumc", "agg"):
        return TRUE if x[2] == variant else FALSE
    return ("is", x, variant)


def mk_lt(a, b):
    if a[0] == "const" and b[0] == "const" and a[1] == b[1] == "int":
        return TRUE if a[2] < b[2] else FALSE
    return ("lt", a, b)


def mk_comm(op, a, b):
    if a[0] == "const" and b[0] == "const" and a[1] == b[1] == "int":
        if op == "add":
            return const("int", a[2] + b[2])
        if op == "mul":
            return const("int", a[2] * b[2])
        if op == "bitand":
            return const("int", a[2] & b[2])
        if op == "bitor":
            return const("int", a[2] | b[2])
    if op == "add":
        # (c1 + x) + c2 -> (c1+c2) + x
        for x, y in ((a, b), (b, a)):
            if x[0] == "const" and x[1] == "int" and y[0] == "add" and y[1][0] == "const" and y[1][1] == "int":
                return mk_comm("add", const("int", x[2] + y[1][2]), y[2])
        if a[0] == "const" and a[1] == "int" and a[2] == 0:
            return b
        if b[0] == "const" and b[1] == "int" and b[2] == 0:
            return a
    if _key(a) > _key(b):
        a, b = b, a
    return (op, a, b)


def mk_bin(op, a, b):
    op = op.replace("WithOverflow", "").replace("Unchecked", "")
    if op == "Eq":
        return mk_eq(a, b)
    if op == "Ne":
        return mk_not(mk_eq(a, b))
    if op == "Lt":
        return mk_lt(a, b)
    if op == "Gt":
        return mk_lt(b, a)
    if op == "Le":
        return mk_not(mk_lt(b, a))
    if op == "Ge":
        return mk_not(mk_lt(a, b))
    if op == "Add":
        return mk_comm("add", a, b)
    if op == "Mul":
        return mk_comm("mul", a, b)
    if op == "BitAnd":
        return mk_comm("bitand", a, b)
    if op == "BitOr":
        return mk_comm("bitor", a, b)
    if op == "BitXor":
        return mk_comm("bitxor", a, b)
    if op == "Sub":
        if a[0] == "const" and b[0] == "const" and a[1] == b[1] == "int":
            return const("int", a[2] - b[2])
        # (c + x) - c2 -> (c - c2) + x   when c >= c2
        if b[0] == "const" and b[1] == "int" and a[0] == "add" and a[1][0] == "const" and a[1][1] == "int" and a[1][2] >= b[2]:
            return mk_comm("add", const("int", a[1][2] - b[2]), a[2])
        if b[0] == "const" and b[1] == "int" and b[2] == 0:
            return a
        return ("sub", a, b)
    return (op.lower(), a, b)


# ------------------------------------------------------------------ call normalisation

_ERASE = [
    r"^std::cell::RefCell::<.*>::borrow(_mut)?$",  # the cell is transparent for values (double borrows: BORROW-SCOPE)
    r"^<.* as std::ops::Deref>::deref$",
    r"^<.* as std::ops::DerefMut>::deref_mut$",
    r"^<.* as std::convert::AsRef<.*>>::as_ref$",
    r"^<.* as std::borrow::Borrow<.*>>::borrow$",
    r"^std::boxed::Box::<.*>::new$",
    r"^<.* as std::clone::Clone>::clone$",
    r"^<.* as std::convert::From<.*>>::from$",
    r"^<.* as std::convert::Into<.*>>::into$",
    r"^<.* as std::iter::IntoIterator>::into_iter$",
    r"^<std::vec::IntoIter<(.*)> as std::iter::Iterator>::collect::<std::vec::Vec<\1>>$",  # v.into_iter().collect::<Vec<_>>() is v
    r"^std::vec::Vec::<.*>::as_slice$",
    r"^(?:std|core|alloc)::slice::<impl \[.*\]>::to_vec$",
    r"^(?:std|core)::slice::<impl \[.*\]>::iter$",
    r"^std::option::Option::<.*>::as_ref$",
    r"^std::option::Option::<.*>::as_mut$",
    r"^std::option::Option::<.*>::copied$",
    r"^std::option::Option::<.*>::cloned$",
]
_ERASE = [re.compile(x) for x in _ERASE]
_LEN = re.compile(r"^((?:std|alloc)::vec::Vec::<.*>::len|(?:std|core)::slice::<impl \[.*\]>::len|(?:std|alloc)::string::String::len|(?:std|core)::str::<impl str>::len)$")
_IS_EMPTY = re.compile(r"^((?:std|alloc)::vec::Vec::<.*>::is_empty|(?:std|core)::slice::<impl \[.*\]>::is_empty|(?:std|alloc)::string::String::is_empty|(?:std|core)::str::<impl str>::is_empty)$")
_INDEX = re.compile(r"^<.* as std::ops::Index(Mut)?<.*>>::index(_mut)?$")
_PEQ = re.compile(r"^<.* as std::cmp::PartialEq(<.*>)?>::(eq|ne)$")
_PORD = re.compile(r"^<.* as std::cmp::PartialOrd(<.*>)?>::(lt|le|gt|ge)$")
_IS_SOME = re.compile(r"^std::option::Option::<.*>::(is_some|is_none)$")
_IS_OK = re.compile(r"^std::result::Result::<.*>::(is_ok|is_err)$")
_SAT = re.compile(r"^(?:core|std)::num::<impl (?:usize|u32|u64|isize|i32|i64)>::(?:saturating|wrapping)_(add|mul|sub)$")
_SLICE_GET = re.compile(r"^(core|std)::slice::<impl \[.*\]>::get$")
_TRY_BRANCH = re.compile(r"^<std::(option::Option|result::Result)<.*> as std::ops::Try>::branch$")
_FROM_RESIDUAL = re.compile(r"^<std::(option::Option|result::Result)<.*> as std::ops::FromResidual<.*>>::from_residual$")


def is_from_into_identity(fn):
    """From/Into are erased only when source and target type are equal or
    when converting a local builder/enum wrapper (we keep them as calls otherwise)."""
    return False


def norm_call(res_inst, res, args, fn=None):
    """Return a normalised expression for a call, or None to keep it a call."""
    p = res_inst
    for rx in _ERASE:
        if rx.match(p):
            if "convert::From" in p or "convert::Into" in p:
                # keep conversions between distinct types visible
                return ("conv", short(res), args[0]) if fn is not None and not _same_ty_conv(fn) else args[0]
            return args[0]
    if _LEN.match(p):
        return mk_len(args[0])
    if _IS_EMPTY.match(p):
        return mk_eq(mk_len(args[0]), const("int", 0))
    if _INDEX.match(p):
        return ("index", args[0], args[1])
    m = _PEQ.match(p)
    if m:
        e = mk_eq(args[0], args[1])
        return e if m.group(2) == "eq" else mk_not(e)
    m = _PORD.match(p)
    if m:
        o = m.group(2)
        a, b = args[0], args[1]
        if o == "lt":
            return mk_lt(a, b)
        if o == "gt":
            return mk_lt(b, a)
        if o == "le":
            return mk_not(mk_lt(b, a))
        return mk_not(mk_lt(a, b))
    m = _IS_SOME.match(p)
    if m:
        e = mk_is(args[0], "Some")
        return e if m.group(1) == "is_some" else mk_not(e)
    m = _IS_OK.match(p)
    if m:
        e = ("is", args[0], "Ok")
        return e if m.group(1) == "is_ok" else mk_not(e)
    if len(args) == 1 and args[0][0] == "const" and args[0][1] == "char" and (p.startswith("core::char::methods::<impl char>::") or p.startswith("std::char::methods::<impl char>::") or p.startswith("char::methods::<impl char>::")):
        from .charpred import pred_on

        v = pred_on(p.split("::")[-1], args[0][2])
        if v is not None:
            return TRUE if v else FALSE
    m = _SAT.match(p)
    if m and len(args) == 2:
        op = m.group(1)
        if op in ("add", "mul"):
            return mk_comm(op, args[0], args[1])
        return ("satsub", args[0], args[1])
    if p.startswith("std::option::Option::<") and p.split("::")[-1].split("<")[0] in ("copied", "cloned", "flatten") and len(args) == 1:
        m_ = p.split("::")[-1].split("<")[0]
        a0 = args[0]
        if a0[0] == "enumc" and a0[2] == "None":
            return a0
        if a0[0] == "agg" and a0[2] == "Some" and len(a0[4]) == 1:
            inner = a0[4][0]
            if m_ == "flatten":
                # (copied/cloned are erased earlier, so the payload may still carry the reference)
                return inner[1] if inner[0] == "ref" else inner
            if inner[0] == "ref":
                return ("agg", a0[1], "Some", a0[3], (inner[1],))
    if p.startswith("std::option::Option::<") and p.split("::")[-1].split("<")[0] == "unwrap_or" and len(args) == 2:
        # unwrap_or of a known variant
        if args[0][0] == "agg" and args[0][2] == "Some" and len(args[0][4]) == 1:
            return args[0][4][0]
        if args[0][0] == "enumc" and args[0][2] == "None":
            return args[1]
        if args[0][0] == "var":
            # a value the flow-insensitive view does not know (several definitions), with a default: still not known
            return args[0]
    if _TRY_BRANCH.match(p):
        # `x?` on an Option is a match on x: Continue(v) is Some(v), Break is None (see Evaluator for the renaming)
        if p.startswith("<std::option::Option<"):
            return ("tryopt", args[0])
        return ("try", args[0])
    if _FROM_RESIDUAL.match(p):
        if p.startswith("<std::option::Option<"):
            return ("enumc", "std::option::Option", "None")
        if args[0][0] == "agg" and args[0][2] == "Err":
            return args[0]  # the error built on this very path is the error returned
        return ("propagate", args[0])
    return None


def _same_ty_conv(fn):
    ta = fn.get("targs") or []
    if len(ta) >= 2:
        return strip_lt(ta[0]) == strip_lt(ta[1])
    return False


def rust_unescape(s):
    out = []
    i = 0
    while i < len(s):
        c = s[i]
        if c == "\\" and i + 1 < len(s):
            n = s[i + 1]
            if n == "n":
                out.append("\n"); i += 2; continue
            if n == "t":
                out.append("\t"); i += 2; continue
            if n == "r":
                out.append("\r"); i += 2; continue
            if n == "0":
                out.append("\0"); i += 2; continue
            if n in "\\\"'":
                out.append(n); i += 2; continue
            if n == "u" and i + 2 < len(s) and s[i + 2] == "{":
                j = s.index("}", i)
                out.append(chr(int(s[i + 3:j], 16))); i = j + 1; continue
            if n == "x":
                out.append(chr(int(s[i + 2:i + 4], 16))); i += 4; continue
        out.append(c)
        i += 1
    return "".join(out)


# ------------------------------------------------------------------ evaluation


def _outer(e):
    """An expression of the function that creates a closure, as seen from inside the closure: its arguments and
    unknowns are marked (shown with ^) so that they are not taken for the closure's own."""
    if not isinstance(e, tuple):
        return e
    if e and e[0] == "arg":
        return ("outerarg", e[1])
    if e and e[0] in ("var", "argvar", "local", "uninit"):
        return ("outervar", e[0], e[1])
    return tuple(_outer(x) if isinstance(x, tuple) else x for x in e)


_CAPTURES = {}


class Evaluator:
    """Evaluates operands/rvalues to expressions given a local-lookup function."""

    def __init__(self, body, facts=None):
        self.body = body
        self.facts = facts

    def _capture(self, i):
        """The value a closure captured in slot i: the operand the creating function put there (the capture order
        is an accident of which variables the closure body mentions first)."""
        key = (id(self.facts), self.body.path)
        if key not in _CAPTURES:
            _CAPTURES[key] = None
            path = self.body.path
            if "::{closure#" in path:
                parent = self.facts.body(path.rsplit("::{closure#", 1)[0])
                if parent is not None:
                    sites = [st["rv"] for blk in parent.blocks if not blk["cleanup"] for st in blk["stmts"] if st["k"] == "assign" and st["rv"].get("k") == "agg" and st["rv"].get("agg") == "closure" and strip_lt(st["rv"]["def"]) == path]
                    if len(sites) == 1:
                        se = StaticEnv(parent, self.facts)
                        try:
                            _CAPTURES[key] = [_outer(se.operand(op)) for op in sites[0]["fields"]]
                        except Exception:
                            _CAPTURES[key] = None
        caps = _CAPTURES[key]
        if caps is None or i >= len(caps):
            return None
        return caps[i]

    def const_op(self, o):
        if "fn" in o:
            f = o["fn"]
            return ("fn", strip_lt(f.get("res", f["def"])), strip_lt(f.get("res_inst", f["inst"])))
        if "bool" in o:
            return const("bool", o["bool"])
        if "char" in o:
            return const("char", o["char"])
        if "int" in o:
            if "uneval" in o:
                return ("const", "int", o["int"])
            return const("int", o["int"])
        if "str" in o:
            return const("str", o["str"])
        if "tyconst" in o:
            tc = o["tyconst"]
            if tc.startswith('"') and tc.endswith('"'):
                return const("str", rust_unescape(tc[1:-1]))
            if tc.startswith("'") and tc.endswith("'"):
                u = rust_unescape(tc[1:-1])
                if len(u) == 1:
                    return const("char", ord(u))
            try:
                return const("int", int(tc.split("_")[0]))
            except ValueError:
                pass
            if tc in ("true", "false"):
                return const("bool", tc == "true")
            return ("tyconst", tc)
        if "uneval" in o:
            if "promoted" in o:
                return self.promoted_value(o["promoted"])
            return ("named", strip_lt(o["uneval"]))
        if "static" in o:
            return ("static", strip_lt(o["static"]))
        if o.get("zst"):
            ty = strip_lt(o["ty"])
            if ty == "()":
                return UNIT
            return ("zst", ty)
        return ("constof", strip_lt(o["ty"]))

    def promoted_value(self, idx):
        b = self.body if self.body.parent is None else self.body.parent
        if idx >= len(b.promoted):
            return ("promoted", idx)
        pb = b.promoted[idx]
        se = StaticEnv(pb, self.facts)
        return se.local_value(0)

    def place(self, p, get):
        v = get(p["l"])
        return self.project(v, p["p"], getattr(get, "heap", None), get)

    def project(self, v, projs, heap=None, get=None):
        self._get = get
        # the heap maps *places* to stored values; it is consulted only when memory is read through a
        # projection (a value already loaded into a local keeps the value it had when it was loaded)
        for i, e in enumerate(projs):
            if heap and i > 0:
                hv = heap.get(v)
                if hv is not None:
                    v = hv
            v = self._project1(v, e)
        if heap and projs:
            hv = heap.get(v)
            if hv is not None:
                v = hv
        # a field of a local aggregate read through a reference and never stored to since the aggregate was built:
        # the value the aggregate was built with
        if heap is not None and isinstance(v, tuple) and v[0] == "field" and isinstance(v[1], tuple) and v[1][0] == "localobj" and get is not None:
            base = get(v[1][1])
            if isinstance(base, tuple) and base[0] == "agg" and v[2] in base[3]:
                v = base[4][base[3].index(v[2])]
        return v

    def _project1(self, v, e):
        for e in (e,):
            if e == "deref":
                if v[0] == "ref":
                    v = v[1]
                continue
            if isinstance(e, dict):
                if "f" in e:
                    name = e["f"]
                    adt = e.get("adt", "")
                    # Box<T> internals: (*b) is reached through .0.pointer; erase them
                    if "boxed::Box" in adt or "ptr::Unique" in adt or "ptr::NonNull" in adt or "ptr::non_null::NonNull" in adt or "ptr::unique::Unique" in adt:
                        continue
                    # checked arithmetic: (x, overflow).0 -> x
                    if v[0] == "chk":
                        v = v[1] if e["i"] == 0 else ("ovf", v[1])
                        continue
                    if v[0] == "tuple" and e["i"] < len(v[1]):
                        v = v[1][e["i"]]
                        continue
                    if v[0] == "closure" and e["i"] < len(v[2]):
                        v = v[2][e["i"]]
                        continue
                    if v[0] == "agg" and name in v[3]:
                        v = v[4][v[3].index(name)]
                        continue
                    if v[0] == "downcast" and v[1][0] == "try" and v[1][1][0] == "agg" and e["i"] == 0:
                        # `?` applied to a Result whose variant is known on this path (e.g. built by an inlined helper)
                        a = v[1][1]
                        if v[2] == "Continue" and a[2] == "Ok" and len(a[4]) == 1:
                            v = a[4][0]
                            continue
                        if v[2] == "Break" and a[2] == "Err":
                            v = a
                            continue
                    if v[0] == "downcast" and v[1][0] == "try" and v[1][1][0] == "propagate" and v[2] == "Break" and e["i"] == 0:
                        v = v[1][1]
                        continue
                    if v[0] == "downcast" and v[1][0] == "agg" and v[1][2] == v[2]:
                        a = v[1]
                        if e["i"] < len(a[4]):
                            v = a[4][e["i"]]
                            continue
                    if v == ("arg", 1) and adt == "" and getattr(self.body, "kind", None) == "Closure" and self.facts is not None:
                        cv = self._capture(e["i"])
                        if cv is not None:
                            v = cv
                            continue
                    v = ("field", v, name)
                    continue
                if "idx" in e:
                    g = getattr(self, "_get", None)
                    v = ("index", v, g(e["idx"]) if g else ("local", e["idx"]))
                    continue
                if "cidx" in e:
                    v = ("index", v, const("int", e["cidx"]))
                    continue
                if "downcast" in e:
                    if v[0] == "tryopt":
                        v = ("downcast", v[1], "Some") if e["downcast"] == "Continue" else ("enumc", "std::option::Option", "None")
                        continue
                    v = ("downcast", v, e["downcast"])
                    continue
            v = ("proj", v, str(e))
        return v

    def operand(self, o, get):
        k = o["k"]
        if k in ("copy", "move"):
            return self.place(o["place"], get)
        if k == "const":
            return self.const_op(o)
        return ("unknown", "operand")

    def rvalue(self, rv, get):
        k = rv["k"]
        if k == "use":
            return self.operand(rv["op"], get)
        if k == "ref" or k == "rawptr":
            return self.place(rv["place"], get)
        if k == "bin":
            a = self.operand(rv["a"], get)
            b = self.operand(rv["b"], get)
            e = mk_bin(rv["op"], a, b)
            if "WithOverflow" in rv["op"]:
                return ("chk", e)
            return e
        if k == "un":
            a = self.operand(rv["a"], get)
            if rv["op"] == "Not":
                return mk_not(a)
            if rv["op"] == "Neg":
                if a[0] == "const" and a[1] == "int":
                    return const("int", -a[2])
                return ("neg", a)
            if rv["op"] == "PtrMetadata":
                return mk_len(a)
            return (rv["op"].lower(), a)
        if k == "cast":
            a = self.operand(rv["op"], get)
            kind = rv["kind"]
            if kind.startswith("ptr:") or kind in ("PtrToPtr", "Transmute", "Subtype"):
                return a
            if kind == "IntToInt":
                if a[0] == "const" and a[1] in ("int", "char"):
                    return const("int", a[2])
                return ("cast", short_ty(strip_lt(rv["ty"])), a)
            return ("cast", short_ty(strip_lt(rv["ty"])), a)
        if k == "discr":
            v = self.place(rv["place"], get)
            if v[0] in ("agg", "enumc"):
                for d, nme in rv.get("variants") or []:
                    if nme == v[2]:
                        return const("int", d)
                return ("variantof", v[2])
            if v[0] == "try" and v[1][0] == "agg" and v[1][2] in ("Ok", "Err"):
                want = "Continue" if v[1][2] == "Ok" else "Break"
                for d, nme in rv.get("variants") or []:
                    if nme == want:
                        return const("int", d)
            if v[0] == "try" and v[1][0] == "propagate":
                # `?` applied to an error that an (inlined) callee already propagated: it breaks again
                for d, nme in rv.get("variants") or []:
                    if nme == "Break":
                        return const("int", d)
            if v[0] == "tryopt" and v[1][0] in ("agg", "enumc") and v[1][1] == "std::option::Option" and v[1][2] in ("Some", "None"):
                # `?` on an Option whose variant is known on this path (an inlined helper's `Some(..)` / `None`)
                want = "Continue" if v[1][2] == "Some" else "Break"
                for d, nme in rv.get("variants") or []:
                    if nme == want:
                        return const("int", d)
            if v[0] == "tryopt":
                ren = {"Continue": "Some", "Break": "None"}
                return ("discr", v[1], tuple((d, ren.get(n, n)) for d, n in (rv.get("variants") or [])))
            return ("discr", v, tuple((d, n) for d, n in (rv.get("variants") or [])))
        if k == "agg":
            fs = tuple(self.operand(f, get) for f in rv["fields"])
            if rv["agg"] == "adt":
                if not fs:
                    return ("enumc", strip_lt(rv["adt"]), rv["variant"])
                return ("agg", strip_lt(rv["adt"]), rv["variant"], tuple(rv["fnames"]), fs)
            if rv["agg"] == "tuple":
                return ("tuple", fs)
            if rv["agg"] == "closure":
                return ("closure", strip_lt(rv["def"]), fs)
            return ("aggother", rv["agg"], fs)
        if k == "repeat":
            return ("repeat", self.operand(rv["op"], get), rv["count"])
        return ("unknown", k)

    def call(self, t, get, epoch=0, impure=None):
        d, r, fn = callee(t)
        args = tuple(self.operand(a, get) for a in t["args"])
        if d is None:
            f = self.operand(t["func"], get)
            return ("callv", f, args, epoch), None
        res_inst = strip_lt(fn.get("res_inst", fn["inst"]))
        n = norm_call(strip_lt(fn["inst"]), r, args, fn)
        if n is None:
            n = norm_call(res_inst, r, args, fn)
        if n is not None:
            return n, r
        SHORT2FULL[short(r)] = r
        if impure is not None and not impure(r, t):
            return ("call", short(r), args), r
        return ("call", short(r), args, epoch), r


class StaticEnv:
    """Flow-insensitive resolution: a local with exactly one definition in the
    non-cleanup blocks is replaced by its defining expression (A1)."""

    def __init__(self, body, facts=None):
        self.body = body
        self.ev = Evaluator(body, facts)
        self.defs = {}
        for bi, b in enumerate(body.blocks):
            if b["cleanup"]:
                continue
            for si, st in enumerate(b["stmts"]):
                if st["k"] == "assign" and not st["place"]["p"]:
                    self.defs.setdefault(st["place"]["l"], []).append(("stmt", bi, si))
                elif st["k"] == "assign":
                    # a partial write (field of a local): the local is not single-def
                    l = st["place"]["l"]
                    if not (st["place"]["p"] and st["place"]["p"][0] == "deref"):
                        self.defs.setdefault(l, []).append(("partial", bi, si))
            t = b["term"]
            if t["k"] == "call" and not t["dest"]["p"]:
                self.defs.setdefault(t["dest"]["l"], []).append(("call", bi, None))
        # locals whose address is taken mutably are not resolvable
        self.mut_borrowed = set()
        for b in body.blocks:
            if b["cleanup"]:
                continue
            for st in b["stmts"]:
                if st["k"] == "assign" and st["rv"]["k"] == "ref" and st["rv"]["mut"] and not st["rv"]["place"]["p"]:
                    self.mut_borrowed.add(st["rv"]["place"]["l"])
        self._cache = {}
        self._busy = set()

    def local_value(self, l):
        if l in self._cache:
            return self._cache[l]
        body = self.body
        if 1 <= l <= body.argc and body.parent is None and l not in self.defs:
            v = ("arg", l)
        else:
            ds = self.defs.get(l, [])
            if len(ds) == 1 and l not in self._busy and ds[0][0] != "partial" and (l not in self.mut_borrowed or ds[0][0] == "call"):
                self._busy.add(l)
                kind, bi, si = ds[0]
                if kind == "stmt":
                    v = self.ev.rvalue(body.blocks[bi]["stmts"][si]["rv"], self.local_value)
                else:
                    v, _ = self.ev.call(body.blocks[bi]["term"], self.local_value)
                self._busy.discard(l)
            elif 1 <= l <= body.argc and body.parent is None:
                v = ("argvar", l)
            else:
                v = ("var", l)
        self._cache[l] = v
        return v

    def operand(self, o):
        return self.ev.operand(o, self.local_value)

    def place(self, p):
        return self.ev.place(p, self.local_value)

    def call_expr(self, bb):
        v, _ = self.ev.call(self.body.blocks[bb]["term"], self.local_value)
        return v

    def switch_expr(self, bb):
        return self.operand(self.body.blocks[bb]["term"]["op"])


# ------------------------------------------------------------------ pretty printer


def show(e):
    if not isinstance(e, tuple):
        return str(e)
    k = e[0]
    if k == "arg":
        return "a%d" % e[1]
    if k == "outerarg":
        return "^a%d" % e[1]
    if k == "outervar":
        return "^v"
    if k == "argvar":
        return "a%d" % e[1]
    if k == "mut":
        return show(e[1]) + "\u2032" + (str(e[2]) if e[2] > 1 else "")
    if k == "var":
        return "v%d" % e[1]
    if k == "local":
        return "l%d" % e[1]
    if k == "const":
        if e[1] == "char":
            return "'%s'" % (chr(e[2]) if 32 < e[2] < 127 else "\\u{%X}" % e[2])
        if e[1] == "str":
            return '"%s"' % e[2]
        if e[1] == "unit":
            return "()"
        if e[1] == "int" and e[2] == 18446744073709551615:
            return "MAX"
        return str(e[2]).lower() if e[1] == "bool" else str(e[2])
    if k == "named":
        return short(e[1])
    if k == "static":
        return "static " + short(e[1])
    if k == "fn":
        return "fn " + short(e[1])
    if k == "field":
        return "%s.%s" % (show(e[1]), e[2])
    if k == "index":
        return "%s[%s]" % (show(e[1]), show(e[2]))
    if k == "downcast":
        return "%s as %s" % (show(e[1]), e[2])
    if k == "not":
        return "!" + show(e[1])
    if k in ("eq", "lt", "add", "sub", "mul", "bitand", "bitor", "bitxor", "div", "rem", "shl", "shr"):
        return "%s(%s, %s)" % (k, show(e[1]), show(e[2]))
    if k == "len":
        return "len(%s)" % show(e[1])
    if k == "neg":
        return "neg(%s)" % show(e[1])
    if k == "is":
        return "is%s(%s)" % (e[2], show(e[1]))
    if k == "call":
        s = "%s(%s)" % (e[1], ", ".join(show(a) for a in e[2]))
        if len(e) > 3 and e[3]:
            s += "@%d" % e[3]
        return s
    if k == "callv":
        return "callv %s(%s)" % (show(e[1]), ", ".join(show(a) for a in e[2]))
    if k == "conv":
        return "conv<%s>(%s)" % (e[1], show(e[2]))
    if k == "cast":
        return "(%s as %s)" % (show(e[2]), e[1])
    if k == "discr":
        return "discr(%s)" % show(e[1])
    if k == "variantof":
        return "variant:%s" % e[1]
    if k == "enumc":
        return "%s::%s" % (short(e[1]), e[2])
    if k == "agg":
        return "%s::%s{%s}" % (short(e[1]), e[2], ", ".join("%s: %s" % (n, show(v)) for n, v in zip(e[3], e[4])))
    if k == "tuple":
        return "(%s)" % ", ".join(show(x) for x in e[1])
    if k == "closure":
        return "closure %s[%s]" % (short(e[1]), ", ".join(show(x) for x in e[2]))
    if k == "chk":
        return "chk(%s)" % show(e[1])
    if k == "ovf":
        return "ovf(%s)" % show(e[1])
    if k == "repeat":
        return "[%s; %s]" % (show(e[1]), e[2])
    if k == "aggother":
        return "%s[%s]" % (e[1], ", ".join(show(x) for x in e[2]))
    if k == "vec":
        return "vec![%s]" % ", ".join(show(x) for x in e[1])
    if k == "try":
        return "try(%s)" % show(e[1])
    if k == "propagate":
        return "propagate(%s)" % show(e[1])
    if k == "zst":
        return "zst<%s>" % short_ty(e[1])
    if k == "sel":
        return "sel%d(%s)" % (e[2], show(e[1]))
    return "%s(%s)" % (k, ", ".join(show(x) if isinstance(x, tuple) else str(x) for x in e[1:]))


def subexprs(e):
    """All sub-expressions (pre-order)."""
    yield e
    if isinstance(e, tuple):
        for x in e[1:]:
            if isinstance(x, tuple):
                if x and isinstance(x[0], str):
                    yield from subexprs(x)
                else:
                    for y in x:
                        if isinstance(y, tuple):
                            yield from subexprs(y)


def mentions(e, pred):
    return any(pred(x) for x in subexprs(e))


# ------------------------------------------------------------------ path walker (A5)


class Path:
    __slots__ = ("guards", "effects", "ret", "end", "blocks", "env", "heap", "skip")

    def __init__(self):
        self.guards = []  # (atom_expr, outcome) ; outcome True/False or ('val', n) or ('variant', name) or ('other', excluded)
        self.effects = []  # ('call', short_path, args, bb) | ('store', place_expr, value, bb) | ('assert', kind, ops, bb)
        self.ret = None
        self.end = None
        self.blocks = []

    def guard_map(self):
        return {show(a): o for a, o in self.guards}

    def calls(self, name=None):
        return [e for e in self.effects if e[0] == "call" and (name is None or e[1] == name or e[1].endswith(name))]

    def describe(self):
        g = " ∧ ".join(("%s" if o is True else "!%s" if o is False else "%s=" + str(o)) % show(a) if o in (True, False) else "%s=%s" % (show(a), o) for a, o in self.guards)
        return "[%s] => %s (%s)" % (g, show(self.ret) if self.ret is not None else "-", self.end)


class _AnyField:
    def __contains__(self, x):
        return True


_ANY = _AnyField()


def _address_of_arg_field(v):
    """`&arg.f.g` / `&mut arg.f.g`: a reference to a field path of an argument denotes the same place whatever is
    written to it (the value behind it is read through the heap, not through this expression)."""
    if not isinstance(v, tuple) or v[0] != "ref":
        return False
    x = v[1]
    n = 0
    while isinstance(x, tuple) and x[0] == "field":
        x = x[1]
        n += 1
    return n > 0 and isinstance(x, tuple) and x[0] == "arg"


def _inline_field_path(v, facts):
    """arg.f.g...: only field steps, and every field of that name in the crate is stored inline (no reference, box or
    raw pointer that could be re-seated)."""
    names = []
    x = v
    while isinstance(x, tuple) and x[0] == "field":
        names.append(x[2])
        x = x[1]
    if not names or not (isinstance(x, tuple) and x[0] == "arg"):
        return False
    ptr = getattr(facts, "_ptr_fields", None)
    if ptr is None:
        ptr = set()
        for a in facts.raw.get("adts", []):
            for vr in a.get("variants", []):
                for f in vr.get("fields", []):
                    ty = strip_lt(f.get("ty", ""))
                    if ty.startswith(("&", "*", "std::boxed::Box", "std::rc::", "std::sync::Arc")):
                        ptr.add(f["name"])
        facts._ptr_fields = ptr
    return not any(n in ptr for n in names)


def _stable_expr(v, frozen, depth=0):
    """An expression over the arguments that cannot change during the function: fields that are never written after
    construction, their lengths, constants, and +/- of those."""
    if not isinstance(v, tuple) or depth > 8:
        return False
    k = v[0]
    if k == "arg":
        return True
    if k == "const":
        return True
    if k in ("ref", "deref") and len(v) >= 2:
        return _stable_expr(v[1], frozen, depth + 1)
    if k == "field":
        return v[2] in frozen and _stable_expr(v[1], frozen, depth + 1)
    if k == "len":
        return _stable_expr(v[1], frozen, depth + 1)
    if k in ("add", "sub", "mul", "satsub"):
        return all(_stable_expr(x, frozen, depth + 1) for x in v[1:])
    if k == "agg" and len(v) == 5:
        return all(_stable_expr(x, frozen, depth + 1) for x in v[4])  # Some(pos), (a, b), a struct literal of stable parts
    if k == "tuple":
        return all(_stable_expr(x, frozen, depth + 1) for x in v[1])
    if k == "enumc":
        return True
    if k == "cast" and len(v) == 3:
        return _stable_expr(v[2], frozen, depth + 1)
    return False


def _stable_arg(v):
    while isinstance(v, tuple) and v and v[0] in ("ref", "deref") and len(v) >= 2:
        v = v[1]
    return isinstance(v, tuple) and len(v) == 2 and v[0] == "arg"


class Walker:
    """Enumerates acyclic paths of a body (or of a region starting at start_bb
    and ending when a block of stop_blocks is reached)."""

    def __init__(self, body, facts=None, impure=None, oracle=None, max_paths=20000, stop_blocks=(), init_env=None, max_visits=1):
        self.body = body
        self.facts = facts
        self.ev = Evaluator(body, facts)
        self.impure = impure
        self.oracle = oracle
        self.max_paths = max_paths
        self.stop_blocks = set(stop_blocks)
        self.paths = []
        self.truncated = False
        self.init_env = init_env or {}
        self.max_visits = max_visits
        self.assume = {}
        self.modset = None
        self.on_term = None  # callback(bb, term, getter, path) before a terminator is executed
        self.split_bool_returns = True

    def run(self, start_bb=0):
        self._run(start_bb)
        self.paths_split = list(self.paths)  # boolean results spelled out as true / false per path (decision tables)
        if self.split_bool_returns and start_bb == 0:
            self.paths = fold_bool_paths(self.paths)
        return self.paths

    def _stable_in_region(self, v, l, se, start_bb):
        """A local defined once before a loop by an expression over fields of the arguments keeps that value during
        the loop when nothing in the loop can write those fields: no store to a field of that name, and every call
        that receives a `&mut` argument has a known mod-set that avoids them."""
        loops = self.body.natural_loops()
        region = loops.get(start_bb)
        if region is None:
            return False
        ds = se.defs.get(l, [])
        if len(ds) != 1 or ds[0][1] in region:
            return False
        if not _stable_expr(v, _ANY):
            return False
        used = {x[2] for x in subexprs(v) if x[0] == "field"}
        if not used:
            return False
        for bi in region:
            blk = self.body.blocks[bi]
            for st in blk["stmts"]:
                if st["k"] == "assign":
                    for e in st["place"]["p"]:
                        if isinstance(e, dict) and e.get("f") in used:
                            return False
                    rv = st["rv"]
                    if rv.get("k") in ("ref", "rawptr") and rv.get("mut"):
                        for e in rv["place"]["p"]:
                            if isinstance(e, dict) and e.get("f") in used:
                                return False
            t = blk["term"]
            if t["k"] == "call":
                d_, rr_, fn_ = callee(t)
                for ai, a in enumerate(t.get("args", [])):
                    if a.get("k") in ("copy", "move") and not a["place"]["p"] and strip_lt(self.body.locals[a["place"]["l"]]["ty"]).startswith("&mut "):
                        # `&mut it` of a local that itself holds no mutable access to anything (an iterator over
                        # shared references): whatever the callee writes, it is that local
                        cur_, inert = a["place"]["l"], False
                        for _ in range(4):
                            dd = se.defs.get(cur_, [])
                            if len(dd) != 1 or dd[0][0] != "stmt":
                                break
                            rv_ = self.body.blocks[dd[0][1]]["stmts"][dd[0][2]]["rv"]
                            if rv_.get("k") == "ref" and rv_["place"]["p"] == ["deref"]:
                                cur_ = rv_["place"]["l"]  # a reborrow `&mut *r`
                                continue
                            if rv_.get("k") == "ref" and not rv_["place"]["p"]:
                                lty = strip_lt(self.body.locals[rv_["place"]["l"]]["ty"])
                                inert = "&mut" not in lty and "Cell" not in lty and "*mut" not in lty and rv_["place"]["l"] > self.body.argc
                            break
                        if inert:
                            continue
                        ms = self.modset(rr_, ai + 1) if (self.modset is not None and rr_ is not None) else None
                        if ms is None or (set(ms) & used):
                            return False
        return True

    def _run(self, start_bb=0):
        env = {}
        for i in range(1, self.body.argc + 1):
            env[i] = ("arg", i)
        if start_bb != 0:
            # a region analysed from its first block with unknown locals: locals that are plain copies of an
            # argument (or of a reference to one) everywhere - e.g. the parameters of an inlined helper - keep
            # that value instead of being unknown
            se = StaticEnv(self.body, self.facts)
            for l in range(self.body.argc + 1, len(self.body.locals)):
                if len(se.defs.get(l, [])) == 1:
                    try:
                        v = se.local_value(l)
                    except Exception:
                        continue
                    if _stable_arg(v) or (self.facts is not None and _stable_expr(v, self.facts.frozen_fields())) or _address_of_arg_field(v):
                        env[l] = v
                    elif strip_lt(self.body.locals[l]["ty"]).startswith("&") and self.facts is not None and _inline_field_path(v, self.facts):
                        # a reference to a field path that goes through no pointer: the same place whatever is stored
                        # in it (its contents are read through the heap)
                        env[l] = v
                    elif self._stable_in_region(v, l, se, start_bb):
                        env[l] = v
        env.update(self.init_env)
        if start_bb != 0:
            # a value chosen before the loop by a test of something that does not change (`let c = if flag { Some(x) }
            # else { None };`): the turn is analysed once per side of that test, with the test as a guard
            for atom, cases in self._phi_splits(se, start_bb, env):
                for outcome, vals in cases:
                    env2 = dict(env)
                    env2.update(vals)
                    st = {"env": env2, "heap": {}, "known": {atom: outcome}, "epoch": 0, "subst": {}}
                    p = Path()
                    p.guards.append((atom, outcome))
                    self._go(start_bb, st, p, {})
                return self.paths
        st = {"env": env, "heap": {}, "known": {}, "epoch": 0, "subst": {}}
        p = Path()
        self._go(start_bb, st, p, {})
        return self.paths

    def _phi_splits(self, se, start_bb, env):
        from .dom import dominating_guards
        region = self.body.natural_loops().get(start_bb)
        if region is None or self.facts is None:
            return []
        by_atom = {}
        for l in range(self.body.argc + 1, len(self.body.locals)):
            ds = se.defs.get(l, [])
            if l in env or len(ds) != 2 or any(k != "stmt" or bi in region for k, bi, si in ds) or l in se.mut_borrowed:
                continue
            if not self.body.locals[l].get("user"):
                continue
            gsets = []
            for k, bi, si in ds:
                gsets.append({(a, o): s for a, o, s in dominating_guards(self.body, bi, se) if o in (True, False)})
            found = None
            for (a, o), s in gsets[0].items():
                if (a, not o) in gsets[1] and self._unchanging_test(se, s):
                    found = (a, o)
                    break
            if found is None:
                continue
            a, o = found
            try:
                v0 = se.ev.rvalue(self.body.blocks[ds[0][1]]["stmts"][ds[0][2]]["rv"], se.local_value)
                v1 = se.ev.rvalue(self.body.blocks[ds[1][1]]["stmts"][ds[1][2]]["rv"], se.local_value)
            except Exception:
                continue
            by_atom.setdefault(a, {True: {}, False: {}})
            by_atom[a][o][l] = v0
            by_atom[a][not o][l] = v1
        out = []
        for a, sides in by_atom.items():
            out.append((a, [(True, sides[True]), (False, sides[False])]))
            break  # one test is enough for the idiom; several independent ones would multiply the cases
        return out

    def _unchanging_test(self, se, switch_bb):
        """the switch tests the result of a call to a function of the crate that writes nothing, on a frozen field of
        an argument (a flag accessor)"""
        t = self.body.blocks[switch_bb]["term"]
        if t["k"] != "switch" or t["op"].get("k") not in ("copy", "move") or t["op"]["place"]["p"]:
            return False
        ds = se.defs.get(t["op"]["place"]["l"], [])
        if len(ds) != 1 or ds[0][0] != "call":
            return False
        ct = self.body.blocks[ds[0][1]]["term"]
        d_, rr_, fn_ = callee(ct)
        if rr_ is None or not fn_.get("res_local", fn_.get("local")) or (self.impure is not None and self.impure(rr_, ct)):
            return False
        try:
            args = [se.operand(a) for a in ct["args"]]
        except Exception:
            return False
        fr = self.facts.frozen_fields()
        return all(_stable_arg(a) or _stable_expr(a, fr) or (a[0] == "ref" and (_stable_arg(a[1]) or _stable_expr(a[1], fr))) for a in args)

    def _get(self, st):
        env = st["env"]

        def get(l):
            if l in env:
                return env[l]
            return ("uninit", l)

        return get

    def _read_place(self, p, st):
        return self.ev.place(p, self._heap_get(st))

    def _assign(self, place, val, st, path, bb):
        if not place["p"]:
            st["env"][place["l"]] = val
            return
        get = self._get(st)
        # write through a projection
        base = place["l"]
        projs = place["p"]
        bv = get(base)
        if projs and projs[0] != "deref" and bv[0] in ("uninit", "agg", "tuple", "var", "partial"):
            # building a local aggregate field by field: keep it opaque but remember field values
            target = self.ev.project(("localobj", base), projs, None, get)
            st["heap"][target] = val
            return
        target = self.ev.project(bv, projs, None, get)
        st["heap"][target] = val
        st["epoch"] += 1
        path.effects.append(("store", target, val, bb))

    def _go(self, bb, st, path, visited):
        body = self.body
        while True:
            if len(self.paths) >= self.max_paths:
                self.truncated = True
                return
            if bb in self.stop_blocks:
                path.end = "stop:%d" % bb
                path.env = st["env"]
                path.heap = st["heap"]
                path.blocks.append(bb)
                self.paths.append(path)
                return
            if visited.get(bb, 0) >= self.max_visits:
                path.end = "loop:%d" % bb
                path.env = st["env"]
                path.heap = st["heap"]
                self.paths.append(path)
                return
            visited = dict(visited)
            visited[bb] = visited.get(bb, 0) + 1
            path.blocks.append(bb)
            b = body.blocks[bb]
            get = self._get(st)
            for st_ in b["stmts"]:
                if st_["k"] == "assign":
                    rv = st_["rv"]
                    if rv["k"] == "use" and rv["op"]["k"] in ("copy", "move"):
                        val = self._read_place(rv["op"]["place"], st)
                    elif rv["k"] == "ref" and rv["place"]["p"] == [] and rv["mut"]:
                        # &mut local: the local may change behind our back; model as a ref cell
                        val = self.ev.rvalue(rv, get)
                        lv = get(rv["place"]["l"])
                        lty = strip_lt(self.body.locals[rv["place"]["l"]]["ty"])
                        if isinstance(lv, tuple) and lv[0] in ("agg", "partial") and rv["place"]["l"] > self.body.argc and not lty.startswith(("std::", "core::", "alloc::", "(", "&", "[")):
                            # a local aggregate (e.g. a value under construction handed to a helper as `&mut self`):
                            # stores through the reference are stores into that local, exactly like direct ones
                            val = ("ref", ("localobj", rv["place"]["l"]))
                    else:
                        val = self.ev.rvalue(rv, self._heap_get(st))
                    if st["subst"]:
                        val = substitute(val, st["subst"])
                    self._assign(st_["place"], val, st, path, bb)
                elif st_["k"] == "setdiscr":
                    pass
            t = b["term"]
            k = t["k"]
            if self.on_term is not None and k in ("call", "assert"):
                self.on_term(bb, t, self._heap_get(st), path, st)
            if k == "goto":
                bb = t["t"]
                continue
            if k == "return":
                path.ret = st["env"].get(0, ("uninit", 0))
                if st["subst"]:
                    path.ret = substitute(path.ret, st["subst"])
                hv = st["heap"]
                path.end = "return"
                path.env = st["env"]
                path.heap = hv
                rv = path.ret
                if self.split_bool_returns and self.body.parent is None and strip_lt(self.body.locals[0]["ty"]) == "bool" and isinstance(rv, tuple) and rv not in (TRUE, FALSE) and rv[0] not in ("uninit", "const"):
                    # a boolean function answers true or false: `return e` is `if e { true } else { false }`
                    neg = False
                    atom = rv
                    while isinstance(atom, tuple) and atom[0] == "not":
                        atom = atom[1]
                        neg = not neg
                    kn = st["known"].get(atom)
                    outs = [kn] if kn in (True, False) else [True, False]
                    for o in outs:
                        p2 = Path()
                        p2.guards = list(path.guards) + ([(atom, o)] if kn not in (True, False) else [])
                        p2.effects = list(path.effects)
                        p2.blocks = list(path.blocks)
                        p2.ret = TRUE if (o != neg) else FALSE
                        p2.end = "return"
                        p2.env = st["env"]
                        p2.heap = hv
                        self.paths.append(p2)
                    return
                self.paths.append(path)
                return
            if k in ("unreachable", "resume", "terminate", "other", "tailcall"):
                path.end = k
                path.env = st["env"]
                path.heap = st["heap"]
                self.paths.append(path)
                return
            if k == "drop":
                bb = t["t"]
                continue
            if k == "assert":
                ops = tuple(self.ev.operand(o, self._heap_get(st)) for o in t["ops"])
                path.effects.append(("assert", t["kind"], ops, bb))
                bb = t["t"]
                continue
            if k == "call":
                val, r = self.ev.call(t, self._heap_get(st), st["epoch"], self.impure)
                d, rr, fn = callee(t)
                if self.assume and rr is not None and short(rr) in self.assume:
                    val = self.assume[short(rr)]
                args = tuple(self.ev.operand(a, self._heap_get(st)) for a in t["args"])
                if rr is not None and "box_assume_init_into_vec_unsafe" in rr and args:
                    # vec![a, b, ..]: the elements were stored through the uninitialised box
                    for hk, hvv in st["heap"].items():
                        if isinstance(hvv, tuple) and hvv[0] == "aggother" and hvv[1] == "array":
                            root = hk
                            while isinstance(root, tuple) and root[0] in ("field", "index", "downcast", "proj"):
                                root = root[1]
                            if root == args[0]:
                                val = ("vec", hvv[2])
                if rr is not None and short(rr) in ("Option::map", "Option::and_then", "Option::ok_or_else", "Option::unwrap_or_else", "Option::is_some_and", "Option::is_none_or", "Option::filter") and len(args) == 2 and args[1][0] == "closure" and self._desugar_option_adaptor(short(rr), args, t, st, path, visited, bb):
                    return
                if rr is not None and short(rr) == "Option::map_or" and len(args) == 3 and args[2][0] == "closure" and self._desugar_option_adaptor("Option::map_or", [args[0], args[2], args[1]], t, st, path, visited, bb):
                    return
                if rr is not None and rr in ("core::bool::<impl bool>::then", "std::bool::<impl bool>::then", "core::bool::<impl bool>::then_some", "std::bool::<impl bool>::then_some", "bool::<impl bool>::then", "bool::<impl bool>::then_some") and len(args) == 2 and t["t"] is not None and self._desugar_bool_then(rr.endswith("then_some"), args, t, st, path, visited, bb):
                    return
                if rr is not None and short(rr) == "Option::zip" and len(args) == 2 and t["t"] is not None:
                    # a.zip(b) is the match on the pair it abbreviates: Some((x, y)) when both are Some, None otherwise
                    def _variants(x):
                        if x[0] in ("agg", "enumc") and x[2] in ("Some", "None"):
                            return [(x[2], None)]
                        known = st["known"].get(("variant", x))
                        if known is not None:
                            return [(known[1], None)]
                        return [("Some", ("variant", x)), ("None", ("variant", x))]
                    for va, atom_a in _variants(args[0]):
                        for vb, atom_b in (_variants(args[1]) if va == "Some" else [(None, None)]):
                            st2 = {"env": dict(st["env"]), "heap": dict(st["heap"]), "known": dict(st["known"]), "epoch": st["epoch"], "subst": dict(st["subst"]), "mutn": st.get("mutn", 0)}
                            p2 = Path()
                            p2.guards = list(path.guards)
                            p2.effects = list(path.effects)
                            p2.blocks = list(path.blocks)
                            for atom, v_ in ((atom_a, va), (atom_b, vb)):
                                if atom is not None:
                                    st2["known"][atom] = ("variant", v_)
                                    p2.guards.append((atom, ("variant", v_)))
                            if va == "Some" and vb == "Some":
                                pa = self.ev._project1(("downcast", args[0], "Some"), {"f": "0", "i": 0, "adt": "std::option::Option", "ty": ""})
                                pb = self.ev._project1(("downcast", args[1], "Some"), {"f": "0", "i": 0, "adt": "std::option::Option", "ty": ""})
                                v2 = ("agg", "std::option::Option", "Some", ("0",), (("tuple", (pa, pb)),))
                            else:
                                v2 = ("enumc", "std::option::Option", "None")
                            self._assign(t["dest"], v2, st2, p2, bb)
                            self._go(t["t"], st2, p2, visited)
                    return
                if rr is not None and _SLICE_GET.match(rr) and len(args) == 2 and t["t"] is not None and fn is not None and "Range" not in " ".join(fn.get("targs", [])):
                    # v.get(i) is the guarded index it abbreviates: Some(&v[i]) when i < len(v), None otherwise
                    atom = mk_lt(args[1], mk_len(args[0]))
                    known = st["known"].get(atom)
                    for o in (True, False):
                        if known is not None and known is not o:
                            continue
                        st2 = {"env": dict(st["env"]), "heap": dict(st["heap"]), "known": dict(st["known"]), "epoch": st["epoch"], "subst": dict(st["subst"]), "mutn": st.get("mutn", 0)}
                        p2 = Path()
                        p2.guards = list(path.guards)
                        p2.effects = list(path.effects)
                        p2.blocks = list(path.blocks)
                        if known is None:
                            st2["known"][atom] = o
                            p2.guards.append((atom, o))
                        v2 = ("agg", "std::option::Option", "Some", ("0",), (("ref", ("index", args[0], args[1])),)) if o else ("enumc", "std::option::Option", "None")
                        self._assign(t["dest"], v2, st2, p2, bb)
                        self._go(t["t"], st2, p2, visited)
                    return
                path.effects.append(("call", short(rr) if rr else "<indirect>", args, bb, val))
                # &mut arguments or impure callee: bump epoch
                if self._mutating(t, st, rr):
                    st["epoch"] += 1
                    self._havoc_mut_args(t, st)
                    st["env"] = dict(st["env"])
                self._assign(t["dest"], val, st, path, bb)
                if t["t"] is None:
                    path.end = "diverge"
                    path.env = st["env"]
                    path.heap = st["heap"]
                    self.paths.append(path)
                    return
                bb = t["t"]
                continue
            if k == "switch":
                v = self.ev.operand(t["op"], self._heap_get(st))
                if st["subst"]:
                    v = substitute(v, st["subst"])
                self._switch(bb, t, v, st, path, visited)
                return
            raise RuntimeError("unknown terminator " + k)

    def _desugar_bool_then(self, is_some, args, t, st, path, visited, bb):
        """`c.then(|| e)` / `c.then_some(e)`: Some(e) when c, None otherwise."""
        cond = args[0]
        subs = [None]
        if not is_some:
            if args[1][0] != "closure" or self.facts is None:
                return False
            cb = self.facts.body(args[1][1])
            if cb is None or len(cb.blocks) > 40 or cb.argc != 1:
                return False
            env1 = ("ref", args[1]) if strip_lt(cb.locals[1]["ty"]).startswith("&") else args[1]
            sub = Walker(cb, self.facts, impure=self.impure, max_paths=64, init_env={1: env1}, max_visits=1)
            try:
                sub.run()
            except Exception:
                return False
            if sub.truncated or not sub.paths or any(q.end != "return" for q in sub.paths):
                return False
            subs = sub.paths
        if cond == TRUE or cond == FALSE:
            outcomes = [cond == TRUE]
        else:
            known = st["known"].get(cond)
            outcomes = [known] if known in (True, False) else [True, False]
        for o in outcomes:
            for q in (subs if o else [None]):
                st2 = {"env": dict(st["env"]), "heap": dict(st["heap"]), "known": dict(st["known"]), "epoch": st["epoch"], "subst": dict(st["subst"]), "mutn": st.get("mutn", 0)}
                p2 = Path()
                p2.guards = list(path.guards)
                p2.effects = list(path.effects)
                p2.blocks = list(path.blocks)
                if cond not in (TRUE, FALSE) and cond not in st["known"]:
                    st2["known"][cond] = o
                    p2.guards.append((cond, o))
                if not o:
                    val = ("enumc", "std::option::Option", "None")
                elif is_some:
                    val = ("agg", "std::option::Option", "Some", ("0",), (args[1],))
                else:
                    bad_ = False
                    for a, oo in q.guards:
                        if st2["known"].get(a, oo) != oo:
                            bad_ = True
                            break
                        if a not in st2["known"]:
                            st2["known"][a] = oo
                            p2.guards.append((a, oo))
                    if bad_:
                        continue
                    p2.effects.extend(q.effects)
                    val = ("agg", "std::option::Option", "Some", ("0",), (q.ret,))
                self._assign(t["dest"], val, st2, p2, bb)
                self._go(t["t"], st2, p2, visited)
        return True

    def _desugar_option_adaptor(self, name, args, t, st, path, visited, bb):
        """`x.map(|v| e)` / `x.and_then(|v| e)` with a closure of this crate is the match it abbreviates: None -> None,
        Some(v) -> the closure's paths (guards and effects spliced in).  Only pure, small closures; anything else
        stays an opaque call."""
        if self.facts is None or t["t"] is None:
            return False
        on_none = name in ("Option::ok_or_else", "Option::unwrap_or_else")  # the closure runs for None and takes no argument
        cb = self.facts.body(args[1][1])
        if cb is None or len(cb.blocks) > 40 or cb.argc != (1 if on_none else 2):
            return False
        x = args[0]
        env1 = args[1]
        if strip_lt(cb.locals[1]["ty"]).startswith("&"):
            env1 = ("ref", args[1])
        payload = self.ev._project1(("downcast", x, "Some"), {"f": "0", "i": 0, "adt": "std::option::Option", "ty": ""})
        sub = Walker(cb, self.facts, impure=self.impure, max_paths=64, init_env=({1: env1} if on_none else {1: env1, 2: (("ref", payload) if name == "Option::filter" else payload)}), max_visits=1)
        try:
            sub.run()
        except Exception:
            return False
        if sub.truncated or not sub.paths or any(q.end != "return" for q in sub.paths):
            return False
        atom = ("variant", x)
        known = st["known"].get(atom)
        static = None
        if x[0] == "agg" and x[2] in ("Some", "None"):
            static = ("variant", x[2])
        elif x[0] == "enumc" and x[2] in ("Some", "None"):
            static = ("variant", x[2])
        if static is not None:
            known = static
        branches = []
        closure_side, plain_side = (("variant", "None"), ("variant", "Some")) if on_none else (("variant", "Some"), ("variant", "None"))
        if known in (None, plain_side):
            branches.append((plain_side, None))
        if known in (None, closure_side):
            for q in sub.paths:
                branches.append((closure_side, q))
        for o, q in branches:
            st2 = {"env": dict(st["env"]), "heap": dict(st["heap"]), "known": dict(st["known"]), "epoch": st["epoch"], "subst": dict(st["subst"]), "mutn": st.get("mutn", 0)}
            p2 = Path()
            p2.guards = list(path.guards)
            p2.effects = list(path.effects)
            p2.blocks = list(path.blocks)
            if known is None and static is None:
                st2["known"][atom] = o
                p2.guards.append((atom, o))
            if q is None:
                if name == "Option::ok_or_else":
                    val = ("agg", "std::result::Result", "Ok", ("0",), (payload,))
                elif name == "Option::unwrap_or_else":
                    val = payload
                elif name == "Option::is_some_and":
                    val = FALSE
                elif name == "Option::is_none_or":
                    val = TRUE
                elif name == "Option::map_or":
                    val = args[2]
                else:
                    val = ("enumc", "std::option::Option", "None")
            else:
                for a, oo in q.guards:
                    if st2["known"].get(a, oo) != oo:
                        break
                    if a not in st2["known"]:
                        st2["known"][a] = oo
                        p2.guards.append((a, oo))
                else:
                    p2.effects.extend(q.effects)
                    if name == "Option::filter":
                        # Some(v) kept iff the predicate holds
                        keep = [q.ret == TRUE] if q.ret in (TRUE, FALSE) else ([st2["known"][q.ret]] if st2["known"].get(q.ret) in (True, False) else [True, False])
                        for kp in keep:
                            st3 = {"env": dict(st2["env"]), "heap": dict(st2["heap"]), "known": dict(st2["known"]), "epoch": st2["epoch"], "subst": dict(st2["subst"]), "mutn": st2.get("mutn", 0)}
                            p3 = Path()
                            p3.guards = list(p2.guards)
                            p3.effects = list(p2.effects)
                            p3.blocks = list(p2.blocks)
                            if q.ret not in (TRUE, FALSE) and q.ret not in st3["known"]:
                                st3["known"][q.ret] = kp
                                p3.guards.append((q.ret, kp))
                            self._assign(t["dest"], x if kp else ("enumc", "std::option::Option", "None"), st3, p3, bb)
                            self._go(t["t"], st3, p3, visited)
                        continue
                    if name in ("Option::and_then", "Option::unwrap_or_else", "Option::is_some_and", "Option::is_none_or", "Option::map_or"):
                        val = q.ret
                    elif name == "Option::ok_or_else":
                        val = ("agg", "std::result::Result", "Err", ("0",), (q.ret,))
                    else:
                        val = ("agg", "std::option::Option", "Some", ("0",), (q.ret,))
                    self._assign(t["dest"], val, st2, p2, bb)
                    self._go(t["t"], st2, p2, visited)
                continue
            self._assign(t["dest"], val, st2, p2, bb)
            self._go(t["t"], st2, p2, visited)
        return True

    def _heap_get(self, st):
        env = st["env"]
        heap = st["heap"]

        def get(l):
            if l in env:
                return env[l]
            return ("uninit", l)

        get.heap = heap
        return get

    def _mutating(self, t, st, rr):
        # any argument of a &mut type
        body = self.body
        for a in t["args"]:
            if a["k"] in ("copy", "move"):
                ty = body.locals[a["place"]["l"]]["ty"]
                if not a["place"]["p"] and ty.startswith("&mut ") or (not a["place"]["p"] and strip_lt(ty).startswith("&mut ")):
                    return True
        if self.impure is not None and rr is not None:
            return self.impure(rr, t)
        return False

    def _havoc_mut_args(self, t, st):
        """A callee receiving `&mut x` may change x: later reads through x (or any alias holding the same
        reference) see a fresh version ('mut', base, n); values read before keep the old version."""
        body = self.body
        env = st["env"]
        d_, rr_, fn_ = callee(t)
        for ai, a in enumerate(t["args"]):
            if a["k"] not in ("copy", "move") or a["place"]["p"]:
                continue
            l = a["place"]["l"]
            ty = strip_lt(body.locals[l]["ty"])
            if not ty.startswith("&mut "):
                continue
            v = env.get(l)
            if v is None or v[0] in ("const", "uninit"):
                continue
            st["mutn"] = st.get("mutn", 0) + 1
            base = v[1] if v[0] == "mut" else v
            nv = ("mut", base, st["mutn"])
            # frame condition: a local callee that provably writes only some fields of the object leaves the others alone
            ms = self.modset(rr_, ai + 1) if (self.modset is not None and rr_ is not None) else None
            if ms is not None and base[0] in ("arg", "mut", "field"):
                st["heap"] = dict(st["heap"])
                for f in ms:
                    st["heap"][("field", v, f)] = ("field", nv, f)
                    # stale knowledge about deeper places of that field
                    for hk in list(st["heap"]):
                        if hk != ("field", v, f) and isinstance(hk, tuple) and _mentions_place(hk, ("field", v, f)):
                            del st["heap"][hk]
                continue
            for k in list(env):
                if env[k] == v:
                    env[k] = nv
            if base[0] in ("field", "index", "downcast"):
                # a place inside a larger object: later reads of that place see the new version
                st["heap"] = dict(st["heap"])
                st["heap"][base] = nv
                if v != base:
                    st["heap"][v] = nv

    def _switch(self, bb, t, v, st, path, visited):
        body = self.body
        neg = False
        atom = v
        if atom[0] == "not":
            atom = atom[1]
            neg = True
        targets = t["targets"]
        ty = t["ty"]
        if atom[0] == "is":
            kv = st["known"].get(("variant", atom[1]))
            if isinstance(kv, tuple) and kv[0] == "variant":
                atom = TRUE if kv[1] == atom[2] else FALSE
            elif isinstance(kv, tuple) and kv[0] == "variants" and atom[2] not in kv[1]:
                atom = FALSE
        # constant?
        cv = None
        if atom[0] == "const" and atom[1] in ("int", "bool", "char"):
            cv = int(atom[2])
            if neg:
                cv = 0 if cv else 1
        elif atom[0] == "variantof":
            cv = ("variant", atom[1])
        if cv is not None:
            nxt = None
            if isinstance(cv, tuple):
                # need the discriminant map: not available here -> explore all (rare)
                nxt = None
            else:
                for val, b2 in targets:
                    if val == cv:
                        nxt = b2
                        break
                else:
                    nxt = t["otherwise"]
            if nxt is not None:
                self._go(nxt, st, path, visited)
                return
        is_bool = ty == "bool"
        known = st["known"]
        options = []  # (outcome, target)
        if is_bool:
            for val, b2 in targets:
                outcome = bool(val)
                options.append((outcome, b2))
            # otherwise = the remaining boolean value
            present = {bool(v_) for v_, _ in targets}
            for o in (True, False):
                if o not in present:
                    options.append((o, t["otherwise"]))
            if neg:
                options = [((not o), b2) for o, b2 in options]
        else:
            names = None
            if atom[0] == "discr":
                names = dict(atom[2])
                atom_key = ("variant", atom[1])
            else:
                atom_key = atom
            for val, b2 in targets:
                if names is not None:
                    options.append((("variant", names.get(val, val)), b2))
                elif ty == "char":
                    options.append((("char", val), b2))
                else:
                    options.append((("val", val), b2))
            excluded = tuple(o for o, _ in options)
            if names is not None:
                rest = tuple(n for d, n in atom[2] if ("variant", n) not in excluded)
                if len(rest) == 1:
                    options.append((("variant", rest[0]), t["otherwise"]))
                elif len(rest) > 1:
                    options.append((("variants", rest), t["otherwise"]))
                # len(rest)==0: otherwise unreachable
            else:
                options.append((("other", excluded), t["otherwise"]))
            atom = atom_key
        akey = atom
        if akey in known:
            want = known[akey]
            for o, b2 in options:
                if o == want:
                    self._go(b2, st, path, visited)
                    return
            # a previous 'other' outcome only excludes values: the explicit cases not excluded earlier stay
            # possible, and the new 'other' excludes the union
            if isinstance(want, tuple) and want[0] == "other":
                opts = []
                for o, b2 in options:
                    if isinstance(o, tuple) and o[0] == "other":
                        opts.append((("other", tuple(sorted(set(want[1]) | set(o[1])))), b2))
                    elif o not in want[1]:
                        opts.append((o, b2))
                options = opts
                if len(options) == 1 and isinstance(options[0][0], tuple) and options[0][0][0] == "other" and set(options[0][0][1]) == set(want[1]):
                    self._go(options[0][1], st, path, visited)
                    return
            elif isinstance(want, tuple) and want[0] == "variants":
                opts = []
                for o, b2 in options:
                    if o[0] == "variant" and o[1] in want[1]:
                        opts.append((o, b2))
                    elif o[0] == "variants":
                        inter = tuple(x for x in o[1] if x in want[1])
                        if len(inter) == 1:
                            opts.append((("variant", inter[0]), b2))
                        elif inter:
                            opts.append((("variants", inter), b2))
                options = opts
                if len(options) == 1:
                    st["known"][akey] = options[0][0]
                    path.guards.append((atom, options[0][0]))
                    self._go(options[0][1], st, path, visited)
                    return
            else:
                # known concrete value not among the explicit targets -> otherwise
                self._go(t["otherwise"], st, path, visited)
                return
        forced = None
        if self.oracle is not None:
            forced = self.oracle(atom, options)
        first = True
        for o, b2 in options:
            if forced is not None and o != forced:
                continue
            st2 = {"env": dict(st["env"]), "heap": dict(st["heap"]), "known": dict(st["known"]), "epoch": st["epoch"], "subst": dict(st["subst"]), "mutn": st.get("mutn", 0)}
            st2["known"][akey] = o
            if isinstance(o, tuple) and o[0] == "char" and akey[0] not in ("variant",):
                st2["subst"][akey] = const("char", o[1])
            elif isinstance(o, tuple) and o[0] == "val" and akey[0] not in ("variant",):
                st2["subst"][akey] = const("int", o[1])
            elif o is True or o is False:
                st2["subst"][akey] = TRUE if o else FALSE
            p2 = Path()
            p2.guards = list(path.guards) + [(atom, o)]
            p2.effects = list(path.effects)
            p2.blocks = list(path.blocks)
            self._go(b2, st2, p2, visited)


def fold_bool_paths(paths):
    """Canonical form of boolean results: two paths that differ only in the outcome of their last test and answer
    true / false are one path that answers the test itself (`if e { true } else { false }` is `e`)."""
    paths = list(paths)
    changed = True
    while changed:
        changed = False
        index = {}
        for i, p in enumerate(paths):
            if p.end != "return" or p.ret not in (TRUE, FALSE) or not p.guards:
                continue
            a, o = p.guards[-1]
            if o not in (True, False):
                continue
            key = (tuple(p.guards[:-1]), a, tuple((e[0], e[1], e[2]) if e[0] == "call" else e[:3] for e in p.effects))
            if key in index:
                j = index[key]
                q = paths[j]
                if q.guards[-1][1] is (not o) and q.ret != p.ret:
                    pos = p if o else q  # the path on which the test holds
                    m = Path()
                    m.guards = list(p.guards[:-1])
                    m.effects = list(p.effects)
                    m.blocks = list(p.blocks)
                    m.end = "return"
                    m.env, m.heap = p.env, p.heap
                    m.ret = a if pos.ret == TRUE else mk_not(a)
                    paths[j] = m
                    del paths[i]
                    changed = True
                    break
            else:
                index[key] = i
    return paths


def _mentions_place(e, place):
    if e == place:
        return True
    if isinstance(e, tuple) and e and e[0] in ("field", "index", "downcast", "proj"):
        return _mentions_place(e[1], place)
    return False


def walk(body, facts=None, **kw):
    start = kw.pop("start_bb", 0)
    on_term = kw.pop("on_term", None)
    assume = kw.pop("assume", None)
    modset = kw.pop("modset", None)
    w = Walker(body, facts, **kw)
    w.on_term = on_term
    w.assume = assume or {}
    w.modset = modset
    w.run(start)
    return w
