"""Call graph over resolved callees (A3)."""
from .facts import callee, strip_lt


class CallGraph:
    def __init__(self, facts):
        self.f = facts
        self.edges = {}  # caller path -> set(callee path)  (callee may be external)
        self.sites = {}  # callee path -> [(caller body, bb)]
        self.local = {b.path: b for b in facts.bodies}
        self.dyn_next_impls = set()
        # local types unsize-coerced to dyn Iterator -> their Iterator::next impls
        coerced = set()
        for b in facts.bodies:
            for blk in b.blocks:
                for st in blk["stmts"]:
                    if st["k"] == "assign" and st["rv"]["k"] == "cast" and st["rv"]["kind"] == "ptr:Unsize":
                        frm = strip_lt(st["rv"]["from"])
                        to = strip_lt(st["rv"]["ty"])
                        if "dyn std::iter::Iterator" in to:
                            coerced.add(frm)
        self.coerced_iter_types = coerced
        for b in facts.bodies:
            if b.impl_trait == "std::iter::Iterator" and b.name == "next":
                st = b.impl_self
                for c in coerced:
                    if st and ("Box<%s>" % st) in c:
                        self.dyn_next_impls.add(b.path)
        for b in facts.bodies:
            es = self.edges.setdefault(b.path, set())
            for body in [b] + b.promoted:
                for bi, blk in enumerate(body.blocks):
                    for st in blk["stmts"]:
                        if st["k"] == "assign" and st["rv"]["k"] == "agg" and st["rv"].get("agg") == "closure":
                            es.add(strip_lt(st["rv"]["def"]))
                        # function items used as values (e.g. get_or_init(BlockLookup::new))
                        if st["k"] == "assign":
                            self._fn_operands(st["rv"], es)
                    t = blk["term"]
                    if t["k"] == "call":
                        d, r, fn = callee(t)
                        if r is not None:
                            es.add(r)
                            self.sites.setdefault(r, []).append((body, bi))
                            targs = fn.get("targs", [])
                            self_dyn = bool(targs) and "dyn " in targs[0]
                            if d == "std::iter::Iterator::next" and self_dyn and "Iterator<Item = usize>" in targs[0]:
                                for n in self.dyn_next_impls:
                                    es.add(n)
                            elif fn.get("trait") and strip_lt(fn["trait"]) != "std::iter::Iterator" and (fn.get("res_kind") == "virtual" or self_dyn):
                                tr = strip_lt(fn["trait"])
                                mname = d.split("::")[-1]
                                for lb in facts.bodies:
                                    if lb.impl_trait == tr and lb.name == mname:
                                        es.add(lb.path)
                        for a in t["args"]:
                            if a.get("k") == "const" and "fn" in a:
                                es.add(strip_lt(a["fn"].get("res", a["fn"]["def"])))

    def _fn_operands(self, rv, es):
        for key in ("op", "a", "b"):
            o = rv.get(key)
            if isinstance(o, dict) and o.get("k") == "const" and "fn" in o:
                es.add(strip_lt(o["fn"].get("res", o["fn"]["def"])))
        for o in rv.get("fields", []) or []:
            if isinstance(o, dict) and o.get("k") == "const" and "fn" in o:
                es.add(strip_lt(o["fn"].get("res", o["fn"]["def"])))

    def reachable(self, roots):
        seen = set()
        st = [r for r in roots]
        while st:
            x = st.pop()
            if x in seen:
                continue
            seen.add(x)
            for y in self.edges.get(x, ()):
                if y not in seen:
                    st.append(y)
        return seen

    def reaches(self, frm, pred):
        for x in self.reachable([frm]):
            if pred(x):
                return True
        return False

    def sccs(self):
        """Tarjan over local bodies."""
        index = {}
        low = {}
        onstack = set()
        stack = []
        out = []
        counter = [0]
        import sys

        sys.setrecursionlimit(10000)

        def strong(v):
            index[v] = low[v] = counter[0]
            counter[0] += 1
            stack.append(v)
            onstack.add(v)
            for w in self.edges.get(v, ()):
                if w not in self.local:
                    continue
                if w not in index:
                    strong(w)
                    low[v] = min(low[v], low[w])
                elif w in onstack:
                    low[v] = min(low[v], index[w])
            if low[v] == index[v]:
                comp = []
                while True:
                    w = stack.pop()
                    onstack.discard(w)
                    comp.append(w)
                    if w == v:
                        break
                out.append(comp)

        for v in self.local:
            if v not in index:
                strong(v)
        return out


API_ROOTS = [
    "regex::Regex::xpath",
    "regex::Regex::xsd",
    "regex::Regex::is_match",
    "regex::Regex::replace_all",
    "regex::Regex::tokenize",
    "regex::Regex::analyze",
    "<regex::TokenIter as std::iter::Iterator>::next",
    "<analyze_string::AnalyzeIter as std::iter::Iterator>::next",
]
