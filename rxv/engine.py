"""Rule registry, instances, verdict protocol."""
import json, os, time, sys, traceback

VERIF = os.path.dirname(os.path.dirname(os.path.abspath(__file__)))

RULES = {}  # id -> Rule


class Rule:
    def __init__(self, rid, props, floor, fn, doc, tier="quick"):
        self.id = rid
        self.props = props
        self.floor = floor
        self.fn = fn
        self.doc = doc
        self.tier = tier


def rule(rid, props, floor=1, tier="quick"):
    def deco(fn):
        RULES[rid] = Rule(rid, list(props), floor, fn, (fn.__doc__ or "").strip(), tier)
        return fn

    return deco


class Inst:
    """One obligation (rule instance)."""

    __slots__ = ("rule", "key", "ok", "msg", "loc", "detail", "props", "optional")

    def __init__(self, key, ok, msg="", loc=None, detail=None):
        self.rule = None
        self.key = key
        self.ok = ok
        self.msg = msg
        self.loc = loc
        self.detail = detail
        self.props = None  # optional: the subset of the rule's properties this obligation bears on
        self.optional = False  # True: the construct need not exist (its absence is not reported by the required-keys check)

    def full_key(self):
        return "%s|%s" % (self.rule, self.key)

    def to_json(self):
        return {"rule": self.rule, "key": self.key, "ok": self.ok, "msg": self.msg, "loc": self.loc}


def ok(key, msg="", loc=None):
    return Inst(key, True, msg, loc)


def bad(key, msg, loc=None, detail=None):
    return Inst(key, False, msg, loc, detail)


def missing(what, loc=None):
    return Inst("anchor-missing|" + what, False, "anchor not found: %s (the rule cannot be evaluated; fail closed)" % what, loc)


_REQ = []


def required_keys():
    if not _REQ:
        p = os.path.join(os.path.dirname(os.path.abspath(__file__)), "required_keys.json")
        _REQ.append(json.load(open(p)) if os.path.exists(p) else {})
    return _REQ[0]


# A property whose statement presupposes another one is checked with that one's rules as well: the spans of C02 and
# the equivalences of C20 are about the same match relation as C01 - a rule that bears on which strings match bears
# on which spans are reported and on whether two spellings agree.
# Likewise what `$N` inserts (C15) and what `\N` compares with (C19) is the text of group N: the rules about how
# groups are recorded, cleared and restored (C03) bear on both.
IMPLIED = {"C02": ("C01",), "C20": ("C01",), "C15": ("C03",), "C19": ("C03",)}


def scope(prop):
    return {prop} | set(IMPLIED.get(prop, ()))


def run_rules(ctx, prop, tier="quick"):
    """Runs every rule mapped to `prop`. Returns (instances, per_rule_stats)."""
    insts = []
    stats = {}
    for rid, r in sorted(RULES.items()):
        if not (set(r.props) & scope(prop)):
            continue
        if r.tier == "thorough" and tier != "thorough":
            continue
        t0 = time.time()
        try:
            res = ctx.rule_result(r)
        except Exception as e:  # a crashing rule is a broken check, not a pass
            tb = traceback.format_exc()
            i = Inst("rule-crashed", False, "rule raised %s: %s\n%s" % (type(e).__name__, e, tb))
            i.rule = rid
            res = [i]
        n_all = len(res)
        res = [i for i in res if i.props is None or (set(i.props) & scope(prop))]
        n_ok = sum(1 for i in res if i.ok)
        n_bad = sum(1 for i in res if not i.ok)
        extra = []
        have = {i.key for i in res}
        if not any(i.key == "rule-crashed" for i in res):
            have = {i.key for i in ctx.rule_result(r)}
            for k in required_keys().get(rid, []):
                if k not in have:
                    i = Inst("required|" + k, False, "obligation %r of rule %s, generated on the reference tree, was not generated on this tree: the construct it is computed from was removed or is no longer recognised (fail closed)" % (k, rid))
                    i.rule = rid
                    extra.append(i)
                    n_bad += 1
        if n_all < r.floor:
            i = Inst("floor", False, "rule %s produced %d instances, fewer than the %d confirmed by hand (fail closed)" % (rid, len(res), r.floor))
            i.rule = rid
            extra.append(i)
            n_bad += 1
        stats[rid] = {"instances": len(res), "ok": n_ok, "violations": n_bad, "floor": r.floor, "doc": r.doc.split("\n")[0], "wall_s": round(time.time() - t0, 3)}
        insts.extend(res)
        insts.extend(extra)
    return insts, stats


class Ctx:
    """Facts + memoised rule results (a rule listed under several properties is evaluated once)."""

    def __init__(self, facts, facts_dir=None, repo="/repo", tier="quick"):
        self.f = facts
        self.facts_dir = facts_dir
        self.repo = repo
        self.tier = tier
        self._memo = {}
        self._cache = {}

    def rule_result(self, r):
        if r.id not in self._memo:
            out = []
            for i in r.fn(self) or []:
                i.rule = r.id
                out.append(i)
            self._memo[r.id] = out
        return self._memo[r.id]

    def cached(self, key, fn):
        if key not in self._cache:
            self._cache[key] = fn()
        return self._cache[key]

    def body(self, path):
        return self.f.body(path)


# ---------------------------------------------------------------- shared helpers for table-like rules

REC_COUNT = [0]


def rec(d, key, good, msg, loc):
    """Record one obligation in a group dict: a group holds iff all its records hold."""
    REC_COUNT[0] += 1
    d.setdefault(key, [True, msg, loc])
    if not good:
        d[key] = [False, msg, loc]


def emit(d):
    return [ok(k) if g else bad(k, m, l) for k, (g, m, l) in sorted(d.items())]


class PathCheck:
    """Fail closed: a path of the analysed function that none of the rule's clauses recognised is reported.
    Use `with PathCheck(d, key, body, path, desc): ...`; call .skip() for paths that are deliberately out of scope."""

    def __init__(self, d, key, body, path, desc=""):
        self.d, self.key, self.body, self.path, self.desc = d, key, body, path, desc
        self.skipped = False

    def skip(self):
        self.skipped = True

    def __enter__(self):
        self.n0 = REC_COUNT[0]
        return self

    def __exit__(self, et, ev, tb):
        if et is None and not self.skipped and REC_COUNT[0] == self.n0:
            p = self.path
            loc = self.body.loc(p.blocks[-1]) if p.blocks else self.body.loc()
            rec(self.d, self.key + "|unrecognised-path", False, "%s has a path the rule's table does not recognise (restructured or changed code; re-audit): %s" % (self.body.path, self.desc[:300]), loc)
        return False


def checked(d, key, body, paths, only=None):
    """Iterate paths; after the loop body ran for a path, report the path if no clause recorded anything for it
    (fail closed). `only(p)` restricts the obligation to relevant paths; set p.skip = True to waive one."""
    for p in paths:
        n0 = REC_COUNT[0]
        p.skip = False
        yield p
        if REC_COUNT[0] == n0 and not p.skip and (only is None or only(p)):
            loc = body.loc(p.blocks[-1]) if p.blocks else body.loc()
            try:
                desc = p.describe()
            except Exception:
                desc = ""
            rec(d, key + "|unrecognised-path", False, "%s has a path that none of the rule's clauses recognises (restructured or changed code; re-audit): %s" % (body.path, desc[:260]), loc)
