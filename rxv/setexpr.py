"""Set-expression evaluation (A7): abstract interpretation of code that builds
CodePointInversionListBuilder / CharacterClassBuilder values along one path.

Values are set expressions over literal interval lists and named symbols:
  ('lit', ((lo,hi),...))  ('sym', name)  ('union', frozenset)  ('diff', A, B)  ('compl', A)
Literal parts are normalised to sorted disjoint intervals, so splitting or
merging ranges is not an alarm."""
import re
from .facts import callee, strip_lt
from .sym import StaticEnv, show, short

MAXCP = 0x10FFFF


def lit(iv):
    iv = sorted((int(a), int(b)) for a, b in iv if a <= b)
    out = []
    for a, b in iv:
        if out and a <= out[-1][1] + 1:
            out[-1] = (out[-1][0], max(out[-1][1], b))
        else:
            out.append((a, b))
    return ("lit", tuple(out))


EMPTY = lit([])
ALL = lit([(0, MAXCP)])


def lit_compl(l):
    out = []
    prev = 0
    for a, b in l[1]:
        if a > prev:
            out.append((prev, a - 1))
        prev = b + 1
    if prev <= MAXCP:
        out.append((prev, MAXCP))
    return lit(out)


def lit_diff(a, b):
    return lit_inter(a, lit_compl(b))


def lit_inter(a, b):
    out = []
    for x in a[1]:
        for y in b[1]:
            lo, hi = max(x[0], y[0]), min(x[1], y[1])
            if lo <= hi:
                out.append((lo, hi))
    return lit(out)


def union(*xs):
    parts = []
    for x in xs:
        if x[0] == "union":
            parts.extend(x[1])
        else:
            parts.append(x)
    lits = [p for p in parts if p[0] == "lit"]
    others = {p for p in parts if p[0] != "lit"}
    l = lit([iv for p in lits for iv in p[1]])
    if l != EMPTY or not others:
        others.add(l)
    if len(others) == 1:
        return next(iter(others))
    return ("union", frozenset(others))


def diff(a, b):
    if b == EMPTY:
        return a
    if a[0] == "lit" and b[0] == "lit":
        return lit_diff(a, b)
    if a[0] == "diff":
        return ("diff", a[1], union(a[2], b))
    return ("diff", a, b)


def compl(a):
    if a[0] == "compl":
        return a[1]
    if a[0] == "lit":
        return lit_compl(a)
    return ("compl", a)


def fmt(x):
    if x[0] == "lit":
        return "{" + ",".join(("%X" % a) if a == b else "%X-%X" % (a, b) for a, b in x[1]) + "}"
    if x[0] == "sym":
        return x[1]
    if x[0] == "union":
        return "(" + " ∪ ".join(sorted(fmt(y) for y in x[1])) + ")"
    if x[0] == "diff":
        return "(%s − %s)" % (fmt(x[1]), fmt(x[2]))
    if x[0] == "compl":
        return "¬" + fmt(x[1])
    if x[0] == "char":
        return "char(%s)" % show(x[1])
    return str(x)


CPB = "icu_collections::codepointinvlist::CodePointInversionListBuilder::"


class SetInterp:
    """Interprets one path (list of block indices) of a body."""

    def __init__(self, ctx, body, init=None, depth=0):
        self.ctx = ctx
        self.body = body
        self.senv = ctx.senv(body)
        self.sets = dict(init or {})  # local -> set expr / ('char', expr) for CharacterClassBuilder::Char
        self.unknown = []
        self.depth = depth
        self.calls_seen = []

    # -- helpers
    def root_local(self, op):
        """local whose storage an operand refers to (through &mut / & / moves of refs)."""
        if op["k"] not in ("copy", "move"):
            return None
        l = op["place"]["l"]
        seen = set()
        while True:
            if l in seen:
                return l
            seen.add(l)
            if l in self.sets:
                return l
            ds = self.senv.defs.get(l, [])
            if len(ds) != 1 or ds[0][0] != "stmt":
                return l
            st = self.body.blocks[ds[0][1]]["stmts"][ds[0][2]]
            rv = st["rv"]
            if rv["k"] == "ref" and not rv["place"]["p"]:
                l = rv["place"]["l"]
                continue
            if rv["k"] == "ref" and rv["place"]["p"] == ["deref"]:
                l = rv["place"]["l"]
                continue
            if rv["k"] == "use" and rv["op"]["k"] in ("copy", "move") and not rv["op"]["place"]["p"]:
                l = rv["op"]["place"]["l"]
                continue
            return l

    def _lookup(self, l):
        vals = self.__dict__.setdefault("vals", {})
        if l in vals:
            return vals[l]
        ds = self.senv.defs.get(l, [])
        busy = self.__dict__.setdefault("_busy", set())
        if vals and len(ds) == 1 and ds[0][0] == "stmt" and l not in busy and l not in self.senv.mut_borrowed:
            st = self.body.blocks[ds[0][1]]["stmts"][ds[0][2]]
            if st["rv"]["k"] == "use":
                busy.add(l)
                try:
                    return self.senv.ev.rvalue(st["rv"], self._lookup)
                finally:
                    busy.discard(l)
        return self.senv.local_value(l)

    def val(self, op):
        # locals assigned on several paths (an or-pattern binding, a value chosen by a match) are read with the
        # value the path being interpreted gave them
        return self.senv.ev.operand(op, self._lookup)

    def set_of_operand(self, op):
        r = self.root_local(op)
        if r is not None and r in self.sets:
            return self.sets[r]
        v = self.val(op)
        return self.set_of_value(v)

    def set_of_value(self, v):
        # symbolic sources
        s = show(v)
        if v[0] == "call":
            name = v[1]
            if name == "for_general_category_group":
                return ("sym", "GC(%s)" % show(v[2][0]))
            if name.endswith("get_set_for_value"):
                return ("sym", "GCV(%s)" % show(v[2][1]))
            if name in ("CodePointInversionList::all",):
                return ALL
            if name.endswith("to_code_point_inversion_list") or name.endswith("as_code_point_inversion_list") or name.endswith("CodePointInversionListBuilder::build"):
                return self.set_of_value(v[2][0])
        return ("sym", s)

    def char_range(self, op):
        """RangeInclusive<char|u32> operand -> (lo, hi, inclusive) with ints when constant."""
        v = self.val(op)
        if v[0] == "call" and v[1] in ("RangeInclusive::new",):
            lo, hi = v[2][0], v[2][1]
            return lo, hi, True
        if v[0] == "agg" and v[1].endswith("RangeInclusive"):
            return v[4][0], v[4][1], True
        if v[0] == "agg" and v[1].endswith("ops::Range"):
            return v[4][0], v[4][1], False
        return None

    def _cp(self, e):
        if e[0] == "const" and e[1] in ("char", "int"):
            return int(e[2])
        return None

    # -- interpretation
    def run(self, blocks):
        body = self.body
        for bb in blocks:
            blk = body.blocks[bb]
            for st in blk["stmts"]:
                if st["k"] != "assign" or st["place"]["p"]:
                    continue
                dst = st["place"]["l"]
                rv = st["rv"]
                if rv["k"] == "use" and rv["op"]["k"] in ("copy", "move"):
                    src = rv["op"]["place"]
                    if len(self.senv.defs.get(dst, [])) > 1:
                        self.__dict__.setdefault("vals", {})[dst] = self.senv.ev.place(src, self._lookup)
                    if not src["p"] and src["l"] in self.sets:
                        self.sets[dst] = self.sets[src["l"]]
                    elif src["p"]:
                        # moving a payload out of an enum/tuple: (x as Variant).0 -> a symbol named after the source
                        if "CodePointInversionListBuilder" in body.locals[dst]["ty"] or "CharacterClassBuilder" in body.locals[dst]["ty"]:
                            self.sets[dst] = ("sym", show(self.senv.place(src)))
                    elif not src["p"] and ("CodePointInversionListBuilder" in body.locals[dst]["ty"]) and src["l"] <= body.argc:
                        self.sets[dst] = ("sym", show(self.senv.place(src)))
                elif rv["k"] == "agg" and rv.get("agg") == "adt" and strip_lt(rv["adt"]).endswith("CharacterClassBuilder"):
                    f = rv["fields"][0]
                    if rv["variant"] == "Char":
                        self.sets[dst] = ("char", self.val(f))
                    else:
                        self.sets[dst] = self.set_of_operand(f)
            t = blk["term"]
            if t["k"] != "call":
                continue
            d, r, fn = callee(t)
            if r is None:
                continue
            self.calls_seen.append((bb, r))
            args = t["args"]
            dest = t["dest"]["l"] if not t["dest"]["p"] else None
            sr = strip_lt(fn.get("res_inst", r))
            if r.startswith(CPB):
                m = r[len(CPB):]
                if m == "new":
                    self.sets[dest] = EMPTY
                    continue
                recv = self.root_local(args[0])
                cur = self.sets.get(recv)
                if cur is None:
                    cur = ("sym", "B%s" % recv)
                if m == "add_char":
                    c = self.val(args[1])
                    cp = self._cp(c)
                    self.sets[recv] = union(cur, lit([(cp, cp)]) if cp is not None else ("sym", "{%s}" % show(c)))
                elif m == "remove_char":
                    c = self.val(args[1])
                    cp = self._cp(c)
                    self.sets[recv] = diff(cur, lit([(cp, cp)]) if cp is not None else ("sym", "{%s}" % show(c)))
                elif m in ("add_range", "add_range32", "remove_range", "remove_range32"):
                    cr = self.char_range(args[1])
                    if cr is None:
                        self.unknown.append((bb, "range operand of %s not a range literal: %s" % (m, show(self.val(args[1])))))
                        s = ("sym", "range?")
                    else:
                        lo, hi, incl = cr
                        a, b = self._cp(lo), self._cp(hi)
                        if not incl:
                            self.unknown.append((bb, "%s with an exclusive range %s..%s" % (m, show(lo), show(hi))))
                            s = ("sym", "[%s..%s)" % (show(lo), show(hi)))
                        elif a is not None and b is not None:
                            s = lit([(a, b)])
                        else:
                            s = ("sym", "[%s..=%s]" % (show(lo), show(hi)))
                    self.sets[recv] = union(cur, s) if m.startswith("add") else diff(cur, s)
                elif m == "add_set":
                    self.sets[recv] = union(cur, self.set_of_operand(args[1]))
                elif m == "remove_set":
                    self.sets[recv] = diff(cur, self.set_of_operand(args[1]))
                elif m == "complement":
                    self.sets[recv] = compl(cur)
                elif m == "build":
                    if dest is not None:
                        self.sets[dest] = cur
                else:
                    self.unknown.append((bb, "unmodelled builder operation %s" % m))
                    self.sets[recv] = ("sym", "%s(%s)" % (m, fmt(cur)))
                continue
            if dest is None:
                continue
            # CharacterClassBuilder's own operations: interpreted by their contract (each is checked by CLASS-OPS)
            if r.startswith("character_class::CharacterClassBuilder::"):
                m = r.split("::")[-1]
                if m == "from_char":
                    self.sets[dest] = ("char", self.val(args[0]))
                    continue
                if m == "from_str":
                    v = self.val(args[0])
                    if v[0] == "const" and v[1] == "str":
                        self.sets[dest] = lit([(ord(c), ord(c)) for c in v[2]])
                    else:
                        self.sets[dest] = ("sym", "chars(%s)" % show(v))
                    continue
                if m in ("union", "difference", "complement"):
                    xs = [self.as_set(self.set_of_operand(a)) for a in args]
                    self.sets[dest] = union(*xs) if m == "union" else diff(*xs) if m == "difference" else compl(xs[0])
                    continue
                if m == "build":
                    self.sets[dest] = self.as_set(self.set_of_operand(args[0]))
                    continue
            # local functions returning builders
            lb = self.ctx.f.body(r)
            if lb is not None and self.depth < 4 and ("CodePointInversionListBuilder" in (lb.sig or "") or "CharacterClassBuilder" in (lb.sig or "")):
                argsets = [self.set_of_operand(a) for a in args]
                argvals = [self.val(a) for a in args]
                res = eval_fn(self.ctx, r, argvals, argsets, self.depth + 1)
                if res is not None:
                    self.sets[dest] = res
                    continue
            if re.search(r"(OnceLock|OnceCell)::<.*>::get_or_init(::<.*>)?$", sr) and len(args) == 2:
                # a set computed once and kept: what the initialising closure computes (that the static is written
                # by nobody else is API-STATICS' obligation)
                cv = self.val(args[1])
                if cv[0] == "closure" and not cv[2] and self.depth < 4:
                    res = eval_fn(self.ctx, cv[1], None, None, self.depth + 1)
                    if res is not None:
                        self.sets[dest] = res
                        continue
            if r.endswith("to_code_point_inversion_list") or r.endswith("as_code_point_inversion_list"):
                self.sets[dest] = self.set_of_operand(args[0])
                continue
            if "for_general_category_group" in r:
                self.sets[dest] = ("sym", "GC(%s)" % show(self.val(args[0])))
                continue
            if r.endswith("get_set_for_value"):
                self.sets[dest] = ("sym", "GCV(%s)" % show(self.val(args[1])))
                continue
            if sr.endswith("::into") or sr.endswith("::from") or r.endswith("Clone>::clone"):
                rl = self.root_local(args[0])
                if rl in self.sets:
                    self.sets[dest] = self.sets[rl]
                continue
        return self

    def as_set(self, x):
        if x is not None and x[0] == "char":
            cp = self._cp(x[1])
            return lit([(cp, cp)]) if cp is not None else ("sym", "{%s}" % show(x[1]))
        return x

    def result(self):
        return self.sets.get(0)


def eval_fn(ctx, path, argvals=None, argsets=None, depth=0):
    """Set expression returned by a straight-line local function (None when it branches)."""
    b = ctx.body(path)
    if b is None:
        return None
    key = ("seteval", path, repr(argvals), repr(argsets))
    if key in ctx._cache:
        return ctx._cache[key]
    # straight-line: follow unique successors
    blocks = []
    bb = 0
    seen = set()
    res = None
    while True:
        if bb in seen:
            break
        seen.add(bb)
        blocks.append(bb)
        t = b.blocks[bb]["term"]
        if t["k"] == "return":
            init = {}
            for i, sx in enumerate(argsets or []):
                if sx is not None and sx[0] != "sym":
                    init[i + 1] = sx
            it = SetInterp(ctx, b, init, depth)
            # symbolic arguments: replace ('arg', i) by the caller's value in symbols
            it.run(blocks)
            res = it.result()
            if res is not None and argvals:
                res = _subst_args(res, argvals)
            if it.unknown:
                res = ("sym", "unknown(%s)" % "; ".join(m for _, m in it.unknown))
            break
        succ = b.succs(bb)
        if t["k"] == "switch" or len(succ) != 1:
            res = None
            break
        bb = succ[0]
    ctx._cache[key] = res
    return res


def _subst_args(x, argvals):
    if x[0] == "sym":
        s = x[1]
        for i, v in enumerate(argvals):
            s = s.replace("a%d" % (i + 1), show(v))
        return ("sym", s)
    if x[0] == "union":
        return union(*[_subst_args(y, argvals) for y in x[1]])
    if x[0] == "diff":
        return diff(_subst_args(x[1], argvals), _subst_args(x[2], argvals))
    if x[0] == "compl":
        return compl(_subst_args(x[1], argvals))
    return x
