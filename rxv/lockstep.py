"""Turn-indexed view of a loop ("lockstep" normal form).

A loop that is driven by iterators of the standard library can be written in many ways:

    for i in 0..v.len() { f(v[i], w[base + i]) }
    for (i, x) in v.iter().enumerate() { f(*x, w[base + i]) }
    for (x, y) in v.iter().zip(&w[base..]) { f(*x, *y) }
    let mut ys = w.iter().skip(base); for x in &v { f(*x, *ys.next().unwrap()) }

In turn number k (k = 0, 1, ...) all of them look at v[k] and w[base + k].  This module rewrites the expressions of
*one turn* of a loop (a region path of the walker started at the loop header) into that indexed form: the value
`it.next()` yields in turn k is computed from the expression the iterator `it` was created from before the loop -

    v, v.iter(), &v          ->  v[k]
    a..b                     ->  a + k
    I.enumerate()            ->  (k, I_k)
    I.skip(n)                ->  I_(n+k)
    A.zip(B)                 ->  (A_k, B_k)
    s.chars(), s.chars().collect::<Vec<_>>() (then iterated)  ->  chars(s)[k]
    I.copied(), I.cloned(), I.by_ref(), I.peekable() -> I_k

provided the iterator is advanced exactly once on every way through the turn that reaches the point of use (that is
what makes "turn k" and "element k" the same thing).  The turn counter is the symbol `k`.  Rules that compare what a
loop does element by element are written against the indexed form and are therefore indifferent to which of the
spellings the source uses."""
from .sym import StaticEnv, show, const
from .facts import callee, strip_lt

K = ("named", "k")


def _short_name(name):
    return name.split("::")[-1] if isinstance(name, str) else ""


def _as_subslice(it):
    """`x.get(a..)` / `x.get(a..b)` once it is known to be Some: the sub-slice x[a..] / x[a..b]"""
    if isinstance(it, tuple) and it[0] == "field" and it[2] == "0" and isinstance(it[1], tuple) and it[1][0] == "downcast" and it[1][2] == "Some":
        c = it[1][1]
        if isinstance(c, tuple) and c[0] == "call" and _short_name(c[1]) == "get" and len(c[2]) == 2 and isinstance(c[2][1], tuple) and c[2][1][0] == "agg" and c[2][1][1].endswith(("ops::Range", "ops::RangeFrom")):
            return ("index", c[2][0], c[2][1])
    return it


def _elem(it, k, depth=0):
    """Expression of the k-th element of the sequence an iterator expression `it` runs over, or None."""
    if not isinstance(it, tuple) or depth > 12:
        return None
    it = _as_subslice(it)
    h = it[0]
    if h == "ref":
        return _elem(it[1], k, depth + 1)
    if h == "agg" and it[1].endswith("ops::Range") and len(it[4]) == 2:
        return _add(it[4][0], k)
    if h == "agg" and it[1].endswith("ops::RangeInclusive") and len(it[4]) >= 2:
        return _add(it[4][0], k)
    if h == "call":
        n = _short_name(it[1])
        a = it[2]
        if n in ("enumerate",) and len(a) == 1:
            e = _elem(a[0], k, depth + 1)
            return None if e is None else ("tuple", (k, e))
        if n == "skip" and len(a) == 2:
            return _elem(a[0], _add(a[1], k), depth + 1)
        if n == "zip" and len(a) == 2:
            x, y = _elem(a[0], k, depth + 1), _elem(a[1], k, depth + 1)
            return None if x is None or y is None else ("tuple", (x, y))
        if n in ("copied", "cloned", "by_ref", "peekable", "fuse", "iter", "iter_mut", "into_iter") and len(a) == 1:
            return _elem(a[0], k, depth + 1)
        if n == "collect" and len(a) == 1:
            return _elem(a[0], k, depth + 1)
        if n in ("chars",) and len(a) == 1:
            return ("index", ("call", "chars", (a[0],)), k)
        if n == "new" and it[1].endswith("RangeInclusive::new") and len(a) == 2:
            return _add(a[0], k)
        return None
    if h == "index" and isinstance(it[2], tuple) and it[2][0] == "agg" and it[2][1].endswith(("ops::Range", "ops::RangeFrom")) and len(it[2][4]) >= 1:
        # a sub-slice x[a..b] (or x[a..]): its k-th element is x[a + k]
        return _elem(it[1], _add(it[2][4][0], k), depth + 1)
    if h in ("field", "arg", "index", "outerarg", "static", "named"):
        return ("index", it, k)
    return None


def _count(it, depth=0):
    """(first index, sequence whose length bounds the iteration) description for the exhaustion test, as a string."""
    if not isinstance(it, tuple) or depth > 12:
        return None
    it = _as_subslice(it)
    h = it[0]
    if h == "ref":
        return _count(it[1], depth + 1)
    if h == "index" and isinstance(it[2], tuple) and it[2][0] == "agg" and it[2][1].endswith("ops::RangeFrom") and len(it[2][4]) == 1:
        c = _count(it[1], depth + 1)
        return None if c is None else "%s skip %s" % (c, show(it[2][4][0]))
    if h == "agg" and it[1].endswith("ops::Range") and len(it[4]) == 2:
        return "%s..%s" % (show(it[4][0]), show(it[4][1]))
    if h == "call":
        n = _short_name(it[1])
        a = it[2]
        if n in ("enumerate", "copied", "cloned", "by_ref", "peekable", "fuse", "iter", "iter_mut", "into_iter", "collect") and len(a) == 1:
            return _count(a[0], depth + 1)
        if n == "skip" and len(a) == 2:
            c = _count(a[0], depth + 1)
            return None if c is None else "%s skip %s" % (c, show(a[1]))
        if n == "zip" and len(a) == 2:
            x, y = _count(a[0], depth + 1), _count(a[1], depth + 1)
            return None if x is None or y is None else "min(%s; %s)" % (x, y)
        if n == "chars" and len(a) == 1:
            return "0..len(chars(%s))" % show(a[0])
        return None
    if h == "index" and isinstance(it[2], tuple) and it[2][0] == "agg" and it[2][1].endswith("ops::Range") and len(it[2][4]) == 2:
        return "%s[%s..%s]" % (show(it[1]), show(it[2][4][0]), show(it[2][4][1]))
    if h in ("field", "arg", "index", "outerarg", "static", "named"):
        return "0..len(%s)" % show(it)
    return None


def _add(a, b):
    from .sym import mk_comm
    if a == const("int", 0):
        return b
    if b == const("int", 0):
        return a
    return mk_comm("add", a, b)


class Lockstep:
    """The iterators a loop advances, with the expressions they were created from."""

    def __init__(self, ctx, body, header):
        self.body = body
        self.header = header
        self.region = body.natural_loops().get(header, set())
        self.se = StaticEnv(body, ctx.f)
        self.iters = {}  # local -> initial iterator expression
        for bb in sorted(self.region):
            t = body.blocks[bb]["term"]
            if t["k"] != "call" or body.blocks[bb]["cleanup"]:
                continue
            d, r, fn = callee(t)
            if not (d == "std::iter::Iterator::next" or (r or "").endswith("::next")):
                continue
            a = t["args"][0] if t["args"] else None
            if a is None or a.get("k") not in ("copy", "move"):
                continue
            l = self._root(a["place"]["l"])
            if l is None or l in self.iters:
                continue
            init = self._initial(l)
            if init is not None:
                self.iters[l] = init
        # advanced exactly once per turn: one `next` call site per iterator in the region
        counts = {}
        for bb in sorted(self.region):
            t = body.blocks[bb]["term"]
            if t["k"] == "call" and not body.blocks[bb]["cleanup"]:
                d, r, fn = callee(t)
                if (d == "std::iter::Iterator::next" or (r or "").endswith("::next")) and t["args"] and t["args"][0].get("k") in ("copy", "move"):
                    l = self._root(t["args"][0]["place"]["l"])
                    counts[l] = counts.get(l, 0) + 1
        self.iters = {l: v for l, v in self.iters.items() if counts.get(l) == 1}
        self.induction = self._find_induction()
        # the driver: the iterator whose `next` every turn begins with (its exhaustion ends the loop)
        self.driver = None
        for bb in sorted(self.region):
            t = body.blocks[bb]["term"]
            if t["k"] == "call" and not body.blocks[bb]["cleanup"] and all(body.dominates(bb, x) or x == bb or x == header or body.dominates(x, bb) for x in self.region):
                d, r, fn = callee(t)
                if (d == "std::iter::Iterator::next" or (r or "").endswith("::next")) and t["args"] and t["args"][0].get("k") in ("copy", "move"):
                    l = self._root(t["args"][0]["place"]["l"])
                    if l in self.iters and all(body.dominates(bb, x) for x in self.region if x != header and not body.dominates(x, bb)):
                        self.driver = l
                        break

    def _find_induction(self):
        """Locals counted up by hand: `let mut i = e0; loop { ..uses of i..; i += c; }` - one definition before the
        loop, one inside it of the form i := i + c, which every use inside the loop precedes.  In turn k such a local
        holds e0 + c*k (c == 1 is what the crate uses)."""
        body, se = self.body, self.se
        out = {}
        for l, ds in se.defs.items():
            if len(ds) != 2 or any(k != "stmt" for k, _, _ in ds) or l in se.mut_borrowed or 1 <= l <= body.argc:
                continue
            inside = [d for d in ds if d[1] in self.region]
            outside = [d for d in ds if d[1] not in self.region]
            if len(inside) != 1 or len(outside) != 1:
                continue
            _, bi, si = inside[0]
            rv = body.blocks[bi]["stmts"][si]["rv"]
            # i = move (_t.0) with _t = AddWithOverflow(i, 1), or i = Add(i, 1)
            step = None
            if rv["k"] == "use" and rv["op"].get("k") in ("move", "copy") and rv["op"]["place"]["p"] and not isinstance(rv["op"]["place"]["p"][0], str):
                tl = rv["op"]["place"]["l"]
                tds = se.defs.get(tl, [])
                if len(tds) == 1 and tds[0][0] == "stmt":
                    rv2 = body.blocks[tds[0][1]]["stmts"][tds[0][2]]["rv"]
                    if rv2["k"] == "bin" and rv2["op"] in ("AddWithOverflow", "Add"):
                        step = rv2
            elif rv["k"] == "bin" and rv["op"] == "Add":
                step = rv
            if step is None:
                continue
            a, b_ = step["a"], step["b"]
            if not (a.get("k") in ("copy", "move") and not a["place"]["p"] and a["place"]["l"] == l and b_.get("k") == "const" and b_.get("int") == 1):
                continue
            # every other mention of the local inside the loop is in a block that dominates the increment
            import json as _json
            okk = True
            for x in self.region:
                if x == bi:
                    continue
                s = _json.dumps([st for st in body.blocks[x]["stmts"] if st.get("k") not in ("live", "dead")]) + _json.dumps(body.blocks[x]["term"])
                if ('"l": %d,' % l) in s or ('"l": %d}' % l) in s:
                    if not body.dominates(x, bi):
                        okk = False
            if not okk:
                continue
            _, b0, s0 = outside[0]
            try:
                v0 = se.ev.rvalue(body.blocks[b0]["stmts"][s0]["rv"], se.local_value)
            except Exception:
                continue
            out[l] = v0
        return out

    def _root(self, l):
        """the local whose address a `&mut` temporary holds (through reborrows)"""
        seen = set()
        while l not in seen:
            seen.add(l)
            ds = self.se.defs.get(l, [])
            if len(ds) != 1 or ds[0][0] != "stmt":
                return l
            rv = self.body.blocks[ds[0][1]]["stmts"][ds[0][2]]["rv"]
            if rv["k"] == "ref" and not rv["place"]["p"]:
                return rv["place"]["l"]
            if rv["k"] == "ref" and rv["place"]["p"] == ["deref"]:
                l = rv["place"]["l"]
                continue
            if rv["k"] == "use" and rv["op"].get("k") in ("copy", "move") and not rv["op"]["place"]["p"]:
                l = rv["op"]["place"]["l"]
                continue
            return l
        return l

    def _initial(self, l):
        """The expression the iterator local l was created from: its single definition outside the loop."""
        ds = self.se.defs.get(l, [])
        if len(ds) != 1 or ds[0][1] in self.region:
            return None
        kind, bi, si = ds[0]
        ev = self.se.ev
        # evaluate ignoring that the local is later borrowed mutably (we want its value at the loop's entry)
        def lookup(x, _busy=set()):
            dd = self.se.defs.get(x, [])
            if len(dd) == 1 and dd[0][0] in ("stmt", "call") and x not in _busy and not (1 <= x <= self.body.argc):
                _busy.add(x)
                try:
                    k2, b2, s2 = dd[0]
                    if k2 == "stmt":
                        return ev.rvalue(self.body.blocks[b2]["stmts"][s2]["rv"], lookup)
                    return ev.call(self.body.blocks[b2]["term"], lookup)[0]
                finally:
                    _busy.discard(x)
            return self.se.local_value(x)
        try:
            if kind == "stmt":
                return ev.rvalue(self.body.blocks[bi]["stmts"][si]["rv"], lookup)
            if kind == "call":
                return ev.call(self.body.blocks[bi]["term"], lookup)[0]
        except Exception:
            return None
        return None

    # ------------------------------------------------------------------ rewriting
    def _iter_of(self, arg):
        """iterator local an argument expression of `next` refers to in a region walk"""
        x = arg
        while isinstance(x, tuple) and x[0] in ("ref", "mut"):
            x = x[1]
        if isinstance(x, tuple) and x[0] in ("uninit", "var", "local"):
            if x[1] in self.iters:
                return x[1]
            r = self._root(x[1])  # a `&mut it` taken before the loop (the capture of a closure that became the loop)
            if r in self.iters:
                return r
        return None

    def rw(self, e):
        if not isinstance(e, tuple):
            return e
        if e and isinstance(e[0], str):
            if e[0] in ("uninit", "var") and len(e) == 2 and e[1] in self.induction:
                return _add(self.induction[e[1]], K)
            # the element an iterator of the loop yields in this turn
            if e[0] == "field" and isinstance(e[1], tuple) and e[1][0] == "downcast" and e[1][2] == "Some" and e[2] == "0":
                c = e[1][1]
                if isinstance(c, tuple) and c[0] == "call" and _short_name(c[1]) == "next" and len(c[2]) == 1:
                    l = self._iter_of(c[2][0])
                    if l is not None:
                        el = _elem(self.iters[l], K)
                        if el is not None:
                            return el
            # `it.next().unwrap()`
            if e[0] == "call" and _short_name(e[1]) == "unwrap" and len(e[2]) == 1:
                c = e[2][0]
                if isinstance(c, tuple) and c[0] == "call" and _short_name(c[1]) == "next" and len(c[2]) == 1:
                    l = self._iter_of(c[2][0])
                    if l is not None:
                        el = _elem(self.iters[l], K)
                        if el is not None:
                            return el
            # the Option such an iterator yields in this turn, as a whole (its exhaustion test, or a comparison with
            # Some(x)): Some(element k) while k is within the sequence
            if e[0] == "call" and _short_name(e[1]) == "next" and len(e[2]) == 1:
                l = self._iter_of(e[2][0])
                if l is not None:
                    el = _elem(self.iters[l], K)
                    cnt = _count(self.iters[l]) or show(self.iters[l])
                    if l != self.driver and el is not None:
                        return ("call", "within", (el, ("named", "<%s>" % cnt)))
                    return ("call", "next", (("named", "<%s>" % cnt),))
            e = tuple(self.rw(x) if isinstance(x, tuple) else x for x in e)
            if e[0] == "field" and isinstance(e[1], tuple) and e[1][0] == "tuple" and str(e[2]).isdigit() and int(e[2]) < len(e[1][1]):
                return e[1][1][int(e[2])]
            return e
        return tuple(self.rw(x) if isinstance(x, tuple) else x for x in e)

    def path(self, p):
        """A copy of region path p with guards, effects and result in turn-indexed form."""
        import copy
        q = copy.copy(p)
        q.guards = [(self.rw(a), o) for a, o in p.guards]
        q.effects = [tuple(self.rw(x) if isinstance(x, tuple) else x for x in ef) if ef[0] != "call" else (ef[0], ef[1], tuple(self.rw(x) for x in ef[2])) + tuple(ef[3:]) for ef in p.effects]
        q.ret = self.rw(p.ret) if p.ret is not None else None
        # what the locals hold at the end of the turn, in the same form
        q.env = {l: (self.rw(v) if isinstance(v, tuple) else v) for l, v in getattr(p, "env", {}).items()}
        return q

    def paths(self, ctx, **kw):
        return [self.path(p) for p in ctx.walk(self.body, start_bb=self.header, **kw).paths]


def _has_version(e):
    if not isinstance(e, tuple):
        return False
    if e and e[0] == "mut":
        return True
    return any(_has_version(x) for x in e if isinstance(x, tuple))


def _range_of(it, depth=0):
    """(first position, end position) of the positions an iterator expression runs over, as expressions, or None:
    a..b -> (a, b); x.iter().enumerate().skip(n) / x.iter().skip(n) -> (n, len(x))."""
    if not isinstance(it, tuple) or depth > 8:
        return None
    if it[0] == "ref":
        return _range_of(it[1], depth + 1)
    if it[0] == "agg" and it[1].endswith("ops::Range") and len(it[4]) == 2:
        return it[4][0], it[4][1]
    if it[0] == "call":
        n = _short_name(it[1])
        a = it[2]
        if n in ("enumerate", "copied", "cloned", "iter", "into_iter", "by_ref") and len(a) == 1:
            return _range_of(a[0], depth + 1)
        if n == "skip" and len(a) == 2:
            r = _range_of(a[0], depth + 1)
            if r is not None and r[0] == const("int", 0):
                return a[1], r[1]
        if n == "new" and it[1].endswith("RangeInclusive::new") and len(a) == 2:
            return a[0], _add(a[1], const("int", 1))  # a..=b runs over a..b+1
        return None
    if it[0] == "agg" and it[1].endswith("ops::RangeInclusive") and len(it[4]) >= 2:
        return it[4][0], _add(it[4][1], const("int", 1))
    if it[0] in ("field", "arg", "index"):
        from .sym import mk_len
        return const("int", 0), mk_len(it)
    return None


def first_turn(p):
    """A path walked from the function's entry meets each loop in its *first* turn, with the iterator still the
    expression it was created from.  What `next` yields there is element 0: `next(a..b) as Some.0` is a,
    `next(x.iter().enumerate().skip(n)) as Some.0` is (n, x[n]); the exhaustion test is rendered as
    `next(<a..b>)` with the positions the iterator runs over.  (Rules that take the first turn as representative of
    all - the scan loops of ReMatcher::matches - thereby read a range of indices and an enumerate/skip chain alike.)"""
    import copy
    zero = const("int", 0)

    def rw(e):
        if not isinstance(e, tuple):
            return e
        if e and isinstance(e[0], str):
            if e[0] == "field" and isinstance(e[1], tuple) and e[1][0] == "downcast" and e[1][2] == "Some" and e[2] == "0":
                c = e[1][1]
                if isinstance(c, tuple) and c[0] == "call" and _short_name(c[1]) == "next" and len(c[2]) == 1 and not _has_version(c[2][0]):
                    el = _elem(c[2][0], zero)
                    if el is not None and _range_of(c[2][0]) is not None:
                        return rw(el)
            if e[0] == "call" and _short_name(e[1]) == "next" and len(e[2]) == 1 and not _has_version(e[2][0]):
                r = _range_of(e[2][0])
                if r is not None:
                    return ("call", "next", (("named", "<%s..%s>" % (show(r[0]), show(r[1]))),))
            e = tuple(rw(x) if isinstance(x, tuple) else x for x in e)
            if e[0] == "field" and isinstance(e[1], tuple) and e[1][0] == "tuple" and str(e[2]).isdigit() and int(e[2]) < len(e[1][1]):
                return e[1][1][int(e[2])]
            return e
        return tuple(rw(x) if isinstance(x, tuple) else x for x in e)

    q = copy.copy(p)
    q.guards = [(rw(a), o) for a, o in p.guards]
    q.effects = [(ef[0], ef[1], tuple(rw(x) for x in ef[2])) + tuple(ef[3:]) if ef[0] == "call" else tuple(rw(x) if isinstance(x, tuple) else x for x in ef) for ef in p.effects]
    q.ret = rw(p.ret) if p.ret is not None else None
    return q


def accumulation(ctx, body):
    """For a function that is one accumulation loop over a sequence (a fold, however it is spelt): returns
    dict(seq=<positions the loop runs over>, init=<result when the sequence is empty>, acc=<accumulator local>,
    turns=[(guards, new accumulator value or None when unchanged)], result_is_acc=bool) with the turn in indexed form,
    or None when the function does not have that shape."""
    from .table import render, summarize, strip_ver
    loops = body.natural_loops()
    if len(loops) != 1:
        return None
    h = next(iter(loops))
    ls = Lockstep(ctx, body, h)
    rets = []
    turns = []
    seq = None
    acc = None
    for p in ls.paths(ctx):
        gs, r = summarize(p)
        gs = [strip_ver(g) for g in gs]
        drv = [g for g in gs if g.startswith("variant(next(<")]
        if not drv:
            return None
        seq = drv[0][len("variant(next(<"):drv[0].rindex(">))")]
        if p.end == "return":
            rets.append(strip_ver(r))
            continue
        if not p.end.startswith("loop"):
            return None
        turns.append((p, [g for g in gs if g not in drv]))
    import re as _re
    m = [_re.match(r"^uninit\((\d+)\)$", r) for r in rets]
    if not rets or not all(m) or len({x.group(1) for x in m}) != 1:
        return None
    acc = int(m[0].group(1))
    out_turns = []
    for p, gs in turns:
        v = p.env.get(acc, ("uninit", acc))
        nv = strip_ver(render(ls.rw(v)))
        out_turns.append((gs, None if nv == "uninit(%d)" % acc else nv.replace("uninit(%d)" % acc, "ACC")))
    init = None
    for p in ctx.walk(body, max_visits=1).paths:
        if p.end == "return" and p.ret is not None:
            g0 = [strip_ver(g) for g in summarize(p)[0]]
            if len(g0) == 1 and g0[0].endswith("=None"):
                init = strip_ver(render(p.ret))
    return {"seq": seq, "init": init, "acc": acc, "turns": out_turns}
