"""Character-predicate denotation (A8): fixed table of core predicates."""

WHITE_SPACE = [(9, 13), (32, 32), (0x85, 0x85), (0xA0, 0xA0), (0x1680, 0x1680), (0x2000, 0x200A), (0x2028, 0x2029), (0x202F, 0x202F), (0x205F, 0x205F), (0x3000, 0x3000)]

PREDS = {
    "is_ascii_whitespace": [(9, 10), (12, 13), (32, 32)],
    "char::is_ascii_whitespace": [(9, 10), (12, 13), (32, 32)],
    "is_whitespace": WHITE_SPACE,
    "char::is_whitespace": WHITE_SPACE,
    "is_ascii_digit": [(48, 57)],
    "char::is_ascii_digit": [(48, 57)],
    "is_ascii_alphabetic": [(65, 90), (97, 122)],
    "is_ascii_alphanumeric": [(48, 57), (65, 90), (97, 122)],
    "is_ascii_punctuation": [(33, 47), (58, 64), (91, 96), (123, 126)],
    "is_ascii_control": [(0, 31), (127, 127)],
    "is_ascii": [(0, 127)],
}


def pred_intervals(name):
    n = name.split("::")[-1]
    return PREDS.get(name) or PREDS.get(n)


def pred_on(name, cp):
    iv = pred_intervals(name)
    if iv is None:
        return None
    return any(a <= cp <= b for a, b in iv)
