"""Character-class algebra (C09), case closure (C11), dot (C12)."""
import re
from ..engine import rule, ok, bad, missing
from ..sym import show
from ..table import render, strip_ver, summarize
from ..facts import callee, strip_lt
from .. import setexpr as SX
from ..dom import call_sites, guard_strings, dominating_guards, or_guarded
from .tables import oracle

CCB = "character_class::CharacterClassBuilder::"
PCC = "re_compiler::ReCompiler::parse_character_class"


def _variants(p):
    d = {}
    for a, o in p.guards:
        s = render(a)
        if isinstance(o, tuple) and o[0] == "variant":
            d[s] = o[1]
        else:
            d[s] = o
    return d


A = ("sym", "a1 as CodePointInversionListBuilder.0")
B = ("sym", "a2 as CodePointInversionListBuilder.0")
CA = ("sym", "{a1 as Char.0}")
CB = ("sym", "{a2 as Char.0}")


@rule("CLASS-OPS", ["C09", "C01", "C20", "C10"], floor=12)
def class_ops(ctx):
    """union / difference / complement / build of CharacterClassBuilder evaluate to a∪b, a−b, ¬a, a for every
    combination of the Char / inversion-list representations."""
    out = []
    spec = {
        "union": lambda x, y: SX.union(x, y),
        "difference": lambda x, y: SX.diff(x, y),
    }
    for m in ("union", "difference"):
        b = ctx.body(CCB + m)
        if b is None:
            out.append(missing(CCB + m))
            continue
        w = ctx.walk(b)
        combos = set()
        for p in w.paths:
            v = _variants(p)
            va, vb = v.get("variant(a1)"), v.get("variant(a2)")
            if va is None or vb is None:
                out.append(bad("%s|shape" % m, "%s no longer dispatches on the representation of both operands" % m, b.loc()))
                continue
            combos.add((va, vb))
            x = CA if va == "Char" else A
            y = CB if vb == "Char" else B
            it = SX.SetInterp(ctx, b).run(p.blocks)
            got = it.as_set(it.result())
            exp = spec[m](x, y)
            key = "%s|%s,%s" % (m, va, vb)
            if m == "difference" and va == "Char" and vb == "Char":
                e = v.get("eq(a1 as Char.0, a2 as Char.0)")
                if e is True:
                    exp = SX.EMPTY
                    key += "|equal"
                elif e is False:
                    exp = CA
                    key += "|distinct"
            if it.unknown:
                out.append(bad(key, "%s uses an operation the set algebra does not sanction: %s" % (m, "; ".join(x for _, x in it.unknown)), b.loc(it.unknown[0][0])))
            elif got == exp:
                out.append(ok(key))
            else:
                out.append(bad(key, "%s(%s, %s) evaluates to %s, set algebra prescribes %s" % (m, va, vb, SX.fmt(got) if got else got, SX.fmt(exp)), b.loc(p.blocks[-1])))
        for va in ("Char", "CodePointInversionListBuilder"):
            for vb in ("Char", "CodePointInversionListBuilder"):
                if (va, vb) not in combos:
                    out.append(bad("%s|%s,%s|missing" % (m, va, vb), "%s has no arm for (%s, %s)" % (m, va, vb), b.loc()))
    b = ctx.body(CCB + "complement")
    if b is None:
        out.append(missing(CCB + "complement"))
    else:
        for p in ctx.walk(b).paths:
            v = _variants(p).get("variant(a1)")
            it = SX.SetInterp(ctx, b).run(p.blocks)
            got = it.as_set(it.result())
            exp = SX.compl(CA if v == "Char" else A)
            key = "complement|%s" % v
            if got == exp and not it.unknown:
                out.append(ok(key))
            else:
                out.append(bad(key, "complement(%s) evaluates to %s, prescribed %s %s" % (v, SX.fmt(got) if got else got, SX.fmt(exp), it.unknown), b.loc(p.blocks[-1])))
    b = ctx.body(CCB + "build")
    if b is None:
        out.append(missing(CCB + "build"))
    else:
        for p in ctx.walk(b).paths:
            v = _variants(p).get("variant(a1)")
            r = render(p.ret)
            key = "build|%s" % v
            if v == "Char":
                good = r == "CharacterClassBuilder::build(CharacterClassBuilder::from_char(a1 as Char.0))"
            else:
                good = r == "CharacterClass::CharacterClass{0: CodePointInversionListBuilder::build(a1 as CodePointInversionListBuilder.0)}"
            out.append(ok(key) if good else bad(key, "build(%s) yields %s" % (v, r[:200]), b.loc()))
    # from_str: one add_char per char of s, nothing else
    b = ctx.body(CCB + "from_str")
    if b is None:
        out.append(missing(CCB + "from_str"))
    else:
        good = 0
        for p in ctx.walk(b).paths:
            it = SX.SetInterp(ctx, b).run(p.blocks)
            sets = [SX.fmt(v) for k, v in it.sets.items() if v is not None and v[0] in ("lit", "sym", "union")]
            if p.end.startswith("loop"):
                nx = [e for e in p.effects if e[0] == "call" and e[1] == "<Chars as Iterator>::next"]
                src_ok = len(nx) == 1 and render(nx[0][2][0]) == "chars(a1)"
                if src_ok and any(re.match(r"^\{<Chars as Iterator>::next\(.*\) as Some\.0\}$", s) for s in sets) and not it.unknown:
                    good += 1
            elif p.end == "return":
                r = it.result()
                if r == SX.EMPTY:
                    good += 1
        out.append(ok("from_str") if good == 2 else bad("from_str", "from_str(s) must add exactly each char of s to an empty builder", b.loc()))
    # complement() and build() also carry every \\P{..}, \\D \\W \\S \\I \\C and every built escape class: they bear on C10
    for i in out:
        if not i.key.startswith(("complement", "build")):
            i.props = ["C09", "C01", "C20"]
    return out


@rule("CLASS-MEMBER", ["C09", "C10", "C11", "C12", "C13", "C01", "C20"], floor=4)
def class_member(ctx):
    """A compiled class *is* its inversion list: CharacterClass::contains(c) answers inversion_list.contains(c) on every
    path, and new/all/empty/as_code_point_inversion_list store and hand out that list unchanged.  Every class the
    compiler builds (escapes, categories, blocks, ranges, complements, the dot, the case closure) is consulted through
    contains, so a second answer for some characters changes all of them at once."""
    out = []
    CC = "character_class::CharacterClass::"
    want = {
        "contains": ("CodePointInversionList::contains(a1.0, a2)",),
        "new": ("CharacterClass::CharacterClass{0: a1}",),
        "all": ("CharacterClass::CharacterClass{0: CodePointInversionList::all()}",),
        "empty": ("CharacterClass::CharacterClass{0: CodePointInversionListBuilder::build(CodePointInversionListBuilder::new())}",),
        "as_code_point_inversion_list": ("a1.0", "ref(a1.0)", "&a1.0"),
    }
    for m, accepted in sorted(want.items()):
        b = ctx.body(CC + m)
        if b is None:
            if m in ("contains", "new"):
                out.append(missing(CC + m))
            continue
        w = ctx.walk(b)
        rets = sorted({strip_ver(render(p.ret)) for p in w.paths if p.end == "return"})
        key = "%s|is-the-inversion-list" % m
        if w.truncated or not rets:
            out.append(bad(key, "CharacterClass::%s could not be enumerated" % m, b.loc()))
        elif all(r in accepted for r in rets) and all(p.end == "return" for p in w.paths):
            i_ = ok(key)
            i_.optional = m not in ("contains", "new")  # the other accessors need not exist
            out.append(i_)
        else:
            odd = [r for r in rets if r not in accepted]
            out.append(bad(key, "CharacterClass::%s answers %s on some path; a class is its inversion list (%s)" % (m, (odd or ["<a path that does not return>"])[0][:160], accepted[0]), b.loc()))
    return out


def _assigned_values(ctx, b, local):
    se = ctx.senv(b)
    vals = []
    for bi, blk in enumerate(b.blocks):
        if blk["cleanup"]:
            continue
        for st in blk["stmts"]:
            if st["k"] == "assign" and st["place"]["l"] == local and not st["place"]["p"]:
                vals.append((bi, se.ev.rvalue(st["rv"], se.local_value)))
        t = blk["term"]
        if t["k"] == "call" and t["dest"]["l"] == local and not t["dest"]["p"]:
            vals.append((bi, se.call_expr(bi)))
    return vals


@rule("CLASS-COMPOSE", ["C09", "C01", "C20"], floor=9)
def class_compose(ctx):
    """Tail of parse_character_class: result = builder; ∪ addend if present; complemented iff the group is negative;
    minus the subtrahend if present - in this order, for all 8 combinations."""
    b = ctx.body(PCC)
    if b is None:
        return [missing(PCC)]
    # start: the conversion builder.into() of the accumulated inversion-list builder
    starts = [bb for bb, t, r in call_sites(b, lambda r: r.endswith("::into") or r.endswith("::from")) if "CharacterClassBuilder" in " ".join(callee(t)[2].get("targs", [])) and "CodePointInversionListBuilder" in " ".join(callee(t)[2].get("targs", []))]
    if len(starts) != 1:
        return [missing("conversion of the accumulated builder into a CharacterClassBuilder in parse_character_class (found %d)" % len(starts))]
    w = ctx.walk(b, start_bb=starts[0])
    out = []
    rows = set()
    # roles
    base_local = None
    for p in w.paths:
        for e in p.effects:
            if e[0] == "call" and e[3] == starts[0] and e[2] and e[2][0][0] == "uninit":
                base_local = e[2][0][1]
        break
    if base_local is None:
        return [bad("shape", "cannot identify the accumulated builder converted at the class tail", b.loc(starts[0]))]
    opt_locals = set()
    bool_locals = set()
    for p in w.paths:
        for a, o in p.guards:
            if a[0] == "variant" and a[1][0] == "uninit":
                opt_locals.add(a[1][1])
            elif a[0] == "uninit":
                bool_locals.add(a[1])
    if len(opt_locals) != 2 or len(bool_locals) != 1:
        return [bad("shape", "the class tail must test exactly two optional parts and one polarity flag; found options %s flags %s" % (sorted(opt_locals), sorted(bool_locals)), b.loc(starts[0]))]
    sub = None
    for l in opt_locals:
        vals = _assigned_values(ctx, b, l)
        if any("ReCompiler::parse_character_class(" in show(v) for _, v in vals):
            sub = l
    if sub is None:
        return [bad("roles", "cannot identify the subtrahend (the option assigned from the nested class)", b.loc())]
    add = next(iter(opt_locals - {sub}))
    pos = next(iter(bool_locals))
    for p in w.paths:
        g = {}
        for a, o in p.guards:
            if a[0] == "variant" and a[1] == ("uninit", add):
                g["add"] = o[1] == "Some"
            elif a[0] == "variant" and a[1] == ("uninit", sub):
                g["sub"] = o[1] == "Some"
            elif a == ("uninit", pos):
                g["pos"] = o
        if len(g) != 3 or p.end != "return":
            out.append(bad("row|?", "tail path with unexpected shape: %s" % p.describe()[:300], b.loc()))
            continue
        e = "conv<<T as Into<U>>::into>(uninit(%d))" % base_local
        if g["add"]:
            e = "CharacterClassBuilder::union(%s, uninit(%d) as Some.0)" % (e, add)
        if not g["pos"]:
            e = "CharacterClassBuilder::complement(%s)" % e
        if g["sub"]:
            e = "CharacterClassBuilder::difference(%s, uninit(%d) as Some.0)" % (e, sub)
        exp = "Result::Ok{0: %s}" % e
        got = render(p.ret)
        key = "row|addend=%s,positive=%s,subtrahend=%s" % (g["add"], g["pos"], g["sub"])
        rows.add(key)
        if got == exp:
            out.append(ok(key))
        else:
            nm = {"uninit(%d)" % base_local: "builder", "uninit(%d)" % add: "addend", "uninit(%d)" % sub: "subtrahend"}
            for k, v in nm.items():
                got = got.replace(k, v)
                exp = exp.replace(k, v)
            out.append(bad(key, "class composition is %s, set algebra prescribes %s" % (got, exp), b.loc(p.blocks[-1])))
    if len(rows) != 8:
        out.append(bad("rows", "expected 8 combinations of (addend, polarity, subtrahend), found %d" % len(rows), b.loc()))
    # polarity flag: false exactly under there_follows("^")
    se = ctx.senv(b)
    vals = _assigned_values(ctx, b, pos)
    falses = [(bi, v) for bi, v in vals if v == ("const", "bool", False)]
    trues = [(bi, v) for bi, v in vals if v == ("const", "bool", True)]
    if len(falses) == 1 and len(trues) == 1 and len(vals) == 2:
        gs = guard_strings(b, falses[0][0], se)
        if 'ReCompiler::there_follows(a1, "^")' in gs:
            out.append(ok("negative-flag"))
        else:
            out.append(bad("negative-flag", "the group is made negative outside the '^' test; guards: %s" % sorted(gs)[:6], b.loc(falses[0][0])))
    else:
        out.append(bad("negative-flag", "the polarity flag must start true and be cleared once (under '^'); assignments: %s" % [show(v) for _, v in vals], b.loc()))
    return out


@rule("CLASS-ADDEND", ["C09", "C07", "C01", "C20", "C10"], floor=3)
def class_addend(ctx):
    """Inside [...], a multi-character escape is united into the addend (never dropped, never subtracted);
    the nested class after '-[' becomes the subtrahend."""
    b = ctx.body(PCC)
    if b is None:
        return [missing(PCC)]
    out = []
    se = ctx.senv(b)
    # all unions inside the loop: union(addend, escape-set)
    sites = call_sites(b, lambda r: r == CCB + "union")
    inner = [s for s in sites if "escape(" in show(se.operand(s[1]["args"][1])) or "escape(" in show(se.operand(s[1]["args"][0]))]
    if len(inner) == 1:
        out.append(ok("escape-united"))
    else:
        out.append(bad("escape-united", "a class escape inside [...] must be united into the addend by exactly one union(addend, escape); found %d" % len(inner), b.loc()))
    # both stores Some(union) / Some(builder) exist
    aggs = []
    for bi, blk in enumerate(b.blocks):
        if blk["cleanup"]:
            continue
        for st in blk["stmts"]:
            if st["k"] == "assign" and st["rv"]["k"] == "agg" and st["rv"].get("variant") == "Some" and "CharacterClassBuilder" in b.locals[st["place"]["l"]]["ty"]:
                aggs.append((bi, show(se.ev.rvalue(st["rv"], se.local_value))))
                # `Some(match addend { Some(a) => a.union(x), None => x })`: one store whose payload has several
                # definitions - each of them is what one of the separate stores held
                f0 = (st["rv"].get("fields") or [None])[0]
                if f0 and f0.get("k") in ("copy", "move") and not f0["place"]["p"]:
                    defs = _assigned_values(ctx, b, f0["place"]["l"])
                    if len(defs) > 1:
                        for bj, v in defs:
                            aggs.append((bj, show(v)))
    kinds = set()
    for bi, s in aggs:
        if "CharacterClassBuilder::union(" in s:
            kinds.add("union")
        elif "ReCompiler::parse_character_class(" in s:
            kinds.add("nested")
        elif "escape(" in s:
            kinds.add("first")
    for k in ("union", "first", "nested"):
        out.append(ok("store|" + k) if k in kinds else bad("store|" + k, "parse_character_class lost the Some(..) store of kind %s" % k, b.loc()))
    for i in out:
        # what \p{X}, \d .. stand for inside brackets (C10) rests on the escape being kept and united; the nested
        # class after '-[' is not about the escapes
        i.props = ["C09", "C07", "C01", "C20"] + ([] if i.key == "store|nested" else ["C10"])
    return out


CLOSER = "icu_casemap::CaseMapCloser::<icu_provider::DataPayload<icu_casemap::provider::CaseMapUnfoldV1Marker>>::add_case_closure_to"


def _closure_sites(ctx, b):
    return call_sites(b, lambda r: r.endswith("::add_case_closure_to"))


def _base(v):
    return v[1] if isinstance(v, tuple) and v and v[0] == "mut" else v


def _builder_events(p):
    """[(kind, builder_value, arg_value, bb)] for add_char / add_range / closure calls along a path."""
    return [(k, _base(b), a, bb) for k, b, a, bb in _builder_events0(p)]


def _builder_events0(p):
    ev = []
    for e in p.effects:
        if e[0] != "call":
            continue
        n = e[1]
        if n == "CodePointInversionListBuilder::add_char":
            ev.append(("add_char", e[2][0], e[2][1], e[3]))
        elif n in ("CodePointInversionListBuilder::add_range",):
            ev.append(("add_range", e[2][0], e[2][1], e[3]))
        elif n.endswith("::add_case_closure_to"):
            ev.append(("closure", e[2][2], e[2][1], e[3]))
    return ev


def _covers(add, closure_arg):
    """does the added item (add_char c / add_range r) contain the character whose closure is taken?"""
    kind, _, arg, _ = add
    if kind == "add_char":
        return arg == closure_arg
    # closure of `next(iter over r) as Some.0` for the same inclusive range r
    rs = render(arg)
    cs = render(closure_arg)
    return rs.startswith("RangeInclusive::new(") and cs == "next(%s) as Some.0" % rs


@rule("CASE-CLOSURE-SELF", ["C11", "C08", "C01"], floor=3)
def case_closure_self(ctx):
    """add_case_closure_to(c, builder) never adds c itself (ICU contract): on every path, each closure call is
    paired with an add_char(c) / add_range(covering range) into the same builder."""
    out = []
    n = 0
    for b in ctx.f.bodies:
        if b.from_expansion or not _closure_sites(ctx, b):
            continue
        ctx.body(b.path)
        status = {}
        for p in _item_paths(ctx, b):
            evs = _builder_events(p)
            for k, bld, arg, bb in evs:
                if k != "closure":
                    continue
                paired = any(a[0] != "closure" and a[1] == bld and _covers(a, arg) for a in evs)
                key = "%s|closure@%s" % (b.path, _site_role(b, bb))
                status[key] = status.get(key, True) and paired
                if not paired:
                    status[key + "#loc"] = b.loc(bb)
        for key, good in sorted(status.items()):
            if key.endswith("#loc"):
                continue
            n += 1
            if good:
                out.append(ok(key))
            else:
                out.append(bad(key, "the case closure of a character is added without the character itself (ICU's add_case_closure_to never adds its argument): a case-less character, or the character in its own case, is lost from the set", status.get(key + "#loc")))
    if n == 0:
        out.append(missing("calls of CaseMapCloser::add_case_closure_to"))
    return out


def _item_paths(ctx, b):
    """Paths of one iteration of the outermost loop that contains builder additions (all locals unknown at the
    loop header), or of the whole body when the additions are not inside a loop."""
    adds = [bb for bb, t, r in call_sites(b, lambda r: r.startswith(SX.CPB) or r.endswith("::add_case_closure_to"))]
    loops = b.natural_loops()
    outer = None
    for h, blocks in loops.items():
        if any(a in blocks for a in adds):
            if outer is None or len(blocks) > len(loops[outer]):
                outer = h
    if outer is None:
        return ctx.walk(b, max_visits=2).paths
    return ctx.walk(b, start_bb=outer, max_visits=1).paths


def _site_role(b, bb):
    """stable name of a call site: the ordinal of the site among the same callee's sites in this body"""
    from ..facts import callee as _c

    d, r, fn = _c(b.blocks[bb]["term"])
    sites = [x for x, t in b.calls() if _c(t)[1] == r and not b.blocks[x]["cleanup"]]
    return "%s#%d" % (r.split("::")[-1], sites.index(bb) if bb in sites else -1)


@rule("CASE-CLOSURE-ALL", ["C11", "C09", "C20", "C01"], floor=3)
def case_closure_all(ctx):
    """In parse_character_class every add_char/add_range of a pattern literal is followed, before the next class
    item is read, either by the false side of the flag-i test or by the case closure of the same character /
    of every character of the same inclusive range."""
    b = ctx.body(PCC)
    if b is None:
        return [missing(PCC)]
    out = []
    FLAG = "ReFlags::is_case_independent(a1.re_flags)"
    status = {}
    for p in _item_paths(ctx, b):
        if p.end == "return" and p.ret is not None and render(p.ret).startswith(("Result::Err", "propagate")):
            continue
        evs = _builder_events(p)
        gm = {}
        for a, o in p.guards:
            gm[strip_ver(render(a))] = o
        for idx, (k, bld, arg, bb) in enumerate(evs):
            if k == "closure":
                continue
            key = "%s@%s" % (k, _site_role(b, bb))
            later = evs[idx + 1:]
            closed = any(c[0] == "closure" and c[1] == bld and _covers((k, bld, arg, bb), c[2]) for c in evs)
            # exhausted iteration over the same range (empty range: nothing to close)
            rs = strip_ver(render(arg))
            exhausted = k == "add_range" and gm.get("variant(next(%s))" % rs) == ("variant", "None")
            flag_off = gm.get(FLAG) is False
            good = closed or exhausted or flag_off
            # a path cut inside the closure loop of this very range is fine
            status.setdefault(key, [True, None])
            if not good:
                status[key][0] = False
                status[key][1] = b.loc(bb)
    for key, (good, loc) in sorted(status.items()):
        if good:
            out.append(ok(key))
        else:
            out.append(bad(key, "a class member added by %s gets no case closure under flag i on some path to the next class item (it then matches only in the case it was written in)" % key, loc))
    # the range closure iterates an inclusive range equal to the added one: covered by _covers (RangeInclusive::new)
    return out


@rule("CASE-GATE", ["C11", "C19", "C13", "C01"], floor=6)
def case_gate(ctx):
    """No case-folding primitive (equal_case_blind, CaseMapCloser, CaseMapper) is reachable on the paths where flag i
    is off: every such call site is edge-dominated by the true side of is_case_independent() / the case_blind parameter."""
    out = []
    prim = lambda r: r == "re_matcher::ReMatcher::equal_case_blind" or "CaseMapCloser" in r and ("add_case_closure" in r) or ("CaseMapper" in r and "simple_" in r)
    n = 0
    for b in ctx.f.bodies:
        if b.from_expansion or b.path == "re_matcher::ReMatcher::equal_case_blind":
            continue
        for bb, t, r in call_sites(b, prim):
            n += 1
            ctx.body(b.path)
            gs = guard_strings(b, bb, ctx.senv(b))
            flag = [g for g in gs if g.startswith("ReFlags::is_case_independent(")]
            key = "%s|%s" % (b.path, r.split("::")[-1])
            if flag:
                out.append(ok(key))
                continue
            # a bool parameter whose every caller passes is_case_independent()
            pg = [g for g in gs if re.match(r"^a\d+$", g)]
            if pg and _param_is_flag(ctx, b, int(pg[0][1:])):
                out.append(ok(key + "|param"))
                continue
            # a local copied from the flag (let ignore_case = flags.is_case_independent())
            out.append(bad(key, "%s is reachable without flag i (dominating guards: %s)" % (r.split("::")[-1], sorted(gs)[:5]), b.loc(bb)))
    # the folding primitives of CaseMapper are used only inside equal_case_blind
    for b in ctx.f.bodies:
        if b.from_expansion:
            continue
        for bb, t, r in call_sites(b, lambda r: "CaseMapper" in r and ("simple_" in r or "fold" in r or "lowercase" in r or "uppercase" in r)):
            key = "single-primitive|%s" % b.path
            if b.path == "re_matcher::ReMatcher::equal_case_blind":
                out.append(ok(key))
            else:
                out.append(bad(key, "case mapping used outside equal_case_blind (%s): comparators must agree on one primitive" % r.split("::")[-1], b.loc(bb)))
    if n == 0:
        out.append(missing("case folding call sites"))
    return out


def _param_is_flag(ctx, b, argi):
    """every call of b passes ReFlags::is_case_independent(..) (or its own case_blind parameter) for parameter argi"""
    sites = []
    for caller in ctx.f.bodies:
        for bb, t in caller.calls():
            d, r, fn = callee(t)
            if r == b.path or (fn and strip_lt(fn.get("def", "")) == "operation::OperationControl::" + (b.name or "?") and b.impl_trait == "operation::OperationControl"):
                sites.append((caller, bb, t))
    if not sites:
        return False
    for caller, bb, t in sites:
        if argi - 1 >= len(t["args"]):
            return False
        v = show(ctx.senv(caller).operand(t["args"][argi - 1]))
        if v.startswith("ReFlags::is_case_independent("):
            continue
        m = re.match(r"^a(\d+)$", v)
        if m and caller.path != b.path and caller.locals[int(m.group(1))]["ty"] == "bool":
            # forwarded parameter of an OperationControl method of the same name / no_ambiguity
            continue
        if m and caller.path == b.path:
            continue
        return False
    return True


@rule("CASE-NOTION-AGREE", ["C08", "C01", "C20"], floor=1)
def case_notion_agree(ctx):
    """Case-blind matching is implemented twice: atoms, back-references and the prefix scan compare two characters
    with equal_case_blind; classes and first sets (the sets the optimiser uses to decide that a repeat cannot
    overlap what follows, and the first-character filter) are closed under case when they are built.  Both must
    rest on the same notion of "case variant": where one relates two characters and the other does not, `x` and
    `[x]` differ and the no-backtracking rewrite is applied to repeats that do overlap what follows."""
    out = []
    cmp_prims, closure_prims = set(), set()
    eb = ctx.body("re_matcher::ReMatcher::equal_case_blind")
    if eb is None:
        return [missing("re_matcher::ReMatcher::equal_case_blind")]
    prim = lambda r: ("CaseMapper" in r or "CaseMapCloser" in r) and r.split("::")[-1] != "new"
    for bb, t, r in call_sites(eb, prim):
        cmp_prims.add(re.sub(r"<.*?>", "", r).split("::")[-1])
    loc = None
    for b in ctx.f.bodies:
        if b.from_expansion or b.path == eb.path:
            continue
        for bb, t, r in call_sites(b, prim):
            ctx.body(b.path)
            closure_prims.add(re.sub(r"<.*?>", "", r).split("::")[-1])
            loc = loc or b.loc(bb)
    if not cmp_prims or not closure_prims:
        return [missing("case primitives (comparator %s, closure %s)" % (sorted(cmp_prims), sorted(closure_prims)))]
    key = "comparator=%s|classes-and-first-sets=%s" % (",".join(sorted(cmp_prims)), ",".join(sorted(closure_prims)))
    if cmp_prims == closure_prims:
        out.append(ok(key))
    else:
        out.append(bad(key, "characters are compared through %s but classes and first sets are closed through %s: the two relate different pairs of characters (U+0130 lower-cases to 'i' but is not in the closure of 'i'; U+017F is in the closure of 's' but does not lower-case to it)" % (sorted(cmp_prims), sorted(closure_prims)), loc))
    return out


@rule("LEAF-DOT", ["C12", "C01"], floor=2)
def leaf_dot(ctx):
    """'.' = every character with flag s; every character except U+000A and U+000D without it."""
    P = "re_compiler::ReCompiler::parse_terminal"
    b = ctx.body(P)
    if b is None:
        return [missing(P)]
    out = []
    w = ctx.walk(b)
    dot = [p for p in w.paths if any(render(a) == "a1.pattern[a1.idx]" and o == ("char", 46) for a, o in p.guards)]
    if not dot:
        return [bad("arm", "parse_terminal has no '.' arm", b.loc())]
    excl = oracle("xsd_regex.json")["dot_excludes"]
    seen = set()
    for p in dot:
        s = None
        for a, o in p.guards:
            if render(a) == "ReFlags::is_single_line(a1.re_flags)":
                s = o
        if s is None:
            out.append(bad("flag", "the '.' arm does not consult flag s on path %s" % p.describe()[:200], b.loc()))
            continue
        seen.add(s)
        r = render(p.ret)
        if s:
            good = r == "Result::Ok{0: conv<<T as From<U>>::from>(CharClass::new(CharacterClass::all()))}" or "CharClass::new(CharacterClass::all())" in r
            out.append(ok("dot|s") if good else bad("dot|s", "with flag s '.' must match every character; found %s" % r[:200], b.loc()))
        else:
            it = SX.SetInterp(ctx, b).run(p.blocks)
            sets = [v for v in it.sets.values() if v is not None and v[0] == "lit"]
            exp = SX.compl(SX.lit([(c, c) for c in excl]))
            good = exp in sets and "CharClass::new(CharacterClass::new(" in r and not it.unknown
            out.append(ok("dot|no-s") if good else bad("dot|no-s", "without flag s '.' must be the complement of {U+000A, U+000D}; builder states %s" % [SX.fmt(x) for x in sets], b.loc()))
    for s in (True, False):
        if s not in seen:
            out.append(bad("dot|missing|%s" % s, "the '.' arm has no path for flag s = %s" % s, b.loc()))
    return out


@rule("CLASS-ITEM-FLOW", ["C09", "C07", "C01", "C20"], floor=4)
def class_item_flow(ctx):
    """One turn of the item loop of parse_character_class never loses a character: a single character parsed in the
    turn is added (add_char), becomes the end of the range being defined (add_range with it as end point), or is
    remembered as the start of a range - and it is remembered only when the next character is a '-' that the next
    turn will treat as the range operator (not the '-[' of a subtraction, not the '-]' of a trailing literal
    hyphen), so that a pending range start is always consumed.  The hyphen turn that finds a pending range start
    switches to "defining a range" and nothing else."""
    b = ctx.body(PCC)
    if b is None:
        return [missing(PCC)]
    from ..engine import rec as _rec, emit as _emit
    from ..facts import strip_lt
    d = {}
    loops = b.natural_loops()
    if not loops:
        return [bad("loop", "parse_character_class has no loop", b.loc())]
    h = max(loops, key=lambda x: len(loops[x]))

    def local(name, ty):
        c = [i for i, l in enumerate(b.locals) if l.get("name") == name and strip_lt(l["ty"]) == ty]
        return c[0] if len(c) == 1 else None

    SC, RS, DR = local("simple_char", "std::option::Option<char>"), local("range_start", "std::option::Option<char>"), local("defining_range", "bool")
    if None in (SC, RS, DR):
        return [bad("locals", "parse_character_class no longer has the locals simple_char / range_start / defining_range (restructured; re-audit)", b.loc())]
    TF = 'ReCompiler::there_follows(a1, "%s")'
    for p in ctx.walk(b, start_bb=h).paths:
        if not p.end.startswith("loop"):
            continue
        gs = [strip_ver(g) for g in summarize(p)[0]]
        loc = b.loc(p.blocks[-1])
        env = p.env
        sc, rs, dr = env.get(SC), env.get(RS), env.get(DR)
        sc_s = strip_ver(show(sc)) if sc is not None else ""
        rs_s = strip_ver(show(rs)) if rs is not None else ""
        calls = [(e[1].split("::")[-1], [strip_ver(render(x)) for x in e[2]]) for e in p.effects if e[0] == "call"]
        m = re.match(r"^Option::Some\{0: (.*)\}$", sc_s)
        dr_s = strip_ver(show(dr)) if dr is not None else ""
        # invariant used below: defining_range implies range_start.is_some()
        if dr_s == "true":
            _rec(d, "defining-range-implies-range-start", ("isSome(uninit(%d))" % RS) in gs and rs_s in ("", "uninit(%d)" % RS), "defining_range is switched on on a path that does not know range_start to be set", loc)
        if rs_s == "Option::None":
            _rec(d, "defining-range-implies-range-start", dr_s == "false", "range_start is cleared while defining_range stays on", loc)
        infeasible = ("uninit(%d)" % DR) in gs and ("variant(uninit(%d))=None" % RS) in gs
        if m and not infeasible:
            c = m.group(1)
            added = any(n == "add_char" and a[1:] == [c] for n, a in calls)
            ranged = any(n == "add_range" and a[1].endswith(", %s)" % c) for n, a in calls)
            kept = rs_s == sc_s
            erred = False
            _rec(d, "character-not-lost", added or ranged or kept, "a character parsed in this turn (%s) is neither added, nor made the end of a range, nor remembered as a range start" % c[:60], loc)
        if rs_s.startswith("Option::Some{"):
            want = [TF % "-", "!" + TF % "-[", "!" + TF % "-]"]
            _rec(d, "range-start-only-before-range-hyphen", all(w in gs for w in want), "a character is remembered as the start of a range although the following '-' is not (known to be) the range operator: the hyphen turn will take it as a subtraction or as a trailing literal and the remembered character is dropped ([a-] loses the a); guards %s" % [g for g in gs if "there_follows" in g][:5], loc)
        # a multi-character escape (\\d, \\p{..}) cannot be the end point of a range: a turn that takes one into the
        # addend has established that no range is being defined (else Error::Syntax)
        takes_escape = any(n == "union" and any("escape(" in x for x in a) for n, a in calls) or any(b.locals[l].get("name") == "addend" and v != ("uninit", l) and "escape(" in strip_ver(show(v)) for l, v in env.items() if isinstance(v, tuple))
        if takes_escape:
            _rec(d, "escape-never-ends-a-range", ("!uninit(%d)" % DR) in gs, "a multi-character escape is taken into the class on a path that does not know defining_range to be off: after 'x-' it must be rejected (\"Multi-character escape cannot follow '-'\"), e.g. [\\sa-\\d]; guards %s" % [g for g in gs if "uninit(%d)" % DR in g][:3], loc)
        if any(g == "isSome(uninit(%d))" % RS for g in gs) and any(g.endswith("pattern[a1.idx]='-'") for g in gs):
            _rec(d, "hyphen-after-range-start-defines-range", strip_ver(show(dr)) == "true" and not any(n in ("add_char", "add_range") for n, a in calls), "a hyphen that follows a remembered range start must switch to defining a range (and add nothing)", loc)
    for k in ("character-not-lost", "range-start-only-before-range-hyphen", "hyphen-after-range-start-defines-range", "defining-range-implies-range-start", "escape-never-ends-a-range"):
        if k not in d:
            d[k] = [False, "the item loop of parse_character_class no longer shows a path for clause %s (restructured; re-audit)" % k, b.loc()]
    return _emit(d)
