"""Panic-site inventory (A9), RefCell guard scopes (A11), error discipline: C05."""
import json, os, re
from ..engine import rule, ok, bad, missing, VERIF
from ..table import render, strip_ver
from ..sym import show, subexprs, StaticEnv
from ..facts import callee, strip_lt
from ..dom import call_sites, guard_strings
from ..callgraph import API_ROOTS

MAY_PANIC_CALLS = [
    (re.compile(r"^std::option::Option::<.*>::(unwrap|expect)$"), "unwrap"),
    (re.compile(r"^std::result::Result::<.*>::(unwrap|expect|unwrap_err|expect_err)$"), "unwrap"),
    (re.compile(r"^<.* as std::ops::Index(Mut)?<.*>>::index(_mut)?$"), "index"),
    (re.compile(r"^std::vec::Vec::<.*>::(remove|insert|swap_remove|drain|split_off|truncate_front)$"), "vecop"),
    (re.compile(r"^std::slice::<impl \[.*\]>::(split_at|split_at_mut|copy_from_slice|swap|chunks|windows)$"), "sliceop"),
    (re.compile(r"^std::cell::RefCell::<.*>::(borrow|borrow_mut)$"), "refcell"),
    (re.compile(r"^(core|std)::panicking::"), "panic"),
    (re.compile(r"^std::rt::(begin_panic|panic_fmt)"), "panic"),
    (re.compile(r"^std::char::from_digit$"), "from_digit"),
    # allocations sized by a value: "capacity overflow" / allocation failure when the size is a magnitude from the
    # pattern (a quantifier bound) rather than something bounded by the lengths of pattern and input
    (re.compile(r"^(std|alloc)::vec::Vec::<.*>::(with_capacity|reserve|reserve_exact|resize)$"), "alloc"),
    (re.compile(r"^(std|alloc)::vec::from_elem$"), "alloc"),
    (re.compile(r"^(std|alloc)::string::String::(with_capacity|reserve)$"), "alloc"),
    (re.compile(r"^std::collections::(HashMap|HashSet|VecDeque)::<.*>::(with_capacity|reserve)$"), "alloc"),
    (re.compile(r"^std::collections::HashMap::<.*> as std::ops::Index"), "index"),
    (re.compile(r"^std::iter::Iterator::step_by$"), "step_by"),
    # integer arithmetic done inside the standard library on behalf of this crate: `sum`/`product` inherit the
    # caller's overflow checks, the operator traits on references (`&a + b`) are checked like the plain operators
    (re.compile(r"^std::iter::Iterator::(sum|product)$"), "arith"),
    (re.compile(r"^<.* as std::iter::(Sum|Product)(<.*>)?>::(sum|product)$"), "arith"),
    (re.compile(r"^<&?'?\w* ?(usize|isize|u\d+|i\d+) as std::ops::(Add|Sub|Mul|Neg|AddAssign|SubAssign|MulAssign)(<.*>)?>::\w+$"), "arith"),
]

TAINT_FIELDS = {"bracket_min", "bracket_max", "min", "max"}
TAINT_CALLS = ("get_match_length", "get_minimum_match_length")


def classify_call(r):
    for rx, kind in MAY_PANIC_CALLS:
        if rx.match(r):
            return kind
    return None


def tainted(e):
    """magnitude taint: quantifier bounds, lengths derived from them, usize::MAX"""
    for x in subexprs(e):
        if x[0] == "field" and x[2] in TAINT_FIELDS:
            return True
        if x[0] == "field" and x[2] == "len" and x[1][0] in ("arg", "mut") and False:
            return True
        if x[0] == "call" and any(n in x[1] for n in TAINT_CALLS):
            return True
        if x[0] == "const" and x[1] == "int" and isinstance(x[2], int) and x[2] >= 2 ** 62:
            return True
    return False


def _mentions_arg(e, i):
    return any(x == ("arg", i) for x in subexprs(e))


def _pos_bounded(g):
    """a3 (the position) was compared with the length of the input on this path with the outcome position <= len"""
    for a, o in g.items():
        if a[0] == "lt":
            l, r = a[1], a[2]
            if l == ("arg", 3) and r[0] == "len" and o is True:
                return True
            if r == ("arg", 3) and l[0] == "len" and o is False:
                return True
    return False


def _len_aliases(ln):
    """len(X.pattern) is mirrored by the field X.len of ReCompiler (alias validated by X-STRIP-GATE / FLAG-Q-XPATH)."""
    out = [ln]
    if ln[0] == "len" and ln[1][0] == "field" and ln[1][2] == "pattern":
        out.append(("field", ln[1][1], "len"))
    return out


def _is_conv_of_length(e):
    if e[0] == "cast":
        return True
    if e[0] == "call" and e[1].endswith("::unwrap") and e[2] and e[2][0][0] == "call" and ("try_into" in e[2][0][1] or e[2][0][1].split("::")[-1] == "try_from"):
        return True
    return False


_VNUM = re.compile(r"\bv\d+\b")


def _static_key(ctx, body, bb, kind):
    """Stable shape key of a site: kind + flow-insensitive operand expressions (MIR local numbers erased)."""
    se = ctx.senv(body)
    t = body.blocks[bb]["term"]
    if t["k"] == "assert":
        ops = [_VNUM.sub("v", strip_ver(show(se.operand(o)))) for o in t["ops"]]
        ty = ""
        if t["kind"].startswith("Overflow") and t["ops"]:
            # the operand type is part of the shape: the same subtraction on an i32 and on a usize are different sites
            o0 = t["ops"][0]
            if o0.get("k") == "const":
                o0 = t["ops"][1] if len(t["ops"]) > 1 else o0
            if o0.get("k") == "const":
                ty = strip_lt(o0.get("ty", ""))
            elif o0.get("k") in ("copy", "move"):
                pl = o0["place"]
                ty = strip_lt(pl["p"][-1].get("ty", "")) if pl["p"] and isinstance(pl["p"][-1], dict) and pl["p"][-1].get("ty") else strip_lt(body.locals[pl["l"]]["ty"]) if not pl["p"] else ""
            ty = "<%s>" % ty if ty else ""
        return "%s%s(%s)" % (t["kind"], ty, ", ".join(o[:120] for o in ops))
    d, r, fn = callee(t)
    args = [_VNUM.sub("v", strip_ver(show(se.operand(a)))) for a in t["args"]]
    return "%s:%s(%s)" % (kind, r.split("::")[-1] if r else "?", ", ".join(a[:90] for a in args))


class SiteScan:
    """Per body: which panic-capable sites are discharged on every visiting path."""

    def __init__(self, ctx, body):
        self.ctx = ctx
        self.body = body
        self.sites = {}  # bb -> {"kind":..., "visits": n, "undischarged": n, "why": str}
        self._is_matches_iter = body.impl_trait == "operation::OperationControl" and body.name == "matches_iter"
        self._collect_sites()
        self._walk()
        self._static_fallback()

    def _collect_sites(self):
        b = self.body
        for bb, blk in enumerate(b.blocks):
            if blk["cleanup"]:
                continue
            t = blk["term"]
            if t["k"] == "assert":
                if t["kind"] in ("NullPointerDereference", "MisalignedPointerDereference", "InvalidEnumConstruction"):
                    continue
                if t.get("exp") and t["kind"] == "Other":
                    continue
                self.sites[bb] = {"kind": t["kind"], "visits": 0, "undis": 0, "why": ""}
            elif t["k"] == "call":
                d, r, fn = callee(t)
                if r is None:
                    continue
                k = classify_call(r)
                if k:
                    self.sites[bb] = {"kind": k, "visits": 0, "undis": 0, "why": "", "callee": r}

    def _guards(self, path):
        g = {}
        for a, o in path.guards:
            g[a] = o
        return g

    def _on_term(self, bb, t, get, path, st):
        s = self.sites.get(bb)
        if s is None:
            return
        s["visits"] += 1
        ev = self._ev
        g = self._guards(path)
        good, why = self._discharge(bb, t, get, g, s, st)
        if not good:
            s["undis"] += 1
            if not s["why"]:
                s["why"] = why

    def _discharge(self, bb, t, get, g, s, st):
        ev = self._ev
        from ..sym import mk_lt, mk_eq, substitute, const

        def val(o):
            v = ev.operand(o, get)
            if st["subst"]:
                v = substitute(v, st["subst"])
            return v

        kind = s["kind"]
        if t["k"] == "assert":
            ops = [val(o) for o in t["ops"]]
            if kind == "BoundsCheck":
                ln, ix = ops
                if any(g.get(("lt", ix, l2)) is True for l2 in _len_aliases(ln)):
                    return True, ""
                if ix[0] == "const" and ln[0] == "const" and ix[2] < ln[2]:
                    return True, ""
                return False, "no dominating test %s < %s" % (show(ix), show(ln))
            if kind.startswith("Overflow:Add"):
                if any(tainted(o) for o in ops):
                    return False, "addition on a magnitude-tainted operand (quantifier bound / derived length)"
                if self._is_matches_iter and any(_mentions_arg(o, 3) for o in ops) and not _pos_bounded(g):
                    return False, "addition on the position parameter of matches_iter without a preceding test against the input length (positions are at most len(search) only by the invariant POSITION-RANGE)"
                return True, ""
            if kind.startswith("Overflow:Mul"):
                if any(tainted(o) for o in ops):
                    return False, "multiplication on a magnitude-tainted operand (quantifier bound / derived length)"
                return True, ""
            if kind.startswith("Overflow:Sub"):
                a, b_ = ops
                if g.get(("lt", a, b_)) is False:
                    return True, ""
                if g.get(("lt", b_, a)) is True:
                    return True, ""
                if b_ == ("const", "int", 1):
                    if g.get(mk_eq(a, const("int", 0))) is False or g.get(("lt", const("int", 0), a)) is True:
                        return True, ""
                    # a > k for a constant k>=0
                    for ga, go in g.items():
                        if ga[0] == "lt" and ga[2] == a and ga[1][0] == "const" and go is True:
                            return True, ""
                        # the catch-all arm of a `match a { 0 => .., 1 => .., _ => .. }`: a is not 0
                        if ga == a and isinstance(go, tuple) and go[0] == "other" and any(x == ("val", 0) for x in go[1]):
                            return True, ""
                if a[0] == "const" and b_[0] == "const" and a[2] >= b_[2]:
                    return True, ""
                # (c as usize) - K with c confined from below by comparisons on this path (a range pattern 'K'..=..)
                if a[0] == "cast" and b_[0] == "const" and isinstance(b_[2], int):
                    x = a[2] if len(a) > 2 else None
                    for ga, go in g.items():
                        if ga[0] == "lt" and x is not None:
                            if ga[1] == x and ga[2][0] == "const" and isinstance(ga[2][2], int) and go is False and ga[2][2] >= b_[2]:
                                return True, ""
                            if ga[2] == x and ga[1][0] == "const" and isinstance(ga[1][2], int) and go is True and ga[1][2] + 1 >= b_[2]:
                                return True, ""
                # (c as usize) - K under is_ascii_digit(c): an ASCII digit is at least '0' = 48
                if a[0] == "cast" and b_[0] == "const" and isinstance(b_[2], int) and b_[2] <= 48:
                    x = a[2] if len(a) > 2 else None
                    for ga, go in g.items():
                        if go is True and ga[0] == "call" and ga[1].endswith("is_ascii_digit") and ga[2] and (ga[2][0] == x or ga[2][0] == ("ref", x)):
                            return True, ""
                # a = x + c, b = c' with c >= c'
                if a[0] == "add" and a[1][0] == "const" and b_[0] == "const" and a[1][2] >= b_[2]:
                    return True, ""
                return False, "no dominating test %s >= %s" % (show(a), show(b_))
            if kind == "OverflowNeg":
                if not tainted(ops[0]) and _is_conv_of_length(ops[0]):
                    return True, ""
                return False, "negation of %s" % show(ops[0])[:60]
            return False, kind
        args = [val(a) for a in t["args"]]
        if kind == "index":
            v, i = args[0], args[1]
            d, r, fn = callee(t)
            targs = " ".join(fn.get("targs", []))
            # the position a bisection of the same slice answered: binary_search*(v, ..) as Ok.0 is an index of v,
            # partition_point(v, ..) is at most len(v)
            sv_, si_ = strip_ver(show(v)), strip_ver(show(i))
            if re.match(r"^binary_search(?:_by|_by_key)?\(%s, .*\) as Ok\.0$" % re.escape(sv_), si_):
                return True, ""
            if re.match(r"^RangeTo::RangeTo\{end: partition_point\(%s, .*\)\}$" % re.escape(sv_), si_):
                return True, ""
            if "Range" in targs:
                # v[lo..lo + n] with lo + n <= len(v) established on this path (n is a length, hence lo <= lo + n)
                if i[0] == "agg" and i[2] == "Range" and len(i[4]) == 2:
                    lo, hi = i[4]
                    if hi[0] == "add" and lo in hi[1:]:  # hi = lo + n with an unsigned n: lo <= hi; hi <= len(v) is the guard
                        if any(g.get(("lt", l2, hi)) is False for l2 in _len_aliases(("len", v))):
                            return True, ""
                        # lo drawn from a range that ends at len(v) + 1 - n: lo < len(v) + 1 - n, hence lo + n <= len(v)
                        n_ = [x for x in hi[1:] if x != lo]
                        sl, sv, sn = strip_ver(show(lo)), strip_ver(show(v)), strip_ver(show(n_[0])) if n_ else ""
                        if n_ and re.match(r"^next\(Range::Range\{start: .*, end: sub\(add\(1, len\(%s\)\), %s\)\}\) as Some\.0$" % (re.escape(sv), re.escape(sn)), sl):
                            return True, ""
                return False, "range index %s" % show(i)[:80]
            if any(g.get(("lt", i, l2)) is True for l2 in _len_aliases(("len", v))):
                return True, ""
            if v[0] == "vec" and i[0] == "const" and i[2] < len(v[1]):
                return True, ""
            return False, "no dominating test %s < len(%s)" % (show(i)[:60], show(v)[:40])
        if kind == "unwrap":
            x = args[0]
            # D-f: usize<->isize conversion of an untainted length / position (assumption: lengths <= isize::MAX/4)
            if x[0] == "call" and (x[1] in ("<T as TryInto<U>>::try_into",) or x[1].split("::")[-1] == "try_from") and not tainted(x):
                return True, ""
            for ga, go in g.items():
                if ga == ("variant", x) and go in (("variant", "Some"), ("variant", "Ok")):
                    return True, ""
                if ga == ("is", x, "Some") and go is True:
                    return True, ""
            # last_mut().unwrap() / last().unwrap() / first().unwrap() under a non-empty test of the same vector
            if x[0] == "call" and x[1].split("::")[-1] in ("last", "last_mut", "first", "first_mut", "pop") and x[2]:
                v = x[2][0]
                e0 = mk_eq(("len", v), const("int", 0))
                if g.get(e0) is False:
                    return True, ""
                # ... or under a test that the vector has exactly / at least k >= 1 elements
                for ga, go in g.items():
                    if go is True and ga[0] == "eq" and any(strip_ver(show(y)) == strip_ver(show(("len", v))) for y in ga[1:]) and any(y[0] == "const" and isinstance(y[2], int) and y[2] >= 1 for y in ga[1:]):
                        return True, ""
            return False, "unwrap of %s without a dominating Some/Ok test" % show(x)[:80]
        if kind == "arith":
            if any(tainted(a) for a in args) or any("closure" in show(a) or "Iterator::map" in show(a) for a in args):
                return False, "integer arithmetic delegated to the standard library (overflow-checked like the caller) on operands that are not known to be small"
            d_, r_, fn_ = callee(t)
            if r_.endswith(("::sum", "::product")):
                return False, "sum/product of an iterator: overflow-checked like the caller; the elements are not known to be small"
            return True, ""
        if kind == "alloc":
            d_, r_, fn_ = callee(t)
            m_ = r_.split("::")[-1]
            size = args[0] if m_ == "with_capacity" else (args[1] if len(args) > 1 else None)
            if size is not None and tainted(size):
                return False, "an allocation sized by a quantifier bound (%s): a huge count in the pattern makes the allocation itself panic ('capacity overflow') or exhaust memory" % show(size)[:80]
            return True, ""
        if kind == "refcell":
            return True, ""  # decided by BORROW-SCOPE
        if kind == "vecop":
            d, r, fn = callee(t)
            m = r.split("::")[-1]
            v, i = args[0], args[1]
            if m == "remove":
                if any(g.get(("lt", i, l2)) is True for l2 in _len_aliases(("len", v))):
                    return True, ""
                if v[0] == "vec" and i[0] == "const" and isinstance(i[2], int) and i[2] < len(v[1]):
                    return True, ""  # removal from a vector literal that has that many elements
                if i[0] == "const":
                    for ga, go in g.items():
                        if go is True and ga[0] == "eq" and ("len", v) in ga[1:] and any(x[0] == "const" and x[2] > i[2] for x in ga[1:]):
                            return True, ""
            if m == "insert":
                if i == ("const", "int", 0):
                    return True, ""
                # at an index that was tested to be below the vector's length (an element was read there), in a body
                # in which such vectors only grow
                if self._grow_only(fn) and any(strip_ver(show(ga)) == strip_ver(show(("lt", i, ("len", v)))) and go is True for ga, go in g.items()):
                    return True, ""
                # at an index delivered by the range 0..len(v) of the same vector
                if self._grow_only(fn) and re.match(r"^(?:<[^()]*>::)?next\(Range::Range\{start: \d+, end: len\(%s\)\}\) as Some\.0$" % re.escape(strip_ver(show(v))), strip_ver(show(i))):
                    return True, ""
                # insert at `position(..)` of an element of the same vector, or at its length when there is none
                si, sv = strip_ver(show(i)), strip_ver(show(v))
                if re.match(r"^Option::unwrap_or\((<Iter<T> as Iterator>|Iterator)::position\(%s, closure .*\), len\(%s\)\)$" % (re.escape(sv), re.escape(sv)), si):
                    return True, ""
                # at the vector's own length, taken now or earlier: lengths only grow in a body that never shrinks a vector
                if si == "len(%s)" % sv and self._grow_only(fn):
                    return True, ""
                # at the index k of an element that a scan of the same vector has reached: k + 1 elements were
                # delivered by its iterator on this path
                if i[0] == "const" and isinstance(i[2], int) and self._grow_only(fn):
                    reached = 0
                    for ga, go in g.items():
                        if go == ("variant", "Some") and ga[0] == "variant" and strip_ver(show(ga[1])) in ("<Iter<T> as Iterator>::next(%s)" % sv, "next(%s)" % sv, "<Iter<T> as Iterator>::next(iter(%s))" % sv):
                            reached += 1
                    if reached >= i[2] + 1:
                        return True, ""
            return False, "%s(%s, %s)" % (m, show(v)[:40], show(i)[:40])
        return False, kind

    def _grow_only(self, fn=None):
        """no call in this body can shorten a vector of this element type (remove, pop, truncate, clear, drain,
        retain, split_off, mem::take / replace / swap of anything)"""
        def vec_ty(f):
            m = re.match(r"^(std::(?:vec::Vec|collections::VecDeque)::<.*>)::\w+$", strip_lt((f or {}).get("inst") or ""))
            return m.group(1) if m else None
        ty = vec_ty(fn)
        cache = self.__dict__.setdefault("_grow", {})
        if ty not in cache:
            good = True
            for bb, t in self.body.calls():
                d, r, f2 = callee(t)
                if not r:
                    continue
                if re.match(r"^std::(?:vec::Vec|collections::VecDeque)::<.*>::(remove|swap_remove|pop|pop_front|pop_back|truncate|clear|drain|retain|retain_mut|split_off|dedup\w*|set_len|shrink\w*)$", r) and (ty is None or vec_ty(f2) in (None, ty)):
                    good = False
                if re.search(r"mem::(take|replace|swap)(::<.*>)?$", r):
                    inst = strip_lt((f2 or {}).get("inst") or "")
                    elem = ty[ty.index("<") + 1:-1].split(",")[0] if ty else None
                    if not inst or elem is None or ("Vec<%s" % elem) in inst or ("Vec::<%s" % elem) in inst or "Vec" not in inst and "String" not in inst and "Option" not in inst:
                        good = False
            cache[ty] = good
        return cache[ty]

    def _walk(self):
        from ..sym import Evaluator

        self._ev = Evaluator(self.body, self.ctx.f)
        if not self.sites:
            return
        w = self.ctx.walk(self.body, max_visits=2, on_term=self._on_term, max_paths=30000)
        self.truncated = w.truncated

    def _static_fallback(self):
        b = self.body
        for bb, s in self.sites.items():
            if s["visits"] == 0:
                s["undis"] = 1
                s["why"] = "site not reached by the bounded path enumeration"

    def undischarged(self):
        return [(bb, s) for bb, s in sorted(self.sites.items()) if s["undis"] > 0]


def scan(ctx, body):
    return ctx.cached(("sitescan", body.path), lambda: SiteScan(ctx, body))


def undischarged_in(ctx, body):
    sc = scan(ctx, body)
    return [("%s: %s" % (_static_key(ctx, body, bb, s["kind"]), s["why"]), bb) for bb, s in sc.undischarged()]


# Audited sites that may legitimately appear in another shape after a behaviour-preserving edit.
ALT_SHAPES = [
    {"pattern": r"^<op_repeat::GreedyRepeatIterator as std::iter::Iterator>::next\|unwrap:unwrap\(last_mut\(a1\.iterations\)\)$",
     "reason": "the greedy stack kept as one vector of entries {matches, position} instead of two parallel vectors: non-empty for the same reason (the enclosing test just established it, or an entry was pushed immediately before; REPEAT-ITER reads both representations)"},
    {"pattern": r"^analyze_string::AnalyzeIter::compute_nesting_table\|BoundsCheck\(len\(a1\), add\(1, (<Enumerate<I> as Iterator>::)?next\((Iterator::enumerate\([^()]*\(?a1\)*|v)\) as Some\.0\.0\)\)$",
     "reason": "the look-ahead pattern[i + 1] after a '(' with i the index delivered by an enumerating iterator over the pattern instead of a cursor variable: runs only on the text of a pattern the parser accepted (gated on !is_literal, LITERAL-ANALYZE), in which every '(' has a successor"},
    {"pattern": r"^re_matcher::ReMatcher::get_paren\|index:index\(a1\.search, Range::Range\{start: [^{}]*a1\.state\.capture_state\.startn[^{}]* as Some\.0, end",
     "reason": "get_paren reading the two ends from the arrays directly instead of through get_paren_start/get_paren_end: group spans are start <= end <= len (written by CaptureGroupIterator::next from positions the child iterator yielded); that it reads startn[n] and endn[n] under n < paren_count is REPL-ACCESSOR"},
    {"pattern": r"^re_compiler::ReCompiler::escape\|index:index\(a1\.pattern, Range::Range\{start: a1\.idx, end: add\(a1\.idx, try\(Option::ok_or(_else)?\(Iterator::position\(",
     "reason": "close = from + position(..) of an element found inside pattern[from..], hence from <= close < len (the error for a missing '}' may be built eagerly or lazily)"},
    {"pattern": r"^<op_choice::Choice as operation::OperationControl>::get_(minimum_)?match_length\|unwrap:unwrap\(v\)$",
     "reason": "the minimum (or first element) of the branches of a Choice taken through an iterator adaptor: Choice::new is called only when more than one branch was parsed, the sequence is not empty"},
    {"pattern": r"^re_matcher::ReMatcher::clear_captured_groups_beyond\|index:index(_mut)?\(a1\.state\.((start|end)_backref|capture_state\.(startn|endn)), (next\(v\) as Some\.0|<Enumerate<I> as Iterator>::next\(v\) as Some\.0\.0)\)$",
     "reason": "clear_captured_groups_beyond reading the arrays directly instead of through the accessors: the index ranges over the start array of the pair (CLEAR-BEYOND *|range), and the two arrays of a pair have the same length (back-references: allocated together with max_parens entries, MATCH-AT backref-alloc; groups: set_paren_start/set_paren_end extend both)"},
    {"pattern": r"^analyze_string::AnalyzeIter::process_matching_substring::\{closure#\d+\}::\{closure#0\}\|OverflowNeg<isize>\(a1\.0\)$",
     "reason": "negation of a group number that was converted from usize to isize (hence >= 0): only isize::MIN overflows"},
    {"pattern": r"^re_compiler::ReCompiler::there_follows::\{closure#0\}\|index:index\(a1\.0\.pattern, add\((a2\.0, a1\.0\.idx|a1\.0\.idx, a2\.0)\)\)$",
     "reason": "the comparison loop of there_follows written with Iterator::all: guarded by idx + n <= len with i < n exactly as the loop form (the decision table of there_follows, including this form, is checked by THERE-FOLLOWS)"},
]


def load_audit():
    p = os.path.join(VERIF, "rxv", "rules", "panic_audit.json")
    if not os.path.exists(p):
        return {}
    return json.load(open(p))


def api_bodies(ctx):
    reach = ctx.api_reachable()
    out = []
    for b in ctx.f.bodies:
        if b.from_expansion:
            continue
        if b.path in reach:
            out.append(b)
    return out


@rule("PANIC-INVENTORY", ["C05", "C07", "C14"], floor=150)
def panic_inventory(ctx):
    """Every panic-capable site reachable from the public API (bounds checks, overflow asserts, unwrap/expect,
    Index calls, Vec::remove/insert, explicit panics) is discharged by a dominating guard on every path, or is
    listed with a reason in the audit table; a new or grown group is a violation."""
    audit = load_audit()
    out = []
    groups = {}
    total = 0
    # a panic on the way through the constructor is a pattern that is neither accepted nor rejected (C07)
    ctor = ctx.cg.reachable(["regex::Regex::new"])

    def scoped(i, path):
        root = ctx.creator_root(path)
        i.props = ["C05", "C07"] if root in ctor or path in ctor else ["C05"]
        if root == "re_compiler::ReCompiler::compile":
            # compile() holds the flag-x pre-pass: a panic there is a pattern that is neither accepted nor rejected
            # "like the pattern with its whitespace deleted" (C14)
            i.props = i.props + ["C14"]
        return i
    for b in api_bodies(ctx):
        sc = scan(ctx, b)
        ctx.body(b.path)
        for bb, s in sc.sites.items():
            total += 1
            if s["kind"] == "refcell":
                continue
            if s["undis"] == 0:
                out.append(scoped(ok("discharged|%s|%s" % (b.path, _static_key(ctx, b, bb, s["kind"]))), b.path))
            else:
                key = "%s|%s" % (b.path, _static_key(ctx, b, bb, s["kind"]))
                groups.setdefault(key, []).append((b, bb, s))
    for key, lst in sorted(groups.items()):
        a = audit.get(key)
        if a is None and "::{closure#" in key.split("|", 1)[0]:
            # the audited site, moved into a closure of the same function (`cond.then(|| ..)`, `map_or_else(..)`): its
            # operands are the function's own expressions seen through the captures, and the audited reason is about
            # those expressions
            fn_, shape = key.split("|", 1)
            k2 = "%s|%s" % (re.sub(r"(::\{closure#\d+\})+$", "", fn_), re.sub(r"\^+a(\d)", r"a\1", shape))
            if k2 in audit and k2 not in groups:
                a = audit[k2]
        if a is None:
            # the same audited site in another, equivalent shape (hand-written, one reason each)
            for alt in ALT_SHAPES:
                if re.match(alt["pattern"], key):
                    a = {"count": alt.get("count", 1), "reason": alt["reason"]}
                    break
        b, bb, s = lst[0]
        n0 = len(out)
        if a is None:
            out.append(bad("site|" + key, "panic-capable site is neither discharged nor audited: %s [%s]" % (key, s["why"]), b.loc(bb)))
        elif a.get("finding"):
            out.append(bad("site|" + key, "panic-capable site can fire: %s [%s] - %s" % (key, s["why"], a.get("reason", "")), b.loc(bb)))
        elif len(lst) > a.get("count", 1):
            out.append(bad("site|" + key, "audited group grew from %d to %d sites: %s" % (a.get("count", 1), len(lst), key), b.loc(bb)))
        else:
            out.append(ok("audited|" + key))
        for i in out[n0:]:
            scoped(i, b.path)
    ctx.extra_evidence.setdefault("C05", {})["panic_sites_total"] = total
    ctx.extra_evidence["C05"]["panic_sites_audited"] = sum(1 for k in groups if k in audit and not audit[k].get("finding"))
    return out


@rule("BORROW-SCOPE", ["C05", "C18"], floor=8)
def borrow_scope(ctx):
    """Every RefCell borrow guard is statement-local: between the borrow and the drop of its guard no call can reach
    another borrow of the matcher state (no BorrowMutError)."""
    out = []
    borrowers = set()
    for b in ctx.f.bodies:
        for bb, t, r in call_sites(b, lambda r: re.match(r"^std::cell::RefCell::<.*>::(borrow|borrow_mut)$", r) is not None):
            borrowers.add(b.path.split("::{closure")[0] if False else b.path)
    can_borrow = set()
    for p in ctx.cg.local:
        if ctx.cg.reachable([p]) & borrowers:
            can_borrow.add(p)
    for b in ctx.f.bodies:
        if b.from_expansion:
            continue
        for bb, t, r in call_sites(b, lambda r: re.match(r"^std::cell::RefCell::<.*>::(borrow|borrow_mut)$", r) is not None):
            ctx.body(b.path)
            guard = t["dest"]["l"] if not t["dest"]["p"] else None
            key = "%s|%s#%d" % (b.path, r.split("::")[-1], sum(1 for x, _, _ in call_sites(b, lambda q: q == r) if x < bb))
            if guard is None:
                out.append(bad(key, "borrow guard stored through a projection", b.loc(bb)))
                continue
            # live range: from the call's target until the guard local is dropped / StorageDead
            start = t["t"]
            seen = set()
            st = [start]
            offending = None
            while st and offending is None:
                x = st.pop()
                if x in seen or x is None:
                    continue
                seen.add(x)
                blk = b.blocks[x]
                dead = False
                for s_ in blk["stmts"]:
                    if s_["k"] == "dead" and s_["l"] == guard:
                        dead = True
                        break
                if dead:
                    continue
                tt = blk["term"]
                if tt["k"] == "drop" and not tt["place"]["p"] and tt["place"]["l"] == guard:
                    continue
                if tt["k"] == "call":
                    d2, r2, fn2 = callee(tt)
                    if r2 and (r2 in can_borrow or re.match(r"^std::cell::RefCell::<.*>::(borrow|borrow_mut)$", r2)):
                        offending = (x, r2)
                        break
                    if r2 is None:
                        offending = (x, "indirect call")
                        break
                    # virtual calls to matcher iterators
                    if fn2 and "dyn " in " ".join(fn2.get("targs", [])):
                        offending = (x, r2)
                        break
                for s2 in b.succs(x):
                    st.append(s2)
            if offending:
                out.append(bad(key, "a RefCell guard is alive across a call that can borrow the matcher state again (%s): BorrowMutError panic" % offending[1], b.loc(offending[0])))
            else:
                out.append(ok(key))
    return out


@rule("ERR-VARIANTS", ["C05"], floor=6)
def err_variants(ctx):
    """Error variants constructible on paths reachable from each API entry: xpath/xsd: InvalidFlags, Syntax;
    replace_all: MatchesEmptyString, InvalidReplacementString; tokenize/analyze: MatchesEmptyString; Error::Internal
    is constructed only at the audited belief-check sites; iterators construct none."""
    allowed = {
        "regex::Regex::xpath": {"InvalidFlags", "Syntax", "Internal"},
        "regex::Regex::xsd": {"InvalidFlags", "Syntax", "Internal"},
        "regex::Regex::is_match": set(),
        "regex::Regex::replace_all": {"MatchesEmptyString", "InvalidReplacementString"},
        "regex::Regex::tokenize": {"MatchesEmptyString"},
        "regex::Regex::analyze": {"MatchesEmptyString"},
        "<regex::TokenIter as std::iter::Iterator>::next": set(),
        "<analyze_string::AnalyzeIter as std::iter::Iterator>::next": set(),
    }
    cons = {}
    for b in ctx.f.bodies:
        if b.from_expansion:
            continue
        vs = set()
        for bi, blk in enumerate(b.blocks):
            if blk["cleanup"]:
                continue
            for st in blk["stmts"]:
                if st["k"] == "assign" and st["rv"]["k"] == "agg" and strip_lt(st["rv"].get("adt", "")) == "re_compiler::Error":
                    vs.add(st["rv"]["variant"])
                if st["k"] == "assign" and st["rv"]["k"] == "use" and st["rv"]["op"].get("k") == "const" and "re_compiler::Error" in st["rv"]["op"].get("ty", "") and "uneval" not in st["rv"]["op"]:
                    pass
        if vs:
            cons[b.path] = vs
    out = []
    for root, allow in sorted(allowed.items()):
        if ctx.body(root) is None:
            out.append(missing(root))
            continue
        reach = ctx.cg.reachable([root])
        got = set()
        src = {}
        for p in reach:
            for v in cons.get(p, ()):
                got.add(v)
                src.setdefault(v, p)
        extra = got - allow
        if extra:
            out.append(bad("root|" + root, "%s can construct Error::%s (in %s); the property allows only %s" % (root, sorted(extra), [src[e] for e in sorted(extra)], sorted(allow)), ctx.f.body(src[sorted(extra)[0]]).loc()))
        else:
            out.append(ok("root|" + root))
    return out


@rule("INTERNAL-UNREACHABLE", ["C05"], floor=5)
def internal_unreachable(ctx):
    """Error::Internal constructions are belief checks: each callee-entry check (`pattern[idx] != 'X' -> Internal`)
    is consistent with every caller (the call is dominated by a test of the same character), the remaining sites are
    audited with the dispatch table as reason; todo!() is dominated by a test of a field whose only store is None."""
    out = []
    sites = []
    for b in ctx.f.bodies:
        if b.from_expansion:
            continue
        for bi, blk in enumerate(b.blocks):
            if blk["cleanup"]:
                continue
            for st in blk["stmts"]:
                if st["k"] == "assign" and st["rv"]["k"] == "agg" and strip_lt(st["rv"].get("adt", "")) == "re_compiler::Error" and st["rv"]["variant"] == "Internal":
                    sites.append((b, bi))
                if st["k"] == "assign" and st["rv"]["k"] == "use" and st["rv"]["op"].get("k") == "const" and st["rv"]["op"].get("ty", "").endswith("re_compiler::Error") and False:
                    sites.append((b, bi))
    # enumc Internal is a constant aggregate: look for it in rvalues as enum constant
    for b in ctx.f.bodies:
        if b.from_expansion:
            continue
        se = ctx.senv(b)
        for bi, blk in enumerate(b.blocks):
            if blk["cleanup"]:
                continue
            for st in blk["stmts"]:
                if st["k"] == "assign" and st["rv"]["k"] == "agg" and st["rv"].get("variant") == "Err":
                    v = se.ev.rvalue(st["rv"], se.local_value)
                    if "Error::Internal" in show(v) and (b, bi) not in sites:
                        sites.append((b, bi))
    audit = load_audit().get("__internal__", {})
    entry_checks = {"re_compiler::ReCompiler::bracket": "{", "re_compiler::ReCompiler::escape": "\\", "re_compiler::ReCompiler::parse_character_class": "["}
    for b, bi in sites:
        ctx.body(b.path)
        gs = guard_strings(b, bi, ctx.senv(b))
        key = "%s|%s" % (b.path, sorted(g for g in gs if "pattern" in g or "idx" in g or "is_empty" in g or "len(" in g)[:2])
        ch = entry_checks.get(b.path)
        single = ch is not None and (any(g == "!eq('%s', a1.pattern[a1.idx])" % ch for g in gs) or any("lt(a1.idx, a1.len)" in g for g in gs))
        if ch is not None and not single:
            from ..dom import or_guarded as _org
            # the two belief checks merged into one condition: `idx >= len || pattern[idx] != 'X'`
            if _org(b, bi, lambda s, o: (strip_ver(s) == "lt(a1.idx, a1.len)" and o is False) or (strip_ver(s) == "eq('%s', a1.pattern[a1.idx])" % ch and o is False), ctx.senv(b)):
                bad1, bad2 = [], []
                for caller, cb in ctx.cg.sites.get(b.path, []):
                    if caller.parent is not None:
                        continue
                    cg = {strip_ver(x) for x in guard_strings(caller, cb, ctx.senv(caller))}
                    if not ("eq('%s', a1.pattern[a1.idx])" % ch in cg or any(x.startswith("a1.pattern[a1.idx]=") and ("'%s'" % ch) in x.replace("\\\\", "\\") for x in cg)):
                        bad1.append(caller.path)
                    if "lt(a1.idx, a1.len)" not in cg:
                        bad2.append(caller.path)
                out.append(ok("entry-check|" + b.path) if not bad1 else bad("entry-check|" + b.path, "callee %s checks pattern[idx]=='%s' (else Error::Internal) but caller(s) do not establish it: %s" % (b.path, ch, bad1[:2]), b.loc(bi)))
                if b.path == "re_compiler::ReCompiler::bracket":
                    out.append(ok("entry-check-len|" + b.path) if not bad2 else bad("entry-check-len|" + b.path, "bracket() may be entered with idx >= len", b.loc(bi)))
                continue
        if ch is not None and any(re.match(r"^!eq\('%s', a1\.pattern\[a1\.idx\]\)$" % re.escape(ch).replace("\\\\", "\\\\\\\\"), g) or g == "!eq('%s', a1.pattern[a1.idx])" % ch for g in gs):
            # belief consistency with callers
            bad_callers = []
            for caller, cb in ctx.cg.sites.get(b.path, []):
                if caller.parent is not None:
                    continue
                cg = guard_strings(caller, cb, ctx.senv(caller))
                cg = {strip_ver(x) for x in cg}
                want1 = "eq('%s', a1.pattern[a1.idx])" % ch
                want2 = "a1.pattern[a1.idx]='%s'" % ch
                from ..dom import or_guarded

                if want1 in cg or any(x.startswith("a1.pattern[a1.idx]=") and ("'%s'" % ch) in x.replace("\\\\", "\\") for x in cg):
                    continue
                if (caller.path, b.path) in (("re_compiler::ReCompiler::parse_character_class", "re_compiler::ReCompiler::parse_character_class"),):
                    # recursion after there_follows("-[") and idx += 1: audited
                    if any('there_follows(a1, "-[")' in x for x in cg):
                        continue
                bad_callers.append("%s (guards %s)" % (caller.path, sorted(cg)[:3]))
            if bad_callers:
                out.append(bad("entry-check|" + b.path, "callee %s checks pattern[idx]=='%s' (else Error::Internal) but caller(s) do not establish it: %s" % (b.path, ch, bad_callers[:2]), b.loc(bi)))
            else:
                out.append(ok("entry-check|" + b.path))
        elif ch is not None and b.path == "re_compiler::ReCompiler::bracket" and any("lt(a1.idx, a1.len)" in g for g in gs):
            # bracket's idx>=len check: callers test idx<len
            okc = True
            for caller, cb in ctx.cg.sites.get(b.path, []):
                cg = {strip_ver(x) for x in guard_strings(caller, cb, ctx.senv(caller))}
                if "lt(a1.idx, a1.len)" not in cg:
                    okc = False
            out.append(ok("entry-check-len|" + b.path) if okc else bad("entry-check-len|" + b.path, "bracket() may be entered with idx >= len", b.loc(bi)))
        else:
            k2 = "%s" % b.path
            a = audit.get(k2)
            if a:
                out.append(ok("audited|" + k2))
            else:
                out.append(bad("internal|" + key, "Error::Internal is constructed in %s at a site that is neither a consistent belief check nor audited" % b.path, b.loc(bi)))
    # todo!/unimplemented!/unreachable! sites
    for b in api_bodies(ctx):
        for bb, t, r in call_sites(b, lambda r: r.startswith(("core::panicking::", "std::panicking::")) or "panic" in r.split("::")[-1]):
            gs = guard_strings(b, bb, ctx.senv(b))
            key = "panic|%s|%s" % (b.path, sorted(gs)[:1])
            a = audit.get("panic|" + b.path)
            if b.path == "<op_sequence::SequenceIterator as std::iter::Iterator>::next":
                # dominated by backtracking_limit is Some; the field's only stores are None
                dom = any(("a1.backtracking_limit" in g and "=Some" in g) or strip_ver(g).startswith("Option::is_some_and(a1.backtracking_limit") or strip_ver(g).startswith("isSome(a1.backtracking_limit") for g in gs)
                stores = _stores_of_field(ctx, "backtracking_limit")
                only_none = stores and all(v in ("Option::None",) or v.endswith(".backtracking_limit") for v in stores)
                if dom and only_none:
                    out.append(ok("todo-unreachable"))
                else:
                    out.append(bad("todo-unreachable", "todo!() in SequenceIterator::next is reachable: backtracking_limit stores = %s, dominated=%s" % (stores, dom), b.loc(bb)))
            elif a:
                out.append(ok("audited|panic|" + b.path))
            else:
                out.append(bad(key, "explicit panic (%s) reachable from the API in %s" % (r.split("::")[-1], b.path), b.loc(bb)))
    return out


def _stores_of_field(ctx, fname):
    vals = []
    for b in ctx.f.bodies:
        if b.from_expansion:
            continue
        se = ctx.senv(b)
        for bi, blk in enumerate(b.blocks):
            if blk["cleanup"]:
                continue
            for st in blk["stmts"]:
                if st["k"] != "assign":
                    continue
                # direct field store
                pj = st["place"]["p"]
                if pj and isinstance(pj[-1], dict) and pj[-1].get("f") == fname:
                    vals.append(strip_ver(show(se.ev.rvalue(st["rv"], se.local_value))))
                rv = st["rv"]
                if rv["k"] == "agg" and rv.get("agg") == "adt" and fname in rv.get("fnames", []):
                    i = rv["fnames"].index(fname)
                    vals.append(strip_ver(show(se.operand(rv["fields"][i]))))
    return vals


@rule("FLAGS-SLICE", ["C05", "C07"], floor=1)
def flags_slice(ctx):
    """parse_expr, piece and parse_terminal index element 0 of the flags slice they are given (audited sites of
    PANIC-INVENTORY: "created with vec![x] by every caller"): every call site of the three hands over a vector or
    array literal with at least one element, or the caller's own flags parameter when the caller is one of the
    three (so the claim holds by induction over the call chain)."""
    fns = ["re_compiler::ReCompiler::parse_expr", "re_compiler::ReCompiler::piece", "re_compiler::ReCompiler::parse_terminal"]
    takes = [f for f in fns if ctx.body(f) is not None and ctx.body(f).argc >= 2 and "u32" in strip_lt(ctx.body(f).locals[2]["ty"])]
    out = []
    seen = {}
    callers = {}
    for f in takes:
        for caller, bb in ctx.cg.sites.get(f, []):
            if not caller.blocks[bb].get("cleanup"):
                callers.setdefault(caller.path, caller)
    for path, caller in sorted(callers.items()):
        ctx.body(path)
        for p in ctx.walk(caller).paths:
            for e in p.effects:
                if e[0] != "call":
                    continue
                f = next((x for x in takes if e[1] == x or x.endswith("::" + e[1]) or e[1].endswith(x.split("::", 1)[1])), None)
                if f is None or len(e[2]) < 2:
                    continue
                v = strip_ver(render(e[2][1]))
                lit = re.match(r"^(?:vec!|array)\[[^\]]+\]$", v) is not None
                own = v == "a2" and path in takes
                k = "%s<-%s" % (f.split("::")[-1], path.split("::")[-1])
                good, msg = seen.get(k, (True, ""))
                if not (lit or own):
                    good, msg = False, "%s is called with the flags %s: it reads element 0, which exists only for a non-empty literal or the caller's own (checked) parameter" % (f.split("::")[-1], v[:60])
                seen[k] = (good, msg)
    for k, (good, msg) in sorted(seen.items()):
        i_ = ok("site|" + k) if good else bad("site|" + k, msg, None)
        i_.optional = True  # a call site that is gone indexes nothing; every site that exists is listed here
        out.append(i_)
    if not takes:
        # the flags slice is gone (the context is an enum or a bool): nothing is indexed
        i_ = ok("no-flags-slice")
        out.append(i_)
    return out
