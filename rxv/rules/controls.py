"""Positive controls (thorough tier): the generic analyses are run over fixtures/controls, a crate of
deliberately bad (and a few good) constructs; every BAD item must be reported and no GOOD item may be.
For rules whose expected count on /repo is zero this is the proof that they can fire."""
import os
from ..engine import rule, ok, bad, missing, VERIF
from .. import extract as X
from .. import context


def controls_ctx(ctx):
    def build():
        src = os.path.join(VERIF, "fixtures", "controls")
        d, info = X.extract(src, target_dir=os.path.join(X.CACHE, "controls-target"), main_json="rxv_controls.main.json", fp_prefix="rxv_controls", lock_name="controls.lock")
        c = context.make(d, src, "thorough", main_json="rxv_controls.main.json")
        c.roots = [b.path for b in c.f.bodies if b.vis == "pub"]
        return c

    return ctx.cached("controls_ctx", build)


@rule("POSITIVE-CONTROLS", ["C05", "C06", "C18", "C01"], floor=14, tier="thorough")
def positive_controls(ctx):
    """Generic analyses over fixtures/controls: stagnant loop, RefCell guard across a re-entrant call, hash-order and
    clock reads, mutable and thread-local statics, interior mutability behind Vec<Box<_>>, unguarded index /
    subtraction / unwrap, unconditional self-recursion, user unsafe - each reported; their guarded twins are not."""
    try:
        c = controls_ctx(ctx)
    except X.CompileError as e:
        return [bad("controls-build", "the controls crate does not compile: %s" % str(e)[-300:], None)]
    from . import iters, panic, api
    out = []

    def expect(key, cond, msg):
        out.append(ok("control|" + key) if cond else bad("control|" + key, "positive control failed: " + msg, None))

    spin = c.body("Spinner::spin")
    adv = c.body("Spinner::advance")
    expect("stagnant-loop", spin is not None and bool(iters.stagnant_loops(c, spin)), "the stagnant loop in Spinner::spin is not reported")
    expect("progressing-loop", adv is not None and not iters.stagnant_loops(c, adv), "the progressing loop in Spinner::advance is reported")
    bs = {i.key: i.ok for i in panic.borrow_scope(c)}
    expect("borrow-across-call", any(k.startswith("Holder::reenter|") and not v for k, v in bs.items()), "the RefCell guard held across Holder::peek() is not reported")
    expect("borrow-local", any(k.startswith("Holder::peek|") and v for k, v in bs.items()), "the statement-local borrow in Holder::peek is reported")
    nd = [i for i in api.api_nondet(c) if not i.ok]
    expect("hash-order", any(i.key.startswith("hash-order|hash_order") for i in nd), "iteration over a HashMap is not reported")
    expect("clock", any(i.key.startswith("nondet|clock") for i in nd), "SystemTime::now is not reported")
    st = {s["path"]: s for s in c.f.statics}
    expect("static-mut", any(s["mut"] for s in st.values()), "the `static mut` is not listed")
    tl = any(s["thread_local"] for s in st.values()) or any("LocalKey" in (b.locals[0]["ty"] if b.locals else "") for b in c.f.bodies if b.kind.startswith(("Const", "Static")))
    expect("thread-local", tl, "the thread_local! is not listed")
    deep = c.f.adts.get("Deep")
    plain = c.f.adts.get("Plain")
    expect("interior-mutability", deep is not None and any("sync::Mutex" in x or "poison::mutex::Mutex" in x or "cell::UnsafeCell" in x for x in deep["reach"]), "the Mutex behind Vec<Box<_>> is not reached by the ADT walk")
    expect("no-interior-mutability", plain is not None and not any("cell::UnsafeCell" in x or "Mutex" in x for x in plain["reach"]), "a plain struct is reported to contain interior mutability")
    for nm, should in (("unguarded_index", True), ("guarded_index", False), ("unguarded_sub", True), ("guarded_sub", False), ("unguarded_unwrap", True), ("guarded_unwrap", False)):
        b = c.body(nm)
        und = panic.undischarged_in(c, b) if b is not None else None
        expect("panic-site|" + nm, b is not None and (bool(und) == should), "%s: undischarged sites = %s, expected %s" % (nm, und, "some" if should else "none"))
    rec = [comp for comp in c.cg.sccs() if len(comp) == 1 and comp[0] in c.cg.edges.get(comp[0], ())]
    expect("self-recursion", any(comp[0] == "forever" for comp in rec), "the unconditional self-recursion is not in the recursive SCCs")
    expect("unsafe", any(u.get("user") for u in c.f.unsafe), "the user-written unsafe block is not listed")
    return out
