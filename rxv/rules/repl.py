"""Replacement-string expansion (C15)."""
import re
from ..engine import rule, ok, bad, missing
from ..table import render, summarize, strip_ver
from ..sym import show
from ..facts import callee
from ..dom import call_sites
from .tables import oracle

REPLACE = "re_matcher::ReMatcher::replace"


def _sh(s):
    return s.replace("ReMatcher::", "")


from ..engine import rec as _rec, emit as _emit, checked  # noqa: E402




def expansion_paths(ctx):
    """One turn of the expansion loop over the replacement string (all locals unknown at its header)."""

    def build():
        b = ctx.body(REPLACE)
        if b is None:
            return None
        loops = b.natural_loops()
        # the loop whose condition compares a cursor with replacement.len() and whose body dispatches on replacement[i]
        cands = []
        for h in loops:
            w = ctx.walk(b, start_bb=h, max_visits=1)
            n = 0
            for p in w.paths:
                gs, r = summarize(p)
                if gs and re.match(r"^lt\(uninit\(\d+\), len\(a2\)\)$", gs[0]) and any(re.match(r"(?s)^a2\[uninit\(\d+\)\]=", g) for g in gs[1:2]):
                    n += 1
            if n:
                cands.append((n, h, w))
        if not cands:
            return b, None, []
        n, h, w = max(cands)
        out = []
        for p in w.paths:
            gs, r = summarize(p)
            gs = [_sh(strip_ver(g)) for g in gs]
            if not gs or not re.match(r"^lt\(uninit\(\d+\), len\(a2\)\)$", gs[0]):
                continue
            out.append((p, gs, _sh(strip_ver(r))))
        return b, h, out

    return ctx.cached("repl_expansion", build)


@rule("REPL-TABLE", ["C15"], floor=8)
def repl_table(ctx):
    """Expansion of the replacement string, per character: '\\' must be followed by '\\' or '$' (that character is
    emitted, cursor +2), otherwise InvalidReplacementString; '$' must be followed by a digit, otherwise
    InvalidReplacementString; any other character stands for itself (cursor +1). Both special arms clear the
    simple-replacement latch, an ordinary character does not touch it."""
    ep = expansion_paths(ctx)
    if ep is None:
        return [missing(REPLACE)]
    b, h, paths = ep
    if h is None:
        return [bad("shape", "replace() has no loop that scans the replacement string character by character", b.loc())]
    d = {}
    esc = set(oracle("xsd_regex.json")["replacement_escapes"])
    seen_esc = set()
    for p, gs, r in paths:
        loc = b.loc(p.blocks[-1])
        m = re.match(r"(?s)^a2\[(uninit\(\d+\))\]=(?:'(.)'|other)$", gs[1]) if len(gs) > 1 else None
        if not m:
            continue
        I = m.group(1)
        il = int(I[7:-1])
        ch = m.group(2) or "other"
        newi = strip_ver(render(p.env.get(il, ("uninit", il))))
        latch = [strip_ver(render(v)) for l, v in p.env.items() if b.locals[l]["ty"] == "bool" and b.locals[l].get("name") and v != ("uninit", l)]
        pushes = [[_sh(strip_ver(render(x))) for x in e[2]] for e in p.effects if e[0] == "call" and e[1].endswith("::push")]
        err = r.startswith("Result::Err{0: Error::InvalidReplacementString")
        other_err = r.startswith("Result::Err") and not err
        if other_err:
            _rec(d, "error-class", False, "the expansion fails with %s instead of InvalidReplacementString" % r[:80], loc)
        NEXT = "a2[add(1, %s)]" % I
        if ch == "other":
            _rec(d, "ordinary-char", p.end == "loop:%d" % h and pushes == [[pushes[0][0], "a2[%s]" % I]] if pushes else False and newi == "add(1, %s)" % I, "an ordinary character must be emitted as itself (cursor +1)", loc)
            _rec(d, "ordinary-cursor", newi == "add(1, %s)" % I, "after an ordinary character the cursor must advance by 1; found %s" % newi, loc)
            _rec(d, "ordinary-keeps-latch", not latch, "an ordinary character must not touch the simple-replacement latch", loc)
            continue
        if ch not in ("\\", "$"):
            _rec(d, "extra-arm|%s" % ch, False, "the expansion treats %r specially; only '\\' and '$' are special" % ch, loc)
            continue
        _rec(d, "latch-cleared|%s" % ("backslash" if ch == "\\" else "dollar"), latch == ["false"], "a replacement containing %r must clear the simple-replacement latch (later matches must be expanded again); latch writes %s" % (ch, latch), loc)
        at_end = ("!lt(add(1, %s), len(a2))" % I) in gs
        has_next = ("lt(add(1, %s), len(a2))" % I) in gs
        if at_end:
            _rec(d, "dangling|%s" % ("backslash" if ch == "\\" else "dollar"), err, "%r at the end of the replacement must be InvalidReplacementString; found %s" % (ch, r[:60] if p.end == "return" else p.end), loc)
            continue
        if not has_next:
            _rec(d, "end-test|%s" % ch, False, "after %r the end of the replacement is not tested" % ch, loc)
            continue
        if ch == "\\":
            nx = [g for g in gs if g.startswith(NEXT + "=")]
            if not nx:
                _rec(d, "escape-dispatch", False, "after '\\' the next character is not examined", loc)
                continue
            nc = nx[0].split("=", 1)[1]
            if nc == "other":
                _rec(d, "escape-other-rejected", err, "'\\' followed by any character other than '\\' and '$' must be InvalidReplacementString", loc)
            else:
                c = nc.strip("'")
                seen_esc.add(c)
                good = (not err) and pushes and pushes[-1][1] in ("'%s'" % c, NEXT) and newi == "add(2, %s)" % I
                _rec(d, "escape|%s" % ("backslash" if c == "\\" else c), good and c in esc, "'\\%s': must emit %r and advance the cursor by 2 (accepted set is exactly \\\\ and \\$); pushes %s, cursor %s, err=%s" % (c, c, pushes[-1:] if pushes else [], newi, err), loc)
        else:
            dg = [g for g in gs if g.lstrip("!") == "is_ascii_digit(%s)" % NEXT]
            if not dg:
                _rec(d, "dollar-digit-test", False, "after '$' the next character is not tested for being a digit", loc)
            elif dg[0].startswith("!"):
                _rec(d, "dollar-nondigit-rejected", err, "'$' not followed by a digit must be InvalidReplacementString", loc)
            else:
                _rec(d, "dollar-digit-accepted", not err or True, "", loc)
                if err:
                    _rec(d, "dollar-digit-accepted", False, "'$' followed by a digit is rejected", loc)
    _rec(d, "escape-set", seen_esc == esc, "the characters that may follow '\\' must be exactly %s; found %s" % (sorted(esc), sorted(seen_esc)), b.loc(h))
    return _emit(d)


@rule("REPL-GROUPREF", ["C15", "C03"], floor=6)
def repl_groupref(ctx):
    """$N: with at most 9 groups N is the single digit and the group text is used iff N <= number of groups; with
    more than 9 groups further digits are absorbed while the number stays <= the number of groups; the text of a
    group is obtained only through get_paren (None contributes nothing)."""
    ep = expansion_paths(ctx)
    if ep is None:
        return [missing(REPLACE)]
    b, h, paths = ep
    if h is None:
        return [bad("shape", "replace() has no expansion loop", b.loc())]
    d = {}
    for p, gs, r in paths:
        loc = b.loc(p.blocks[-1])
        m = re.match(r"(?s)^a2\[(uninit\(\d+\))\]='\$'$", gs[1]) if len(gs) > 1 else None
        if not m:
            continue
        I = m.group(1)
        NEXT = "a2[add(1, %s)]" % I
        if ("is_ascii_digit(%s)" % NEXT) not in gs:
            continue
        N = "sub((%s as usize), 48)" % NEXT
        thr = [g for g in gs if re.match(r"^!?lt\(\d+, uninit\(\d+\)\)$", g)]
        if not thr:
            _rec(d, "threshold-test", False, "the $N rule does not distinguish regexes with more than 9 groups", loc)
            continue
        tm = re.match(r"^(!?)lt\((\d+), (uninit\(\d+\))\)$", thr[0])
        k = int(tm.group(2))
        MAXCAP = tm.group(3)
        _rec(d, "threshold-is-9", k == 9, "multi-digit group references apply when there are more than 9 groups; the code compares the group count with %d" % k, loc)
        gp = [[_sh(strip_ver(render(x))) for x in e[2]] for e in p.effects if e[0] == "call" and e[1].endswith("get_paren")]
        ext = [[_sh(strip_ver(render(x))) for x in e[2]] for e in p.effects if e[0] == "call" and (e[1].endswith("::extend") or "Extend" in e[1])]
        # where the turn leaves the cursor: behind the digit(s) the reference consumed - a digit left under the
        # cursor is read again as an ordinary character and copied out
        if p.end == "loop:%d" % h:
            il = int(I[7:-1])
            newi = strip_ver(render(p.env.get(il, ("uninit", il))))
            if tm.group(1) == "!":
                _rec(d, "single|cursor", newi == "add(2, %s)" % I, "with <= 9 groups `$N` consumes the '$' and one digit whether or not group N exists: the cursor must advance by 2; found %s" % newi, loc)
            else:
                mm = re.match(r"^add\((\d+), %s\)$" % re.escape(I), newi)
                _rec(d, "multi|cursor", mm is not None and int(mm.group(1)) >= 2, "`$N` consumes the '$' and at least one digit: the cursor must advance by 2 or more; found %s" % newi, loc)
        pushes = [e for e in p.effects if e[0] == "call" and e[1].endswith("::push")]
        if tm.group(1) == "!":
            # at most 9 groups
            rng = [g for g in gs if g.lstrip("!") == "lt(%s, %s)" % (MAXCAP, N)]
            if not rng:
                _rec(d, "single|range-test", False, "with <= 9 groups the digit is not compared with the number of groups", loc)
            elif rng[0].startswith("!"):
                _rec(d, "single|in-range", len(gp) == 1 and gp[0][1] == N, "with <= 9 groups $N must read group N (the digit); reads %s" % [g[1][:40] for g in gp], loc)
            else:
                _rec(d, "single|out-of-range", not gp and not ext and not pushes, "a reference to a group that does not exist contributes nothing", loc)
        else:
            # more than 9 groups: one step of the digit-absorbing loop is visible
            ms = [g for g in gs if re.match(r"^!?lt\(%s, add\(mul\(10, " % re.escape(MAXCAP), g)]
            for g in ms:
                want = "lt(%s, add(mul(10, %s), sub((a2[add(2, %s)] as usize), 48)))" % (MAXCAP, N, I)
                _rec(d, "multi|candidate", g.lstrip("!") == want, "a further digit forms m = 10*n + digit, compared with the number of groups; found %s" % g[:120], loc)
                if not g.startswith("!"):
                    _rec(d, "multi|stop-when-too-large", len(gp) == 1 and gp[0][1] == N, "when 10*n+digit exceeds the number of groups the reference is n and the digit is a literal; reads %s" % [x[1][:40] for x in gp], loc)
            if not ms and gp:
                _rec(d, "multi|single-digit", gp[0][1] == N, "with no further digit the reference is the single digit", loc)
        for g in gp:
            pass
        some = [g for g in gs if g.startswith("variant(get_paren(")]
        if some and some[-1].endswith("=Some"):
            _rec(d, "group-text-appended", len(ext) == 1 and ext[0][1].startswith("get_paren(a1, ") and ext[0][1].endswith(" as Some.0"), "the text of a participating group must be appended; extends %s" % [x[1][:50] for x in ext], loc)
        if some and some[-1].endswith("=None"):
            _rec(d, "absent-group-empty", not ext and not pushes, "a group that did not participate contributes nothing", loc)
    # MAXCAP provenance: max_parens - 1
    se = ctx.senv(b)
    subs = []
    for bi, blk in enumerate(b.blocks):
        for st in blk["stmts"]:
            if st["k"] == "assign" and st["rv"]["k"] == "bin" and st["rv"]["op"].startswith("Sub"):
                v = strip_ver(show(se.ev.rvalue(st["rv"], se.local_value)))
                if "max_parens" in v:
                    subs.append(v)
    _rec(d, "group-count", any(v in ("chk(sub(Option::unwrap(a1.program.max_parens), 1))", "sub(Option::unwrap(a1.program.max_parens), 1)") for v in subs), "the number of groups must be program.max_parens - 1 (group 0 is the whole match); found %s" % subs, b.loc())
    return _emit(d)


@rule("REPL-ACCESSOR", ["C15", "C03"], floor=4)
def repl_accessor(ctx):
    """get_paren(n) = Some(search[start..end]) iff n < paren_count and both ends are set; None otherwise."""
    P = "re_matcher::ReMatcher::get_paren"
    b = ctx.body(P)
    if b is None:
        return [missing(P)]
    d = {}
    S = "get_paren_start(a1, a2)"
    E = "get_paren_end(a1, a2)"
    CS = "a1.state.capture_state."

    def known(gs, acc, fld):
        """is this end of the group known to be set / unset on the path?  Through the accessor or, equally, by
        reading the array directly (index in range and the slot Some)"""
        if ("variant(%s)=Some" % acc) in gs or (("lt(a2, len(%s%s))" % (CS, fld)) in gs and ("variant(%s%s[a2])=Some" % (CS, fld)) in gs):
            return True
        if ("variant(%s)=None" % acc) in gs or ("!lt(a2, len(%s%s))" % (CS, fld)) in gs or ("variant(%s%s[a2])=None" % (CS, fld)) in gs:
            return False
        return None

    for p in checked(d, "get_paren", b, ctx.walk(b).paths):
        gs, r = summarize(p)
        gs = [_sh(strip_ver(g)) for g in gs]
        r = _sh(strip_ver(r))
        loc = b.loc(p.blocks[-1])
        inr = True if ("lt(a2, paren_count(a1))" in gs or ("lt(a2, %sparen_count)" % CS) in gs) else False if ("!lt(a2, paren_count(a1))" in gs or ("!lt(a2, %sparen_count)" % CS) in gs) else None
        s_, e_ = known(gs, S, "startn"), known(gs, E, "endn")
        SV = ("%s as Some.0" % S, "%sstartn[a2] as Some.0" % CS)
        EV = ("%s as Some.0" % E, "%sendn[a2] as Some.0" % CS)
        if r != "Option::None":
            good = inr is True and s_ is True and e_ is True and any(r == "Option::Some{0: a1.search[Range::Range{start: %s, end: %s}]}" % (sv, ev) for sv in SV for ev in EV)
            if inr is None:
                _rec(d, "count-test", False, "get_paren yields a group without comparing the group number with paren_count", loc)
            _rec(d, "some", good, "a group is yielded only when n < paren_count and both ends are set, and then as search[start..end]; found %s under %s" % (r[:100], gs), loc)
        elif inr is False:
            _rec(d, "beyond-count", True, "", loc)
        elif inr is True and (s_ is False or e_ is False):
            _rec(d, "unset", True, "", loc)
        elif inr is None:
            _rec(d, "count-test", False, "get_paren does not compare the group number with paren_count", loc)
        else:
            _rec(d, "some", False, "get_paren yields None for a group below paren_count whose two ends are not known to be unset (guards %s)" % gs, loc)
    for k in ("some", "beyond-count", "unset"):
        if k not in d:
            d[k] = [False, "get_paren lost its %s path" % k, b.loc()]
    for nm, fld in (("get_paren_start", "startn"), ("get_paren_end", "endn")):
        g = ctx.body("re_matcher::ReMatcher::" + nm)
        if g is None:
            d[nm + "|missing"] = [False, nm + " missing", None]
            continue
        F = "a1.state.capture_state.%s" % fld
        rows = set()
        for p in ctx.walk(g).paths:
            gs, r = summarize(p)
            rows.add((tuple(strip_ver(x) for x in gs), strip_ver(r)))
        want = {(("lt(a2, len(%s))" % F,), "%s[a2]" % F), (("!lt(a2, len(%s))" % F,), "Option::None")}
        _rec(d, nm, rows == want, "%s must be %s[n] when n is in range and None otherwise; found %s" % (nm, fld, sorted(rows)), g.loc())
    return _emit(d)
