"""Group events in analyze, nesting scanner, per-search state reset: C03, C18, C19."""
import re
from ..engine import rule, ok, bad, missing
from ..table import render, summarize, strip_ver
from ..sym import show
from ..facts import callee, strip_lt
from ..dom import call_sites, guard_strings

PMS = "analyze_string::AnalyzeIter::process_matching_substring"


def _sh(s):
    return s.replace("ReMatcher::", "")


from ..engine import rec as _rec, emit as _emit, checked  # noqa: E402




def _is_neg(s):
    return s.startswith("neg(")


@rule("EVENT-ORDER", ["C03", "C05"], floor=4)
def event_order(ctx):
    """process_matching_substring builds, per offset, a list of group events (+i start, -i end) in which the start
    event of a group precedes its end event: a non-empty group pushes +i at its start offset and inserts -i at the
    front of its end offset (start < end); an empty group inserts -i and then +i at the same index of an existing
    list, or creates the list [+i, -i]."""
    b = ctx.body(PMS)
    if b is None:
        return [missing(PMS)]
    d = {}
    loops = b.natural_loops()
    # the loop over the groups: the one whose body asks get_paren_start
    gh = [h for h, blocks in loops.items() if any(callee(b.blocks[x]["term"])[1] == "re_matcher::ReMatcher::get_paren_start" for x in blocks if b.blocks[x]["term"]["k"] == "call")]
    if not gh:
        return [bad("loop", "no loop over the groups in process_matching_substring", b.loc())]
    h = min(gh, key=lambda x: len(loops[x]))
    for p in ctx.walk(b, start_bb=h).paths:
        gs, r = summarize(p)
        gs0 = [_sh(strip_ver(g)) for g in gs]
        loc = b.loc(p.blocks[-1])
        cs = [(e[1].split("::")[-1], [_sh(strip_ver(render(x))) for x in e[2]]) for e in p.effects if e[0] == "call"]
        names = [c[0] for c in cs]
        ent = [c for c in cs if c[0] == "entry"]
        if not ent:
            continue
        nonempty = [g for g in gs0 if re.match(r"^!?lt\(sub\(get_paren_start\(a1\.matcher, .* as Some\.0\) as Some\.0, get_paren_start\(a1\.matcher, 0\) as Some\.0\), sub\(Option::unwrap\(get_paren_end\(", g)]
        if not nonempty:
            _rec(d, "length-test", False, "group events are created without comparing the group's start with its end", loc)
            continue
        if not nonempty[-1].startswith("!"):
            pu = [c for c in cs if c[0] == "push"]
            ins = [c for c in cs if c[0] == "insert" and len(c[1]) == 3]
            good = len(ent) == 2 and len(pu) == 1 and len(ins) == 1 and not _is_neg(pu[0][1][1]) and ins[0][1][1] == "0" and _is_neg(ins[0][1][2]) and ins[0][1][2] == "neg(%s)" % pu[0][1][1]
            start_off = ent[0][1][1].startswith("sub(get_paren_start(") if ent else False
            end_off = ent[1][1][1].startswith("sub(Option::unwrap(get_paren_end(") if len(ent) > 1 else False
            _rec(d, "non-empty-group", good and start_off and end_off, "a non-empty group must push +i on the list of its start offset and insert -i at the front of the list of its end offset; calls %s" % [(c[0], c[1][1:]) for c in cs if c[0] in ("push", "insert")], loc)
        else:
            am = [c for c in cs if c[0] == "and_modify"]
            oi = [c for c in cs if c[0] == "or_insert_with"]
            _rec(d, "empty-group-uses-nesting", "get" in names and len(am) == 1 and len(oi) == 1, "an empty group must look up its parent in the nesting table and either modify the existing list or create one", loc)
    # closures: the list for an empty group alone / inserted into an existing list
    cl = [x for x in ctx.f.bodies if x.path.startswith(PMS + "::{closure")]
    alone = modify = 0
    for c in cl:
        ctx.body(c.path)
        for p in ctx.walk(c, max_visits=2).paths:
            if p.end != "return":
                continue
            ev = [(e[1].split("::")[-1], [strip_ver(render(x)) for x in e[2]]) for e in p.effects if e[0] == "call" and e[1].split("::")[-1] in ("push", "insert")]
            pushes = [e for e in ev if e[0] == "push"]
            inserts = [e for e in ev if e[0] == "insert"]
            if len(pushes) == 2 and not inserts:
                alone += 1
                a, bb_ = pushes[0][1][1], pushes[1][1][1]
                _rec(d, "empty-group-alone", (not _is_neg(a)) and bb_ == "neg(%s)" % a, "an empty group at an offset without other events must be recorded as [+i, -i]; the closure builds [%s, %s]: the end event would pop the enclosing group (analyze 'a(b?)c' on 'ac' panicked)" % (a[:40], bb_[:40]), c.loc())
            elif len(inserts) == 2 and not pushes:
                modify += 1
                (i1, v1), (i2, v2) = (inserts[0][1][1], inserts[0][1][2]), (inserts[1][1][1], inserts[1][1][2])
                _rec(d, "empty-group-in-list", i1 == i2 and _is_neg(v1) and v1 == "neg(%s)" % v2, "an empty group must be inserted as +i immediately followed by -i (insert -i, then +i, at the same index); found insert(%s,%s) insert(%s,%s)" % (i1[:20], v1[:30], i2[:20], v2[:30]), c.loc())
    _rec(d, "closure-alone-present", alone >= 1, "the or_insert_with closure building [+i, -i] was not found", b.loc())
    _rec(d, "closure-modify-present", modify >= 1, "the and_modify closure inserting (+i, -i) was not found", b.loc())
    # the event loop: positive -> on_group_start(nr), negative -> on_group_end
    st = call_sites(b, lambda r: r == "analyze_string::RegexMatchHandler::on_group_start")
    en = call_sites(b, lambda r: r == "analyze_string::RegexMatchHandler::on_group_end")
    se = ctx.senv(b)
    ok_pol = len(st) == 1 and len(en) == 1
    if ok_pol:
        g1 = guard_strings(b, st[0][0], se)
        g2 = guard_strings(b, en[0][0], se)
        ok_pol = any(re.match(r"^lt\(0, ", g) for g in g1) and any(re.match(r"^!lt\(0, ", g) for g in g2)
    _rec(d, "event-polarity", ok_pol, "a positive event must open a group (on_group_start) and a non-positive one close it (on_group_end)", b.loc())
    return _emit(d)


@rule("NESTING-SCANNER", ["C03", "C05"], floor=5)
def nesting_scanner(ctx):
    """compute_nesting_table agrees with the parser on what opens a capturing group: the character after '\\' is
    skipped, '[' / ']' change the class depth, '(' outside a class opens a group that is capturing iff not followed
    by '?', ')' outside a class closes the innermost open group; the parent of a new group is the innermost open
    capturing group."""
    P = "analyze_string::AnalyzeIter::compute_nesting_table"
    b = ctx.body(P)
    if b is None:
        return [missing(P)]
    d = {}
    loops = b.natural_loops()
    if len(loops) != 1:
        return [bad("loop", "compute_nesting_table must have exactly one loop", b.loc())]
    h = next(iter(loops))
    seen = set()
    for p in checked(d, "nesting-scan", b, ctx.walk(b, start_bb=h).paths, only=lambda p: p.end.startswith("loop")):
        gs, r = summarize(p)
        gs0 = [strip_ver(g) for g in gs]
        if not p.end.startswith("loop") or len(gs0) < 2:
            continue
        m = re.match(r"(?s)^a1\[(uninit\(\d+\))\]=(?:'(.)'|other)$", gs0[1])
        if not m:
            continue
        I = m.group(1)
        il = int(I[7:-1])
        ch = m.group(2) or "other"
        loc = b.loc(p.blocks[-1])
        env = {l: strip_ver(render(v)) for l, v in p.env.items() if v != ("uninit", l) and b.locals[l].get("name")}
        newi = env.get(il)
        others = {l: v for l, v in env.items() if l != il and b.locals[l]["ty"] in ("usize", "i32", "isize")}
        ins = [e for e in p.effects if e[0] == "call" and e[1].endswith("::insert")]
        seen.add(ch)
        if ch == "\\":
            _rec(d, "backslash-skips-next", newi == "add(2, %s)" % I and not others and not ins, "'\\' must skip the following character (cursor +2) and change nothing else; cursor %s, changes %s" % (newi, others), loc)
        elif ch in "[]":
            want = "add(1, " if ch == "[" else "sub("
            good = newi == "add(1, %s)" % I and len(others) == 1 and (list(others.values())[0].startswith(want) or (ch == "]" and list(others.values())[0].startswith("add(-1, "))) and not ins
            _rec(d, "bracket|%s" % ch, good, "'%s' must change the class depth by %s only; changes %s" % (ch, "+1" if ch == "[" else "-1", others), loc)
        elif ch == "(":
            inb = [g for g in gs0 if re.match(r"^!?eq\(0, uninit\(\d+\)\)$", g)]
            if not inb:
                _rec(d, "paren-outside-class-test", False, "'(' is handled without testing the class depth", loc)
            elif inb[0].startswith("!"):
                _rec(d, "open|inside-class", not ins and len(others) == 0, "'(' inside a class must be ignored", loc)
            else:
                cap = [g for g in gs0 if re.match(r"^!?eq\('\?', a1\[add\(1, %s\)\]\)$" % re.escape(I), g)]
                if not cap:
                    _rec(d, "open|capturing-test", False, "'(' must be classified by the character that follows it ('?' = non-capturing)", loc)
                elif cap[0].startswith("!"):
                    _rec(d, "open|capturing", len(ins) == 1, "a capturing '(' must record (group -> innermost open capturing group) in the nesting table", loc)
                else:
                    _rec(d, "open|non-capturing", not ins, "a '(?' group must not take a group number", loc)
        elif ch == ")":
            inb = [g for g in gs0 if re.match(r"^!?eq\(0, uninit\(\d+\)\)$", g)]
            _rec(d, "close|outside-class-test", bool(inb), "')' is handled without testing the class depth", loc)
        else:
            _rec(d, "other-char", newi == "add(1, %s)" % I and not others and not ins, "an ordinary character must only advance the cursor", loc)
    for c in "\\[]()":
        if c not in seen:
            d["arm-missing|%s" % c] = [False, "compute_nesting_table has no arm for '%s'" % c, b.loc()]
    # the two stacks: every '(' outside a class records its kind (capturing or not) on a per-parenthesis stack and
    # ')' pops exactly that entry; only a capturing parenthesis moves the stack of enclosing capturing groups
    kinds = [i for i, l in enumerate(b.locals) if strip_lt(l["ty"]) == "std::vec::Vec<bool>" and l.get("name")]
    parents = [i for i, l in enumerate(b.locals) if strip_lt(l["ty"]) == "std::vec::Vec<usize>" and l.get("name")]
    if len(kinds) != 1 or len(parents) != 1:
        _rec(d, "paren-kind-stack", False, "compute_nesting_table no longer keeps one stack of parenthesis kinds (Vec<bool>) and one of enclosing groups (Vec<usize>): a counter cannot tell which kind of parenthesis a ')' closes when kinds interleave", b.loc())
        return _emit(d)
    K, S = kinds[0], parents[0]
    for p in ctx.walk(b, start_bb=h).paths:
        gs0 = [strip_ver(g) for g in summarize(p)[0]]
        if not p.end.startswith("loop") or len(gs0) < 3 or not re.match(r"^!?eq\(0, uninit\(\d+\)\)$", gs0[2]) or gs0[2].startswith("!"):
            continue
        m = re.match(r"(?s)^a1\[(uninit\(\d+\))\]='(.)'$", gs0[1])
        if not m or m.group(2) not in "()":
            continue
        loc = b.loc(p.blocks[-1])
        st = [(strip_ver(render(e[1])), strip_ver(render(e[2]))) for e in p.effects if e[0] == "store"]
        env = {l: strip_ver(render(v)) for l, v in p.env.items() if v != ("uninit", l)}
        if m.group(2) == "(":
            ks = [(pl, v) for pl, v in st if pl.startswith("uninit(%d)[" % K)]
            capt = [g for g in gs0 if re.match(r"^!?eq\('\?', a1\[add\(1, %s\)\]\)$" % re.escape(m.group(1)), g)]
            good = len(ks) == 1 and bool(capt)
            if good:
                mt = re.match(r"^uninit\(%d\)\[uninit\((\d+)\)\]$" % K, ks[0][0])
                good = mt is not None and env.get(int(mt.group(1))) == "add(1, uninit(%s))" % mt.group(1)
                is_cap = capt[0].startswith("!")
                good = good and ks[0][1] in (("true", "!eq('?', a1[add(1, %s)])" % m.group(1)) if is_cap else ("false", "!eq('?', a1[add(1, %s)])" % m.group(1)))
                ps = [(pl, v) for pl, v in st if pl.startswith("uninit(%d)[" % S)]
                if is_cap:
                    mp = re.match(r"^uninit\(%d\)\[uninit\((\d+)\)\]$" % S, ps[0][0]) if len(ps) == 1 else None
                    good = good and mp is not None and env.get(int(mp.group(1))) == "add(1, uninit(%s))" % mp.group(1)
                else:
                    good = good and not ps
            _rec(d, "open|kind-pushed", good, "'(' outside a class must push its kind (capturing or not) on the stack of open parentheses - and, when capturing, itself on the stack of enclosing groups; stores %s" % st[:3], loc)
        else:
            kg = [g for g in gs0 if re.match(r"^!?uninit\(%d\)\[sub\(uninit\(\d+\), 1\)\]$" % K, g)]
            good = len(kg) == 1
            if good:
                ti = int(re.search(r"\[sub\(uninit\((\d+)\), 1\)\]$", kg[0]).group(1))
                good = env.get(ti) in ("sub(uninit(%d), 1)" % ti, "add(-1, uninit(%d))" % ti)
                moved = [l for l, v in env.items() if l != ti and strip_lt(b.locals[l]["ty"]) == "usize" and v in ("sub(uninit(%d), 1)" % l, "add(-1, uninit(%d))" % l)]
                good = good and (len(moved) == 1 if not kg[0].startswith("!") else len(moved) == 0)
            _rec(d, "close|pops-the-kind-it-pushed", good, "')' outside a class must pop the kind of the parenthesis it closes and leave the stack of enclosing groups alone unless that parenthesis was capturing; guards %s" % gs0[2:5], loc)
    for k in ("open|kind-pushed", "close|pops-the-kind-it-pushed"):
        if k not in d:
            d[k] = [False, "compute_nesting_table lost its %s clause (restructured; re-audit)" % k, b.loc()]
    return _emit(d)


@rule("STATE-RESET", ["C18", "C03", "C19", "C01"], floor=2)
def state_reset(ctx):
    """Every piece of matcher state that matching writes is re-initialised for every search/attempt: the capture
    state at the start of ReMatcher::matches (before any match_at); paren count, anchored flag, back-reference
    arrays and the zero-length-match history in match_at (MATCH-AT)."""
    P = "re_matcher::ReMatcher::matches"
    b = ctx.body(P)
    if b is None:
        return [missing(P)]
    out = []
    se = ctx.senv(b)
    stores = []
    for bi, blk in enumerate(b.blocks):
        if blk["cleanup"]:
            continue
        for st in blk["stmts"]:
            if st["k"] == "assign" and st["place"]["p"] and isinstance(st["place"]["p"][-1], dict) and st["place"]["p"][-1].get("f") == "capture_state":
                stores.append((bi, strip_ver(show(se.ev.rvalue(st["rv"], se.local_value)))))
    sites = [bb for bb, t, r in call_sites(b, lambda r: r == "re_matcher::ReMatcher::match_at")]
    good = any(v == "CaptureState::new()" and all(b.dominates(bi, s) for s in sites) for bi, v in stores)
    out.append(ok("capture-state-reset") if good and sites else bad("capture-state-reset", "ReMatcher::matches must reset the capture state (CaptureState::new()) before every match attempt; stores %s" % stores, b.loc()))
    cn = ctx.body("re_matcher::CaptureState::new")
    if cn is not None:
        rs = {strip_ver(render(p.ret)) for p in ctx.walk(cn).paths}
        r0 = next(iter(rs))
        out.append(ok("capture-state-empty") if "paren_count: 0" in r0 and "startn: vec![Option::None, Option::None, Option::None]" in r0 and "endn: vec![Option::None, Option::None, Option::None]" in r0 else bad("capture-state-empty", "a fresh capture state must have paren_count 0 and unset spans; found %s" % r0[:200], cn.loc()))
    return out


def _origin(b, se, l, depth=0):
    """Expression that initialises local l: the result of the call that defines it, followed through plain moves."""
    for blk in b.blocks:
        if blk.get("cleanup"):
            continue
        t = blk["term"]
        if t["k"] == "call" and t.get("dest") and t["dest"]["l"] == l and not t["dest"]["p"]:
            d_, r_, fn = callee(t)
            from ..sym import short
            return ("call", short(r_ or d_ or "?"), tuple(se.operand(a) for a in t["args"]))
        for st in blk["stmts"]:
            if st["k"] == "assign" and st["place"]["l"] == l and not st["place"]["p"] and st["rv"].get("k") == "use" and st["rv"]["op"].get("k") in ("move", "copy") and not st["rv"]["op"]["place"]["p"] and depth < 4:
                return _origin(b, se, st["rv"]["op"]["place"]["l"], depth + 1)
    return se.local_value(l)


@rule("ANALYZE-FLUSH", ["C04", "C03"], floor=5)
def analyze_flush(ctx):
    """The second loop of process_matching_substring turns the event table into output without losing text: it scans
    the offsets 0..=len(match) in characters (the unit of the event keys, which are differences of matcher
    positions), looks the events up at exactly the scanned offset, appends current[offset] to the pending text for
    every offset below len, hands the pending text to the handler before the events of an offset are dispatched,
    and hands over what is pending when the scan ends."""
    b = ctx.body(PMS)
    if b is None:
        return [missing(PMS)]
    d = {}
    loops = b.natural_loops()
    hs = [h for h, blocks in loops.items() if any((callee(b.blocks[x]["term"])[1] or "").endswith("::characters") for x in blocks if b.blocks[x]["term"]["k"] == "call")]
    if not hs:
        return [bad("loop", "process_matching_substring has no loop that hands text to the handler", b.loc())]
    h = max(hs, key=lambda x: len(loops[x]))
    se = ctx.senv(b)
    n = 0
    for p in checked(d, "flush-loop", b, ctx.walk(b, start_bb=h, max_visits=1).paths):
        gs, r = summarize(p)
        gs = [strip_ver(g) for g in gs]
        loc = b.loc(p.blocks[-1])
        cs = [(e[1].split("::")[-1], [strip_ver(render(x)) for x in e[2]]) for e in p.effects if e[0] == "call"]
        nx = [g for g in gs if re.match(r"^variant\(next\(uninit\(\d+\)\)\)=(Some|None)$", g)]
        if not nx:
            _rec(d, "scan-step", False, "a turn of the flush loop does not advance a scan iterator first", loc)
            continue
        it = int(re.search(r"uninit\((\d+)\)", nx[0]).group(1))
        I = "next(uninit(%d)) as Some.0" % it
        src = strip_ver(show(_origin(b, se, it)))
        _rec(d, "scan-by-char-offset", src.endswith("into_iter(RangeInclusive::new(0, len(a2)))"), "the flush loop must scan the character offsets 0..=len(match) (the unit of the event keys); it scans %s" % src[:120], loc)
        if nx[0].endswith("=None"):
            tk = [g for g in gs if g.startswith("variant(Option::take(")]
            if not tk:
                # the pending text tested without take(): `if let Some(text) = buf`
                for g in gs:
                    mm = re.match(r"^variant\((?:ref\()?uninit\((\d+)\)\)?\)=(Some|None)$", g)
                    if mm and strip_lt(b.locals[int(mm.group(1))]["ty"]).startswith("std::option::Option<std::string::String>"):
                        tk.append(g)
            if tk and tk[-1].endswith("=Some"):
                _rec(d, "tail-flushed", any(c[0] == "characters" for c in cs), "text still pending when the scan ends is not handed to the handler", loc)
            else:
                _rec(d, "tail-empty", not any(c[0] == "characters" for c in cs), "", loc)
            continue
        n += 1
        get = [c for c in cs if c[0] == "get" and len(c[1]) == 2]
        _rec(d, "lookup-by-scan-offset", len(get) == 1 and get[0][1][1] == I, "the events must be looked up at the scanned offset; found %s" % [c[1][1:] for c in get], loc)
        found = any(g.startswith("variant(HashMap::get(") and g.endswith("=Some") for g in gs)
        if found:
            tk = [g for g in gs if g.startswith("variant(Option::take(")]
            names = [c[0] for c in cs]
            if tk and tk[0].endswith("=Some"):
                ev = [i for i, x in enumerate(names) if x in ("on_group_start", "on_group_end")]
                ch = [i for i, x in enumerate(names) if x == "characters"]
                _rec(d, "pending-text-before-events", bool(ch) and (not ev or ch[0] < ev[0]), "pending text must be handed to the handler before the events of the offset are dispatched", loc)
        below = ("lt(%s, len(a2))" % I) in gs
        if below:
            app = [c for c in cs if (c[0] == "push" and c[1][1:] == ["a2[%s]" % I]) or (c[0] == "to_string" and c[1] == ["a2[%s]" % I])]
            _rec(d, "every-character-buffered", len(app) == 1, "for an offset below the length of the match the character at that offset must be appended to the pending text exactly once; appends %s" % [c for c in cs if c[0] in ("push", "to_string")][:3], loc)
        elif ("!lt(%s, len(a2))" % I) in gs:
            _rec(d, "nothing-buffered-at-end", not any(c[0] in ("push", "to_string") for c in cs), "", loc)
        elif not p.end.startswith("loop:%d" % h) and p.end.startswith("loop"):
            p.skip = True  # inner turn of the event dispatch loop
    for k in ("scan-by-char-offset", "lookup-by-scan-offset", "every-character-buffered", "pending-text-before-events", "tail-flushed"):
        if k not in d:
            d[k] = [False, "the flush loop of process_matching_substring no longer shows clause %s (restructured; re-audit)" % k, b.loc()]
    return _emit(d)
