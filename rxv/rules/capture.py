"""Group events in analyze, nesting scanner, per-search state reset: C03, C18, C19."""
import re
from ..engine import rule, ok, bad, missing
from ..table import render, summarize, strip_ver
from ..sym import show
from ..facts import callee, strip_lt
from ..dom import call_sites, guard_strings

PMS = "analyze_string::AnalyzeIter::process_matching_substring"


def _sh(s):
    return s.replace("ReMatcher::", "")


from ..engine import rec as _rec, emit as _emit, checked  # noqa: E402




def _is_neg(s):
    return s.startswith("neg(")


def _split_top(s):
    """top-level comma split of the inside of `array[...]`"""
    out, depth, cur = [], 0, ""
    for ch in s:
        if ch in "([{":
            depth += 1
        elif ch in ")]}":
            depth -= 1
        if ch == "," and depth == 0:
            out.append(cur.strip())
            cur = ""
        else:
            cur += ch
    if cur.strip():
        out.append(cur.strip())
    return out


_ENUM_EV = re.compile(r"^([\w:]+)::(\w+)\{0: (.*)\}$")


def _ev_pair(a, b):
    """(a, b) are the start and the end event of one group: (+i, -i), or two variants of one enum with one payload"""
    if b == "neg(%s)" % a and not _is_neg(a):
        return True
    ma, mb = _ENUM_EV.match(a), _ENUM_EV.match(b)
    return bool(ma and mb and ma.group(1) == mb.group(1) and ma.group(3) == mb.group(3) and ma.group(2) != mb.group(2))


def _list_edits(effects):
    """The edits a path makes to lists, in order: (list id, list as rendered, position, value, kind) with kind
    'append' (push, extend, insert at the list's current length) or 'at' (insert / splice at an index)."""
    out = []
    for e in effects:
        if e[0] != "call":
            continue
        nm = e[1].split("::")[-1]
        raw = [render(x) for x in e[2]]
        args = [_sh(strip_ver(x)) for x in raw]
        if nm == "push" and len(args) == 2:
            out.append((args[0], raw[0], None, args[1], "append"))
        elif nm == "insert" and len(args) == 3:
            kind = "append" if raw[1] == "len(%s)" % raw[0] else "at"
            out.append((args[0], raw[0], raw[1], args[2], kind))
        elif nm == "extend" and len(args) == 2 and args[1].startswith("array[") and args[1].endswith("]"):
            for it in _split_top(args[1][6:-1]):
                out.append((args[0], raw[0], None, it, "append"))
        elif nm == "splice" and len(args) == 3 and args[2].startswith("array[") and args[2].endswith("]"):
            # an empty range written p..p inserts; anything else replaces something
            pos = None
            pre = "Range::Range{start: "
            if raw[1].startswith(pre) and raw[1].endswith("}"):
                body = raw[1][len(pre):-1]
                for k in range(len(body)):
                    if body[k:k + 7] == ", end: " and body[:k] == body[k + 7:]:
                        pos = body[:k]
                        break
            if pos is None:
                out.append((args[0], raw[0], raw[1], args[2], "unknown"))
                continue
            kind = "append" if pos == "len(%s)" % raw[0] else "at"
            items = _split_top(args[2][6:-1])
            for k, it in enumerate(reversed(items)):
                out.append((args[0], raw[0] if k == 0 else None, pos, it, kind if k == 0 else "at"))
        elif nm in ("push_front", "remove", "swap", "truncate", "clear", "retain", "drain", "sort", "reverse", "append", "swap_remove", "pop") and args:
            out.append((args[0], raw[0], None, nm, "unknown"))
    return out


def _run(edits):
    """The adjacent run of values that a sequence of edits to one list leaves, in list order, and whether the run
    sits at the end of the list; None if the edits are not known to be adjacent."""
    run, at_end, anchor = [], False, None
    for (_lid, lraw, pos, val, kind) in edits:
        if kind == "unknown":
            return None
        if not run:
            run, at_end, anchor = [val], kind == "append", pos
            continue
        if kind == "append" or (pos is not None and lraw is not None and pos == "len(%s)" % lraw):
            if not at_end:
                return None
            run.append(val)
        elif pos is not None and pos == anchor:
            run.insert(0, val)  # at the index where the run starts: before it
        elif pos is None:
            return None
        else:
            return None
    return run, at_end


@rule("EVENT-ORDER", ["C03", "C05"], floor=4)
def event_order(ctx):
    """process_matching_substring builds, per offset, a list of group events in which the start event of a group
    precedes its end event.  Stated over the *edits* the code makes to the lists (push / insert / extend / splice,
    wherever they are written - in the function, in a helper, in a closure handed to the map's entry): a non-empty
    group (start < end) appends its start event to the list of its start offset and puts its end event at the front
    of the list of its end offset; an empty group leaves [start, end] adjacent - in a list of its own when the
    offset has none, otherwise in the existing list, at the end unless the end event of its parent (nesting table)
    is there.  The replay opens a group on a start event and closes one on an end event."""
    b = ctx.body(PMS)
    if b is None:
        return [missing(PMS)]
    d = {}
    loops = b.natural_loops()
    # the loop over the groups: the one whose body asks get_paren_start
    gh = [h for h, blocks in loops.items() if any(callee(b.blocks[x]["term"])[1] == "re_matcher::ReMatcher::get_paren_start" for x in blocks if b.blocks[x]["term"]["k"] == "call")]
    if not gh:
        return [bad("loop", "no loop over the groups in process_matching_substring", b.loc())]
    h = min(gh, key=lambda x: len(loops[x]))
    START = r"get_paren_start\(a1\.matcher, (?!0\))[^,]*?\) as Some\.0"
    END = r"Option::unwrap\(get_paren_end\(a1\.matcher, [^,]*?\)\)"
    # the comparison of the group's start with its end: absolute, or both relative to one and the same base
    cmp_re = re.compile(r"^(!?)lt\((?:sub\((%s), (.+?)\), sub\((%s), (.+)\)|(%s), (%s))\)$" % (START, END, START, END))

    def length_test(gs0):
        for g in gs0:
            m = cmp_re.match(g)
            if m and (m.group(2) is None or m.group(3) == m.group(5)):
                return m.group(1) != "!"
        return None

    closures = {x.path: x for x in ctx.f.bodies if x.path.startswith(PMS + "::{closure")}
    cl_edits = {}  # closure path -> list of (run, at_end, found_parent, loc) per path with edits

    def closure_runs(cp):
        if cp in cl_edits:
            return cl_edits[cp]
        c = closures.get(cp)
        res = []
        if c is not None:
            ctx.body(c.path)
            seen = set()
            for p in ctx.walk(c, max_visits=2).paths:
                if p.end != "return":
                    continue
                ed = _list_edits(p.effects)
                if not ed:
                    continue
                gs, _r = summarize(p)
                found = any(re.match(r"^eq\(", strip_ver(g)) and "nesting_table" in g for g in gs)
                key = (str([(e[2], e[3], e[4]) for e in ed]), found)
                if key in seen:
                    continue
                seen.add(key)
                res.append((ed, found, c.loc()))
        cl_edits[cp] = res
        return res

    n_empty = 0
    pairs_seen = set()

    def note_pair(a, b_):
        ma, mb = _ENUM_EV.match(a), _ENUM_EV.match(b_)
        if ma and mb:
            pairs_seen.add((ma.group(2), mb.group(2)))

    for p in ctx.walk(b, start_bb=h).paths:
        if p.end != "loop:%d" % h:
            continue  # only the turns of the loop over the groups (the replay that follows edits strings, not lists of events)
        gs, r = summarize(p)
        gs0 = [_sh(strip_ver(g)) for g in gs]
        loc = b.loc(p.blocks[-1])
        cs = [(e[1].split("::")[-1], [_sh(strip_ver(render(x))) for x in e[2]]) for e in p.effects if e[0] == "call"]
        names = [c[0] for c in cs]
        ed = _list_edits(p.effects)
        handed = [(c[0], m_.group(1)) for c in cs if c[0] in ("and_modify", "or_insert_with", "or_insert_with_key") for m_ in [re.match(r"^closure (?:[\w:<> ]*?)(process_matching_substring::\{closure#\d+\})", c[1][-1])] if m_]
        handed = [(k, "analyze_string::AnalyzeIter::" + cp) for k, cp in handed]
        handed_runs = [(k, cp, closure_runs(cp)) for k, cp in handed]
        touched = bool(ed) or any(rs for _k, _cp, rs in handed_runs) or any(n in ("entry", "and_modify", "or_insert_with") for n in names)
        if not touched:
            continue
        lt = length_test(gs0)
        if lt is None:
            _rec(d, "length-test", False, "group events are created without comparing the group's start with its end", loc)
            continue
        _rec(d, "length-test", True, "", loc)
        if lt:
            # non-empty group: +i appended at the start offset, -i first at the end offset; closures create empty lists only
            extra = [cp for _k, cp, rs in handed_runs if rs]
            at_start = [e for e in ed if re.search(START, e[0]) and not re.search(END, e[0])]
            at_end = [e for e in ed if re.search(END, e[0])]
            good = not extra and len(ed) == 2 and len(at_start) == 1 and len(at_end) == 1
            if good:
                s, e_ = at_start[0], at_end[0]
                good = s[4] == "append" and e_[4] == "at" and e_[2] == "0" and _ev_pair(s[3], e_[3])
                if good:
                    note_pair(s[3], e_[3])
            _rec(d, "non-empty-group", good, "a non-empty group must append its start event to the list of its start offset and put its end event at the front of the list of its end offset; edits %s" % [(e[0][-60:], e[2], e[3][-50:], e[4]) for e in ed], loc)
            continue
        # empty group
        n_empty += 1
        _rec(d, "empty-group-uses-nesting", any(c[0] == "get" and c[1] and c[1][0].endswith("nesting_table") for c in cs) or any("nesting_table" in g for g in gs0), "an empty group must look up its parent in the nesting table", loc)
        seqs = []  # (where, edits, found_parent, loc, fresh list?)
        if ed:
            found = any(re.match(r"^eq\(", g) and "nesting_table" in g for g in gs0)
            seqs.append(("function", ed, found, loc, False))
        for k, cp, rs in handed_runs:
            for (ced, found, cloc) in rs:
                seqs.append((k, ced, found, cloc, k.startswith("or_insert")))
        kinds = {s[0] for s in seqs}
        covers = ("function" in kinds and not any(k.startswith("or_insert") for k in kinds if k != "function")) or ("and_modify" in kinds and any(k.startswith("or_insert") for k in kinds)) and "function" not in kinds
        _rec(d, "empty-group-recorded", covers, "the events of an empty group must be recorded exactly once whether or not the offset already has a list (edits found in: %s)" % sorted(kinds), loc)
        for where, ced, found, cloc, fresh in seqs:
            lists = {}
            for e in ced:
                lists.setdefault(e[0], []).append(e)
            for lid, es in lists.items():
                rr = _run(es)
                key = "empty-group-start-then-end"
                if rr is None or len(rr[0]) != 2 or not _ev_pair(rr[0][0], rr[0][1]):
                    _rec(d, key, False, "an empty group must leave its start event immediately followed by its end event; the edits %s leave %s: an end event first would close the enclosing group (analyze 'a(b?)c' on 'ac' panicked)" % ([(e[2], e[3][-40:], e[4]) for e in es], rr and [x[-40:] for x in rr[0]]), cloc)
                    continue
                _rec(d, key, True, "", cloc)
                note_pair(rr[0][0], rr[0][1])
                if not fresh and not found:
                    _rec(d, "empty-group-after-existing-events", rr[1], "when the end event of the parent group is not in the list, the events of an empty group go after all existing events of the offset; they are inserted at %s" % es[0][2], cloc)
    if not n_empty:
        _rec(d, "empty-group-recorded", False, "no path handles a group whose start equals its end", b.loc())
    # the event loop: a start event opens a group (on_group_start), an end event closes one (on_group_end)
    st = call_sites(b, lambda r: r == "analyze_string::RegexMatchHandler::on_group_start")
    en = call_sites(b, lambda r: r == "analyze_string::RegexMatchHandler::on_group_end")
    se = ctx.senv(b)
    ok_pol = len(st) == 1 and len(en) == 1
    if ok_pol:
        g1 = [strip_ver(g) for g in guard_strings(b, st[0][0], se)]
        g2 = [strip_ver(g) for g in guard_strings(b, en[0][0], se)]
        sign = any(re.match(r"^lt\(0, ", g) for g in g1) and any(re.match(r"^!lt\(0, ", g) for g in g2)
        v1 = [m.group(1) for g in g1 for m in [re.match(r"^variant\(.*\)=(\w+)$", g)] if m and "next(" in g]
        v2 = [m.group(1) for g in g2 for m in [re.match(r"^variant\(.*\)=(\w+)$", g)] if m and "next(" in g]
        # with an enum the variant that opens must be the one recorded as the start event
        v1 = [x for x in v1 if x not in ("Some", "None")]
        v2 = [x for x in v2 if x not in ("Some", "None")]
        enum_ok = len(v1) == 1 and len(v2) == 1 and (v1[0], v2[0]) in pairs_seen
        ok_pol = sign or enum_ok
    _rec(d, "event-polarity", ok_pol, "a start event must open a group (on_group_start) and an end event close it (on_group_end)", b.loc())
    return _emit(d)


@rule("NESTING-SCANNER", ["C03", "C05"], floor=5)
def nesting_scanner(ctx):
    """compute_nesting_table agrees with the parser on what opens a capturing group: the character after '\\' is
    skipped, '[' / ']' change the class depth, '(' outside a class opens a group that is capturing iff not followed
    by '?', ')' outside a class closes the innermost open group; the parent of a new group is the innermost open
    capturing group."""
    P = "analyze_string::AnalyzeIter::compute_nesting_table"
    b = ctx.body(P)
    if b is None:
        return [missing(P)]
    d = {}
    loops = b.natural_loops()
    if len(loops) != 1:
        return [bad("loop", "compute_nesting_table must have exactly one loop", b.loc())]
    h = next(iter(loops))
    seen = set()
    for p in checked(d, "nesting-scan", b, ctx.walk(b, start_bb=h).paths, only=lambda p: p.end.startswith("loop")):
        gs, r = summarize(p)
        gs0 = [strip_ver(g) for g in gs]
        if not p.end.startswith("loop") or len(gs0) < 2:
            continue
        m = re.match(r"(?s)^a1\[(uninit\(\d+\))\]=(?:'(.)'|other)$", gs0[1])
        mi = re.match(r"(?s)^((?:<Enumerate<I> as Iterator>::)?next\((uninit\(\d+\))\) as Some\.0)\.1=(?:'(.)'|other)$", gs0[1])
        if not m and not mi:
            continue
        loc = b.loc(p.blocks[-1])
        env = {l: strip_ver(render(v)) for l, v in p.env.items() if v != ("uninit", l) and b.locals[l].get("name")}
        if m:
            # the cursor is an index into the pattern
            I = m.group(1)
            il = int(I[7:-1])
            ch = m.group(2) or "other"
            newi = env.get(il)
        else:
            # the cursor is an enumerating iterator over the pattern: the element it delivers is (index, character),
            # and every further next() in the turn moves the cursor on by one
            I = mi.group(1) + ".0"
            itl = int(mi.group(2)[7:-1])
            il = itl
            ch = mi.group(3) or "other"
            nx = [e for e in p.effects if e[0] == "call" and e[1].split("::")[-1] == "next" and e[2] and strip_ver(render(e[2][0])) == mi.group(2)]
            newi = "add(%d, %s)" % (len(nx), I) if nx else None
            src = strip_ver(show(_origin(b, ctx.senv(b), itl)))
            if not re.search(r"enumerate\((?:[\w:<> ,]*iter\()?a1\)*$", src):
                _rec(d, "scan-source", False, "the scan must enumerate the pattern itself from its start; it walks %s" % src[:100], loc)
        others = {l: v for l, v in env.items() if l != il and b.locals[l]["ty"] in ("usize", "i32", "isize") and not (mi and v.startswith(mi.group(1)))}
        ins = [e for e in p.effects if e[0] == "call" and e[1].endswith("::insert")]
        seen.add(ch)
        if ch == "\\":
            _rec(d, "backslash-skips-next", newi == "add(2, %s)" % I and not others and not ins, "'\\' must skip the following character (cursor +2) and change nothing else; cursor %s, changes %s" % (newi, others), loc)
        elif ch in "[]":
            want = "add(1, " if ch == "[" else "sub("
            good = newi == "add(1, %s)" % I and len(others) == 1 and (list(others.values())[0].startswith(want) or (ch == "]" and list(others.values())[0].startswith("add(-1, "))) and not ins
            _rec(d, "bracket|%s" % ch, good, "'%s' must change the class depth by %s only; changes %s" % (ch, "+1" if ch == "[" else "-1", others), loc)
        elif ch == "(":
            inb = [g for g in gs0 if re.match(r"^!?eq\(0, uninit\(\d+\)\)$", g)]
            if not inb:
                _rec(d, "paren-outside-class-test", False, "'(' is handled without testing the class depth", loc)
            elif inb[0].startswith("!"):
                _rec(d, "open|inside-class", not ins and len(others) == 0, "'(' inside a class must be ignored", loc)
            else:
                cap = [g for g in gs0 if re.match(r"^!?eq\('\?', a1\[add\(1, %s\)\]\)$" % re.escape(I), g)]
                if not cap:
                    _rec(d, "open|capturing-test", False, "'(' must be classified by the character that follows it ('?' = non-capturing)", loc)
                elif cap[0].startswith("!"):
                    _rec(d, "open|capturing", len(ins) == 1, "a capturing '(' must record (group -> innermost open capturing group) in the nesting table", loc)
                else:
                    _rec(d, "open|non-capturing", not ins, "a '(?' group must not take a group number", loc)
        elif ch == ")":
            inb = [g for g in gs0 if re.match(r"^!?eq\(0, uninit\(\d+\)\)$", g)]
            _rec(d, "close|outside-class-test", bool(inb), "')' is handled without testing the class depth", loc)
        else:
            _rec(d, "other-char", newi == "add(1, %s)" % I and not others and not ins, "an ordinary character must only advance the cursor", loc)
    for c in "\\[]()":
        if c not in seen:
            d["arm-missing|%s" % c] = [False, "compute_nesting_table has no arm for '%s'" % c, b.loc()]
    # the two stacks: every '(' outside a class records its kind (capturing or not) on a per-parenthesis stack and
    # ')' pops exactly that entry; only a capturing parenthesis moves the stack of enclosing capturing groups
    kinds = [i for i, l in enumerate(b.locals) if strip_lt(l["ty"]) == "std::vec::Vec<bool>" and l.get("name")]
    parents = [i for i, l in enumerate(b.locals) if strip_lt(l["ty"]) == "std::vec::Vec<usize>" and l.get("name")]
    if len(kinds) != 1 or len(parents) != 1:
        _rec(d, "paren-kind-stack", False, "compute_nesting_table no longer keeps one stack of parenthesis kinds (Vec<bool>) and one of enclosing groups (Vec<usize>): a counter cannot tell which kind of parenthesis a ')' closes when kinds interleave", b.loc())
        return _emit(d)
    K, S = kinds[0], parents[0]
    for p in ctx.walk(b, start_bb=h).paths:
        gs0 = [strip_ver(g) for g in summarize(p)[0]]
        if not p.end.startswith("loop") or len(gs0) < 3 or not re.match(r"^!?eq\(0, uninit\(\d+\)\)$", gs0[2]) or gs0[2].startswith("!"):
            continue
        m = re.match(r"(?s)^a1\[(uninit\(\d+\))\]='(.)'$", gs0[1])
        if not m:
            mi = re.match(r"(?s)^((?:<Enumerate<I> as Iterator>::)?next\(uninit\(\d+\)\) as Some\.0)\.1='(.)'$", gs0[1])
            if mi:
                class _M:  # the index and the character delivered by the enumerating iterator
                    def __init__(self, a, c):
                        self.a, self.c = a, c
                    def group(self, n):
                        return self.a if n == 1 else self.c
                m = _M(mi.group(1) + ".0", mi.group(2))
        if not m or m.group(2) not in "()":
            continue
        loc = b.loc(p.blocks[-1])
        st = [(strip_ver(render(e[1])), strip_ver(render(e[2]))) for e in p.effects if e[0] == "store"]
        env = {l: strip_ver(render(v)) for l, v in p.env.items() if v != ("uninit", l)}
        if m.group(2) == "(":
            ks = [(pl, v) for pl, v in st if pl.startswith("uninit(%d)[" % K)]
            capt = [g for g in gs0 if re.match(r"^!?eq\('\?', a1\[add\(1, %s\)\]\)$" % re.escape(m.group(1)), g)]
            good = len(ks) == 1 and bool(capt)
            if good:
                mt = re.match(r"^uninit\(%d\)\[uninit\((\d+)\)\]$" % K, ks[0][0])
                good = mt is not None and env.get(int(mt.group(1))) == "add(1, uninit(%s))" % mt.group(1)
                is_cap = capt[0].startswith("!")
                good = good and ks[0][1] in (("true", "!eq('?', a1[add(1, %s)])" % m.group(1)) if is_cap else ("false", "!eq('?', a1[add(1, %s)])" % m.group(1)))
                ps = [(pl, v) for pl, v in st if pl.startswith("uninit(%d)[" % S)]
                if is_cap:
                    mp = re.match(r"^uninit\(%d\)\[uninit\((\d+)\)\]$" % S, ps[0][0]) if len(ps) == 1 else None
                    good = good and mp is not None and env.get(int(mp.group(1))) == "add(1, uninit(%s))" % mp.group(1)
                else:
                    good = good and not ps
            _rec(d, "open|kind-pushed", good, "'(' outside a class must push its kind (capturing or not) on the stack of open parentheses - and, when capturing, itself on the stack of enclosing groups; stores %s" % st[:3], loc)
        else:
            kg = [g for g in gs0 if re.match(r"^!?uninit\(%d\)\[sub\(uninit\(\d+\), 1\)\]$" % K, g)]
            good = len(kg) == 1
            if good:
                ti = int(re.search(r"\[sub\(uninit\((\d+)\), 1\)\]$", kg[0]).group(1))
                good = env.get(ti) in ("sub(uninit(%d), 1)" % ti, "add(-1, uninit(%d))" % ti)
                moved = [l for l, v in env.items() if l != ti and strip_lt(b.locals[l]["ty"]) == "usize" and v in ("sub(uninit(%d), 1)" % l, "add(-1, uninit(%d))" % l)]
                good = good and (len(moved) == 1 if not kg[0].startswith("!") else len(moved) == 0)
            _rec(d, "close|pops-the-kind-it-pushed", good, "')' outside a class must pop the kind of the parenthesis it closes and leave the stack of enclosing groups alone unless that parenthesis was capturing; guards %s" % gs0[2:5], loc)
    for k in ("open|kind-pushed", "close|pops-the-kind-it-pushed"):
        if k not in d:
            d[k] = [False, "compute_nesting_table lost its %s clause (restructured; re-audit)" % k, b.loc()]
    return _emit(d)


@rule("STATE-RESET", ["C18", "C03", "C19", "C01"], floor=2)
def state_reset(ctx):
    """Every piece of matcher state that matching writes is re-initialised for every search/attempt: the capture
    state at the start of ReMatcher::matches (before any match_at); paren count, anchored flag, back-reference
    arrays and the zero-length-match history in match_at (MATCH-AT)."""
    P = "re_matcher::ReMatcher::matches"
    b = ctx.body(P)
    if b is None:
        return [missing(P)]
    out = []
    se = ctx.senv(b)
    stores = []
    for bi, blk in enumerate(b.blocks):
        if blk["cleanup"]:
            continue
        for st in blk["stmts"]:
            if st["k"] == "assign" and st["place"]["p"] and isinstance(st["place"]["p"][-1], dict) and st["place"]["p"][-1].get("f") == "capture_state":
                stores.append((bi, strip_ver(show(se.ev.rvalue(st["rv"], se.local_value)))))
    sites = [bb for bb, t, r in call_sites(b, lambda r: r == "re_matcher::ReMatcher::match_at")]
    good = any(v == "CaptureState::new()" and all(b.dominates(bi, s) for s in sites) for bi, v in stores)
    out.append(ok("capture-state-reset") if good and sites else bad("capture-state-reset", "ReMatcher::matches must reset the capture state (CaptureState::new()) before every match attempt; stores %s" % stores, b.loc()))
    cn = ctx.body("re_matcher::CaptureState::new")
    if cn is not None:
        rs = {strip_ver(render(p.ret)) for p in ctx.walk(cn).paths}
        r0 = next(iter(rs))
        out.append(ok("capture-state-empty") if "paren_count: 0" in r0 and "startn: vec![Option::None, Option::None, Option::None]" in r0 and "endn: vec![Option::None, Option::None, Option::None]" in r0 else bad("capture-state-empty", "a fresh capture state must have paren_count 0 and unset spans; found %s" % r0[:200], cn.loc()))
    return out


def _origin(b, se, l, depth=0):
    """Expression that initialises local l: the result of the call that defines it, followed through plain moves."""
    for blk in b.blocks:
        if blk.get("cleanup"):
            continue
        t = blk["term"]
        if t["k"] == "call" and t.get("dest") and t["dest"]["l"] == l and not t["dest"]["p"]:
            d_, r_, fn = callee(t)
            from ..sym import short
            return ("call", short(r_ or d_ or "?"), tuple(se.operand(a) for a in t["args"]))
        for st in blk["stmts"]:
            if st["k"] == "assign" and st["place"]["l"] == l and not st["place"]["p"] and st["rv"].get("k") == "use" and st["rv"]["op"].get("k") in ("move", "copy") and not st["rv"]["op"]["place"]["p"] and depth < 4:
                return _origin(b, se, st["rv"]["op"]["place"]["l"], depth + 1)
    return se.local_value(l)


@rule("ANALYZE-FLUSH", ["C04", "C03"], floor=5)
def analyze_flush(ctx):
    """The second loop of process_matching_substring turns the event table into output without losing text: it scans
    the offsets 0..=len(match) in characters (the unit of the event keys, which are differences of matcher
    positions), looks the events up at exactly the scanned offset, appends current[offset] to the pending text for
    every offset below len, hands the pending text to the handler before the events of an offset are dispatched,
    and hands over what is pending when the scan ends."""
    b = ctx.body(PMS)
    if b is None:
        return [missing(PMS)]
    d = {}
    loops = b.natural_loops()
    hs = [h for h, blocks in loops.items() if any((callee(b.blocks[x]["term"])[1] or "").endswith("::characters") for x in blocks if b.blocks[x]["term"]["k"] == "call")]
    if not hs:
        return [bad("loop", "process_matching_substring has no loop that hands text to the handler", b.loc())]
    h = max(hs, key=lambda x: len(loops[x]))
    se = ctx.senv(b)
    n = 0
    pf = set()  # offset form of the pending text: the local(s) holding where it starts

    def pending(gs, last=False):
        """is text known to be pending on this path?  The pending text is an Option<String> (Some = pending) or a
        String (non-empty = pending); the first test of it on the path decides (the last one for the tail)."""
        found = []
        for g in gs:
            if g.startswith("variant(Option::take("):
                found.append(g.endswith("=Some"))
                continue
            mm = re.match(r"^variant\((?:ref\()?uninit\((\d+)\)\)?\)=(Some|None)$", g)
            if mm and strip_lt(b.locals[int(mm.group(1))]["ty"]).startswith("std::option::Option<std::string::String>"):
                found.append(mm.group(2) == "Some")
                continue
            mm = re.match(r"^(!?)eq\(0, len\((?:uninit\((\d+)\)|String::new\(\))\)\)$", g)
            if mm and (mm.group(2) is None or strip_lt(b.locals[int(mm.group(2))]["ty"]) == "std::string::String"):
                found.append(mm.group(1) == "!")
                continue
            # the pending text kept as the offset where it starts: pending iff that offset lies below the scanned
            # one (below the length, when the scan has ended)
            mm = re.match(r"^(!?)lt\(uninit\((\d+)\), (?:next\(uninit\(\d+\)\) as Some\.0|len\(a2\))\)$", g)
            if mm and b.locals[int(mm.group(2))]["ty"] == "usize":
                found.append(mm.group(1) == "")
                pf.add(int(mm.group(2)))
        if not found:
            return None
        return found[-1] if last else found[0]

    for p in checked(d, "flush-loop", b, ctx.walk(b, start_bb=h, max_visits=1).paths):
        gs, r = summarize(p)
        gs = [strip_ver(g) for g in gs]
        loc = b.loc(p.blocks[-1])
        cs = [(e[1].split("::")[-1], [strip_ver(render(x)) for x in e[2]]) for e in p.effects if e[0] == "call"]
        nx = [g for g in gs if re.match(r"^variant\(next\(uninit\(\d+\)\)\)=(Some|None)$", g)]
        if not nx:
            _rec(d, "scan-step", False, "a turn of the flush loop does not advance a scan iterator first", loc)
            continue
        it = int(re.search(r"uninit\((\d+)\)", nx[0]).group(1))
        I = "next(uninit(%d)) as Some.0" % it
        src = strip_ver(show(_origin(b, se, it)))
        _rec(d, "scan-by-char-offset", src.endswith("into_iter(RangeInclusive::new(0, len(a2)))"), "the flush loop must scan the character offsets 0..=len(match) (the unit of the event keys); it scans %s" % src[:120], loc)
        if nx[0].endswith("=None"):
            if pending(gs, last=True):
                _rec(d, "tail-flushed", any(c[0] == "characters" for c in cs), "text still pending when the scan ends is not handed to the handler", loc)
                if pf:
                    want = ["Iterator::collect(a2[RangeFrom::RangeFrom{start: uninit(%d)}])" % x for x in pf]
                    _rec(d, "tail-flushed", [c[1][1] for c in cs if c[0] == "characters"] == want, "what is handed over when the scan ends must be the match from the pending offset to its end; found %s" % [c[1][1:] for c in cs if c[0] == "characters"], loc)
            else:
                _rec(d, "tail-empty", not any(c[0] == "characters" for c in cs), "", loc)
            continue
        n += 1
        get = [c for c in cs if c[0] == "get" and len(c[1]) == 2]
        _rec(d, "lookup-by-scan-offset", len(get) == 1 and get[0][1][1] == I, "the events must be looked up at the scanned offset; found %s" % [c[1][1:] for c in get], loc)
        found = any(g.startswith("variant(HashMap::get(") and g.endswith("=Some") for g in gs)
        if found:
            names = [c[0] for c in cs]
            if pending(gs):
                ev = [i for i, x in enumerate(names) if x in ("on_group_start", "on_group_end")]
                ch = [i for i, x in enumerate(names) if x == "characters"]
                _rec(d, "pending-text-before-events", bool(ch) and (not ev or ch[0] < ev[0]), "pending text must be handed to the handler before the events of the offset are dispatched", loc)
        if pf:
            # offset form: the pending text is current[from..offset]; it is handed over whole when events are due and
            # the pending offset moves to exactly the scanned offset then, and only then - so every character of the
            # match lies in exactly one piece
            env = getattr(p, "env", {}) or {}
            moved = {x: strip_ver(render(env[x])) for x in pf if x in env}
            if found:
                if pending(gs):
                    want = ["Iterator::collect(a2[Range::Range{start: uninit(%d), end: %s}])" % (x, I) for x in pf]
                    _rec(d, "pending-text-before-events", [c[1][1] for c in cs if c[0] == "characters"] == want, "the text handed over before the events of an offset must be the match from the pending offset to the scanned one; found %s" % [c[1][1:] for c in cs if c[0] == "characters"], loc)
                _rec(d, "every-character-buffered", len(pf) == 1 and list(moved.values()) == [I], "after the events of an offset the pending text must start at exactly that offset; it starts at %s" % moved, loc)
            else:
                _rec(d, "every-character-buffered", not moved and not any(c[0] == "characters" for c in cs), "an offset without events must leave the pending text alone; found %s" % moved, loc)
            inits = [strip_ver(show(se.ev.rvalue(st["rv"], se.local_value))) for bi, blk in enumerate(b.blocks) if bi not in loops[h] and not blk.get("cleanup") for st in blk["stmts"] if st["k"] == "assign" and not st["place"]["p"] and st["place"]["l"] in pf]
            _rec(d, "nothing-buffered-at-end", inits == ["0"], "the pending text must start at offset 0 when the scan begins; it starts at %s" % inits, loc)
            if not p.end.startswith("loop:%d" % h) and p.end.startswith("loop"):
                p.skip = True
            continue
        below = ("lt(%s, len(a2))" % I) in gs
        if below:
            app = [c for c in cs if (c[0] == "push" and c[1][1:] == ["a2[%s]" % I]) or (c[0] == "to_string" and c[1] == ["a2[%s]" % I])]
            _rec(d, "every-character-buffered", len(app) == 1, "for an offset below the length of the match the character at that offset must be appended to the pending text exactly once; appends %s" % [c for c in cs if c[0] in ("push", "to_string")][:3], loc)
        elif ("!lt(%s, len(a2))" % I) in gs:
            _rec(d, "nothing-buffered-at-end", not any(c[0] in ("push", "to_string") for c in cs), "", loc)
        elif not p.end.startswith("loop:%d" % h) and p.end.startswith("loop"):
            p.skip = True  # inner turn of the event dispatch loop
    for k in ("scan-by-char-offset", "lookup-by-scan-offset", "every-character-buffered", "pending-text-before-events", "tail-flushed"):
        if k not in d:
            d[k] = [False, "the flush loop of process_matching_substring no longer shows clause %s (restructured; re-audit)" % k, b.loc()]
    return _emit(d)
