"""Exhaustive exploration of alternatives: which backtracking iterators are kept, which are cut after their first
result, and the contract of the reluctant variable-length repeat: C01, C02, C06, C20."""
import re
from ..engine import rule, ok, bad, missing, rec as _rec, emit as _emit, checked
from ..table import render, summarize, strip_ver
from ..facts import callee

OC = "operation::OperationControl"
DISPATCH = "<operation::Operation as %s>::matches_iter" % OC


def iterator_disposition(b, bb):
    """What happens to the iterator created by the call terminator of block `bb` of body `b`: a flow-insensitive
    may-analysis over the locals that can hold it (moves, unsizing casts) and the `&mut` borrows of those locals.
    Returns (kind, detail): 'retained' (moved into a container/aggregate/callee or returned), 'next-only' (only
    `next` is called on it and it is then dropped; detail tells whether a `next` sits in a loop that does not
    re-create the iterator) or 'other' (borrowed by something else than next)."""
    t = b.blocks[bb]["term"]
    dest = t.get("dest")
    if not dest or dest["p"]:
        return "retained", "stored directly into a place"
    holders = {dest["l"]}
    borrows = {}
    escaped = []
    nexts = []
    other = []
    changed = True
    while changed:
        changed = False
        for bi, blk in enumerate(b.blocks):
            if blk.get("cleanup"):
                continue
            for st in blk["stmts"]:
                if st["k"] != "assign":
                    continue
                rv, pl = st["rv"], st["place"]
                k = rv.get("k")
                if k in ("use", "cast") and rv["op"].get("k") in ("move", "copy") and rv["op"]["place"]["l"] in holders and not rv["op"]["place"]["p"]:
                    if pl["p"]:
                        escaped.append("stored into a field or element")
                    elif pl["l"] not in holders:
                        holders.add(pl["l"])
                        changed = True
                elif k == "ref" and rv["place"]["l"] in holders:
                    if not pl["p"] and pl["l"] not in borrows:
                        borrows[pl["l"]] = rv["place"]["l"]
                        changed = True
                elif k in ("use", "cast") and rv["op"].get("k") in ("move", "copy") and rv["op"]["place"]["l"] in borrows and not rv["op"]["place"]["p"] and not pl["p"] and pl["l"] not in borrows:
                    borrows[pl["l"]] = borrows[rv["op"]["place"]["l"]]
                    changed = True
                elif k == "ref" and rv["place"]["l"] in borrows and "deref" in rv["place"]["p"] and not pl["p"] and pl["l"] not in borrows:
                    borrows[pl["l"]] = borrows[rv["place"]["l"]]
                    changed = True
                elif k == "agg":
                    for f in rv.get("fields", []):
                        if f.get("k") in ("move", "copy") and f["place"]["l"] in holders and not f["place"]["p"]:
                            escaped.append("moved into a %s value" % (rv.get("adt") or rv.get("agg")))
    if 0 in holders:
        escaped.append("returned")
    for bi, t2 in b.calls():
        if b.blocks[bi].get("cleanup"):
            continue
        d, r, fn = callee(t2)
        for a in t2.get("args", []):
            if a.get("k") not in ("move", "copy") or a["place"]["p"]:
                continue
            l = a["place"]["l"]
            if l in holders:
                escaped.append("moved into %s" % (r or d or "an indirect call").split("::")[-1])
            elif l in borrows:
                if (r or d or "").endswith("::next"):
                    nexts.append(bi)
                else:
                    other.append((r or d or "?"))
    if escaped:
        return "retained", sorted(set(escaped))[0]
    if other:
        return "other", "borrowed by " + ", ".join(sorted(set(other)))
    if not nexts:
        return "next-only", "never advanced"
    loops = b.natural_loops()
    inloop = all(any(n in body_ and bb not in body_ for h, body_ in loops.items()) for n in nexts)
    return "next-only", "drained in a loop" if inloop else "first result"


# Sites that may take only the first result(s) of a backtracking iterator and then drop it, with the reason why
# no alternative that matters is lost.  Every other site must keep the iterator for backtracking.
FIRST_ONLY = {
    "re_matcher::ReMatcher::match_at": "the program ends with EndProgram, so the first result of the top-level iterator is a complete match and the preferred one; no later result is asked for at this start position",
    "re_matcher::ReMatcher::check_preconditions": "a precondition only asks whether its operation matches at all at a position",
    "re_matcher::ReMatcher::check_preconditions::{closure#0}": "the same test written as the predicate of Iterator::any",
    "<op_greedy_fixed::GreedyFixed as %s>::matches_iter" % OC: "the repeated term has a fixed positive length (FIXED-LEN-POSITIVE, QUANT-LOWER): all its results at p are p+len, and it cannot match in ways that set different groups (FIXED-SINGLE-WAY; before 3fa5bbf it could - F32)",
    "<op_reluctant_fixed::ReluctantFixedIterator as std::iter::Iterator>::next": "the repeated term has a fixed positive length: all its results at p are p+len, and it cannot match in ways that set different groups (FIXED-SINGLE-WAY)",
    "<op_unambiguous_repeat::UnambiguousRepeat as %s>::matches_iter" % OC: "built only for a single-character Atom/CharClass child (OPT-UNAMB-SITES), which has at most one result",
}


@rule("ITER-RETAIN", ["C01", "C02", "C20", "C19"], floor=12)
def iter_retain(ctx):
    """Every backtracking iterator obtained from matches_iter is kept (returned, pushed on a stack, stored in the
    parent iterator) so that its remaining results are tried on backtracking; the only sites that take the first
    result and drop the iterator are the audited ones of FIRST_ONLY.  (Dropping the iterator of a repeated term
    after its first result loses every alternative way the term could have matched.)"""
    out = []
    seen = {}
    for cal, sites in sorted(ctx.cg.sites.items()):
        if not cal.endswith("::matches_iter"):
            continue
        for caller, bb in sites:
            if caller.path == DISPATCH or caller.blocks[bb].get("cleanup"):
                continue
            kind, detail = iterator_disposition(caller, bb)
            n = seen[caller.path] = seen.get(caller.path, 0) + 1
            key = "site|%s#%d" % (caller.path, n)
            if kind == "retained":
                out.append(ok(key))
            elif caller.path in FIRST_ONLY and kind == "next-only":
                out.append(ok(key))
            else:
                out.append(bad(key, "the iterator over the matches of a sub-operation created here is %s (%s) instead of being kept for backtracking; this site is not one of the audited first-result sites" % ("dropped after next()" if kind == "next-only" else "used otherwise", detail), caller.loc(bb)))
    for p_ in FIRST_ONLY:
        if p_ not in seen and ctx.body(p_) is None and "{closure" not in p_:  # closure entries are alternate shapes, optional
            out.append(bad("audited-site-missing|" + p_, "audited first-result site %s no longer exists (re-audit FIRST_ONLY)" % p_, None))
    # the dispatcher hands the variant's iterator on unchanged
    db = ctx.body(DISPATCH)
    if db is None:
        out.append(missing(DISPATCH))
    else:
        okd = True
        for bi, t in db.calls():
            d, r, fn = callee(t)
            if (r or d or "").endswith("::matches_iter") and not db.blocks[bi].get("cleanup"):
                if iterator_disposition(db, bi)[0] != "retained":
                    okd = False
        out.append(ok("dispatch-returns-variant-iterator") if okd else bad("dispatch-returns-variant-iterator", "Operation::matches_iter does not return the iterator of its variant", db.loc()))
    return out


RR_NEXT = "<op_repeat::ReluctantRepeatIterator as std::iter::Iterator>::next"
_IT = "a1.iterations"
_LAST = "last(a1.iterations) as Some.0"
_TOP = "last_mut(a1.iterations) as Some.0"


def _sh(s):
    return strip_ver(s).replace("<Operation as OperationControl>::", "")


@rule("RELUCTANT-REPEAT", ["C01", "C02", "C06", "C20", "C16", "C12", "C03", "C04", "C19", "C15"], floor=10)
def reluctant_repeat(ctx):
    """ReluctantRepeatIterator::next (variable-length reluctant repeat) enumerates end positions fewest iterations
    first and completely: with min == 0 the start position (no iteration) comes first; a further iteration is
    started from the position of the innermost iteration (or the start), only below max, and not after an empty
    iteration that was not needed for min (progress); the iterator of every iteration made is kept; when no
    further iteration is possible the innermost iteration's next match is taken, an exhausted iteration is
    dropped and the one below is advanced; a position is yielded only with at least min iterations and is the
    innermost iteration's position; None only when no iteration is left."""
    b = ctx.body(RR_NEXT)
    if b is None:
        return [missing(RR_NEXT)]
    d = {}
    for p in checked(d, "reluctant-next", b, ctx.walk(b, max_visits=1).paths):
        gs, r = summarize(p)
        gs = [_sh(g) for g in gs]
        r = _sh(r)
        loc = b.loc(p.blocks[-1])
        cs = [(e[1].replace("<Operation as OperationControl>::", ""), [_sh(render(x)) for x in e[2]]) for e in p.effects if e[0] == "call"]
        st = [(_sh(render(e[1])), _sh(render(e[2]))) for e in p.effects if e[0] == "store"]
        mi = [c for c in cs if c[0].endswith("matches_iter")]
        if "!a1.started" in gs:
            _rec(d, "first-call-marked", ("a1.started", "true") in st, "the first call must mark the iterator as started", loc)
            if "eq(0, a1.min)" in gs:
                _rec(d, "zero-iterations-first", p.end == "return" and r == "Option::Some{0: a1.start}" and not mi, "with min == 0 the first result must be the start position itself (no iteration), before the repeated term is tried; found %s" % r[:80], loc)
                continue
        _rec(d, "start-not-re-yielded", r != "Option::Some{0: a1.start}", "the start position is yielded again outside the first call with min == 0", loc)
        lv = [g for g in gs if g.startswith("variant(last(a1.iterations))=")]
        last_none = bool(lv) and lv[0].endswith("=None")  # the first look at the stack (a later one is the yield)
        here = "a1.start" if last_none else _LAST + ".position"
        if "a1.started" in gs:
            # asked again: what followed the position delivered last was given up, and its groups with it.  The
            # positions come in no particular order (a later one may be larger), so Sequence's clearing beyond the
            # new position does not cover them: like its siblings (ChoiceIterator::next_branch,
            # ReluctantFixedIterator::next) the iterator clears the groups beyond what it delivered (or beyond its
            # start) before it produces anything else
            eff = [(c[0], c[1]) for c in cs]
            first_work = next((i for i, c in enumerate(eff) if c[0].endswith("matches_iter") or (c[0] == "next" and ".matches" in (c[1] or [""])[0])), None)
            ci = [i for i, c in enumerate(eff) if c[0].endswith("clear_captured_groups_beyond")]
            if first_work is not None:
                okx = ("a1.start", here, _LAST + ".from") if not last_none else ("a1.start",)
                good = bool(ci) and ci[0] < first_work and eff[ci[0]][1][0] == "a1.matcher" and eff[ci[0]][1][1] in okx
                _rec(d, "asked-again-forgets-abandoned-groups", good, "asked for another position, the iterator tries a further iteration / another match of an iteration without first clearing the groups captured beyond the position it delivered last (clear_captured_groups_beyond): a group set by the abandoned continuation survives into the match, e.g. 'x(?:\\w+?)*?(bcd)??c' on 'xbcd' reports group 1 = 'bcd' for the match 'xbc' and analyze loses the 'x' (calls before: %s)" % [c[0] for c in eff[:first_work]][:4], loc)
        M = "matches_iter(a1.operation, a1.matcher, %s)" % here
        if len(mi) > 1:
            _rec(d, "one-iteration-per-turn", False, "more than one new iteration is started in one turn", loc)
            continue
        if mi:
            _rec(d, "iteration-from-innermost-position", mi[0][1] == ["a1.operation", "a1.matcher", here], "a further iteration must start at the innermost iteration's position (the start position when there is none); found %s" % mi[0][1], loc)
            _rec(d, "iteration-below-max", "lt(len(a1.iterations), a1.max)" in gs, "a further iteration is started without testing iterations < max", loc)
            if not last_none:
                prog = ("!eq(%s.from, %s.position)" % (_LAST, _LAST)) in gs or ("!eq(%s.position, %s.from)" % (_LAST, _LAST)) in gs
                _rec(d, "no-iteration-after-unneeded-empty-one", prog or "lt(len(a1.iterations), a1.min)" in gs, "a further iteration is started after an iteration that consumed nothing although min is reached (unbounded zero-width iterations)", loc)
        else:
            skipped = "!lt(len(a1.iterations), a1.max)" in gs or (("eq(%s.from, %s.position)" % (_LAST, _LAST)) in gs and "!lt(len(a1.iterations), a1.min)" in gs)
            _rec(d, "iteration-skipped-only-at-max-or-no-progress", skipped, "no further iteration is tried although max is not reached and the last iteration made progress (guards %s)" % gs[:6], loc)
        extended = ("variant(next(%s))=Some" % M) in gs
        if extended:
            want = [_IT, "ReluctantIteration::ReluctantIteration{matches: %s, from: %s, position: next(%s) as Some.0}" % (M, here, M)]
            push = [c for c in cs if c[0] == "Vec::push"]
            _rec(d, "iteration-kept-with-its-iterator", len(push) == 1 and push[0][1] == want, "a new iteration must be pushed with its iterator, its start and the position it reached; found %s" % [c[1][-1][:140] for c in push], loc)
            _rec(d, "no-backtrack-after-extension", not any(c[0] in ("Vec::pop", "last_mut") for c in cs), "after a successful further iteration nothing may be popped or advanced in the same turn", loc)
        else:
            bt = [g for g in gs if g.startswith("variant(next(%s.matches))=" % _TOP)]
            if "variant(last_mut(a1.iterations))=None" in gs:
                _rec(d, "exhausted-only-when-no-iteration-left", p.end == "return" and r == "Option::None", "with no iteration left next() must answer None", loc)
                continue
            if not bt:
                _rec(d, "backtrack-advances-innermost", False, "no further iteration and no attempt to advance the innermost iteration (guards %s)" % gs[-3:], loc)
                continue
            if bt[-1].endswith("=None"):
                _rec(d, "exhausted-iteration-dropped", ("Vec::pop", [_IT]) in cs and p.end.startswith("loop"), "an exhausted iteration must be popped and the one below advanced", loc)
                continue
            _rec(d, "backtrack-advances-innermost", (_TOP + ".position", "next(%s.matches) as Some.0" % _TOP) in st and ("Vec::pop", [_IT]) not in cs, "the next match of the innermost iteration must become its position", loc)
        if p.end == "return":
            tail = [g for g in gs if not g.startswith("variant(last(a1.iterations))=")]
            _rec(d, "yield-needs-min-iterations", tail[-1:] == ["!lt(len(a1.iterations), a1.min)"], "a position is yielded without testing iterations >= min (last guard %s)" % tail[-1:], loc)
            if gs[-1] == "variant(last(a1.iterations))=None" and r == "Option::None":
                continue  # `last()` of the stack that was just pushed to or advanced: not empty in fact
            _rec(d, "yield-innermost-position", r == "Option::Some{0: %s.position}" % _LAST, "the yielded value must be the innermost iteration's position; found %s" % r[:100], loc)
        elif p.end.startswith("loop"):
            _rec(d, "below-min-continues", gs[-1] == "lt(len(a1.iterations), a1.min)", "the turn ends without yielding although min iterations are reached (last guard %s)" % gs[-1:], loc)
    N = "op_repeat::ReluctantRepeatIterator::new"
    nb = ctx.body(N)
    if nb is None:
        d["new"] = [False, "ReluctantRepeatIterator::new missing", None]
    else:
        rs = {_sh(render(q.ret)) for q in ctx.walk(nb).paths}
        want = "ReluctantRepeatIterator::ReluctantRepeatIterator{matcher: a1, operation: a2, min: a4, max: a5, start: a3, started: false, iterations: Vec::new()}"
        _rec(d, "new", rs == {want}, "ReluctantRepeatIterator::new must start with no iteration, not started, at the given position; found %s" % sorted(rs)[:1], nb.loc())
    out = _emit(d)
    for i in out:
        i.props = ["C03", "C04", "C19", "C15"] if i.key.startswith("asked-again-forgets") else ["C01", "C02", "C06", "C20", "C16", "C12"]
    return out


# ------------------------------------------------------------------ pruning devices (cuts)

FP_NEXT = "<operation::ForceProgressIterator as std::iter::Iterator>::next"


@rule("CUT-FORCE-PROGRESS", ["C01", "C02"], floor=3)
def cut_force_progress(ctx):
    """ForceProgressIterator delivers exactly the results of the iterator it wraps, in order, and is exhausted when
    that iterator is.  Any other path that answers None drops results that were never looked at - alternatives the
    match may need - and is a violation; it is reported under a key that names the exact discipline of the cut
    (threshold and what is counted), so that the cut known today and a different one are told apart."""
    from ..sym import show
    fb = ctx.body(FP_NEXT)
    if fb is None:
        return [missing(FP_NEXT)]
    d = {}
    PV = "next(a1.base) as Some.0"
    P_ = "Option::Some{0: %s}" % PV
    cuts = []
    disc = {"same": None, "new": None}
    def nn(s):
        # the wrapped iterator's next(): a boxed `dyn Iterator` or a type parameter `I: Iterator` - the same call
        return re.sub(r"(?:<\w+ as Iterator>::|Iterator::)next\(", "next(", strip_ver(s))

    for p in checked(d, "force-progress-next", fb, ctx.walk(fb).paths):
        gs, r = summarize(p)
        gs = [nn(g) for g in gs]
        r = nn(r)
        loc = fb.loc(p.blocks[-1])
        st = dict((strip_ver(show(e[1])), nn(render(e[2]))) for e in p.effects if e[0] == "store")
        base_calls = [e for e in p.effects if e[0] == "call" and e[1].split("::")[-1] == "next"]
        if any(g == "variant(next(a1.base))=None" for g in gs):
            _rec(d, "exhausted-with-base", r == "Option::None", "when the wrapped iterator is exhausted the answer must be None", loc)
            continue
        if r == "Option::None":
            cuts.append((gs, loc, bool(base_calls)))
            _rec(d, "cut-seen", True, "", loc)
            continue
        _rec(d, "yields-base-result", r == P_ and len(base_calls) == 1, "a delivered position must be the one the wrapped iterator just returned; found %s" % r[:80], loc)
        same = None
        if ("eq(%s, a1.current_pos)" % P_) in gs or ("eq(a1.current_pos, %s)" % P_) in gs:
            same = True
        elif ("!eq(%s, a1.current_pos)" % P_) in gs or ("!eq(a1.current_pos, %s)" % P_) in gs or "variant(a1.current_pos)=None" in gs:
            same = False
        elif "variant(a1.current_pos)=Some" in gs:
            if ("eq(%s, a1.current_pos as Some.0)" % PV) in gs or ("eq(a1.current_pos as Some.0, %s)" % PV) in gs:
                same = True
            elif ("!eq(%s, a1.current_pos as Some.0)" % PV) in gs or ("!eq(a1.current_pos as Some.0, %s)" % PV) in gs:
                same = False
        if same is True:
            good = st.get("a1.count_zero_length") == "add(1, a1.count_zero_length)" and st.get("a1.current_pos") in (None, P_)
            disc["same"] = good if disc["same"] is None else (disc["same"] and good)
        elif same is False:
            good = st.get("a1.current_pos") == P_ and (st.get("a1.count_zero_length") == "0" or (st.get("a1.count_zero_length") is None and "variant(a1.current_pos)=None" in gs))
            disc["new"] = good if disc["new"] is None else (disc["new"] and good)
        else:
            disc["same"] = False
    d.pop("cut-seen", None)
    for gs, loc, consulted in cuts:
        thr = [g for g in gs if re.match(r"^lt\(\d+, a1\.count_zero_length\)$", g)]
        if len(gs) == 1 and thr and not consulted and disc["same"] and disc["new"]:
            k = int(re.match(r"^lt\((\d+),", thr[0]).group(1))
            key = "gives-up|after-more-than-%d-consecutive-equal-positions" % k
        else:
            key = "gives-up|other-discipline"
        _rec(d, key, False, "ForceProgressIterator answers None although the wrapped iterator is not exhausted (guards %s): every later result is dropped unseen, e.g. '^(?:x?|y?|z?|w?|q?|a)+b$' does not match 'ab'" % gs[:3], loc)
    return _emit(d)


HIST = "history::History::is_duplicate_zero_length_match"
REP_MI = "<op_repeat::Repeat as %s>::matches_iter" % OC


@rule("CUT-HISTORY", ["C01", "C02", "C19", "C16"], floor=1)
def cut_history(ctx):
    """The zero-iteration alternative of a greedy repeat with min == 0 must always be offered.  Suppressing it when
    the same repeat was already entered at the same position (the duplicate-zero-length memo) drops an alternative
    whose continuation can differ - the captured groups seen by a later back-reference are not part of the memo
    key - and is a violation, reported under a key that names the memo discipline."""
    b = ctx.body(REP_MI)
    if b is None:
        return [missing(REP_MI)]
    d = {}
    guarded = set()
    n = 0
    for p in ctx.walk(b, max_visits=2).paths:
        if p.end != "return":
            continue
        gs, r = summarize(p)
        gs = [strip_ver(g).replace("ReMatcher::", "") for g in gs]
        if "a1.greedy" not in gs or "eq(0, a1.min)" not in gs:
            continue
        n += 1
        for g in gs:
            if "is_duplicate_zero_length_match" in g:
                guarded.add(g.lstrip("!"))
    if not n:
        _rec(d, "greedy-min0-paths", False, "Repeat::matches_iter has no greedy path with min == 0 (restructured; re-audit)", b.loc())
        return _emit(d)
    if not guarded:
        _rec(d, "zero-iteration-unconditional", True, "", b.loc())
        return _emit(d)
    # the discipline of the memo: keyed by (repeat node, position), first query false, later queries true
    std = guarded == {"is_duplicate_zero_length_match(a2, a1, a3)"}
    hb = ctx.body(HIST)
    wb = ctx.body("re_matcher::ReMatcher::is_duplicate_zero_length_match")
    if hb is None or wb is None:
        std = False
    else:
        for p in ctx.walk(hb).paths:
            gs, r = summarize(p)
            r = strip_ver(r)
            ins = [e for e in p.effects if e[0] == "call" and e[1] in ("HashSet::insert", "HashMap::insert")]
            if r.startswith("!HashSet::insert(") and r.endswith(", a3)"):
                pass  # not(first insertion of the position into the set kept for this repeat node)
            elif r == "false" and len(ins) == 2 and not any(g.endswith("=Some") for g in gs):
                pass  # a node seen for the first time: its set is created with the position in it
            else:
                std = False
    key = "zero-iteration-suppressed|repeat-node-and-position-seen-before" if std else "zero-iteration-suppressed|other-discipline"
    _rec(d, key, False, "the zero-iteration alternative of a greedy repeat with min == 0 is suppressed when %s: an alternative with a possibly different continuation is dropped, e.g. '^(?:(a)|(.))(?:bc|d)*\\1$' does not match 'a'" % sorted(guarded), b.loc())
    return _emit(d)


# ------------------------------------------------------------------ captured groups when iterations are taken back

GF_MI = "<op_greedy_fixed::GreedyFixed as %s>::matches_iter" % OC
GR_NEXT = "<op_repeat::GreedyRepeatIterator as std::iter::Iterator>::next"


def _restorers(ctx):
    """ReMatcher methods that put a saved group state back: they take a parameter whose type holds a CaptureState
    (or a saved-groups record) and are state mutators."""
    out = set()
    from ..facts import strip_lt
    for b in ctx.f.bodies:
        if b.impl_adt != "re_matcher::ReMatcher" or b.kind == "Closure":
            continue
        tys = [strip_lt(b.locals[i]["ty"]) for i in range(2, b.argc + 1)]
        if any(("CaptureState" in t or "SavedGroups" in t) for t in tys) and b.path in ctx.mutators():
            out.add(b.path)
    return out


def _restores_after(ctx, p, idx, restorers):
    """Does path p call a restorer (directly or through local callees) after effect index idx?"""
    for e in p.effects[idx + 1:]:
        if e[0] != "call":
            continue
        full = e[4] if len(e) > 4 else None
        name = full or e[1]
        for r in restorers:
            if name == r or r.endswith("::" + e[1].split("::")[-1]) and e[1].split("::")[-1] == r.split("::")[-1]:
                return True
    return False


@rule("CAPTURE-RESTORE", ["C03", "C19", "C01"], floor=3)
def capture_restore(ctx):
    """When a repeat delivers fewer iterations than it has matched, or an attempted iteration fails, the captured
    groups (and the spans seen by back-references) must again be those of the iterations that remain on the match
    path: the operator has to put a saved group state back.  Checked per event: GreedyFixed stepping back from the
    furthest iteration, GreedyRepeatIterator popping an exhausted iteration, a failed iteration attempt in the
    greedy repeat's priming/extension loops.  An operator whose repeated term cannot capture may skip this."""
    d = {}
    restorers = _restorers(ctx)
    _rec(d, "restorers-known", bool(restorers), "no ReMatcher method that puts a saved group state back was found (reset_state renamed?)", None)
    short = {r.split("::")[-1] for r in restorers}

    def restores(p, after=-1):
        return any(e[0] == "call" and e[1].split("::")[-1] in short for e in p.effects[after + 1:])

    def cond_capturing(gs):
        return any(("capturing" in g or "contains_capturing_expressions" in g or "states" in g or "groups" in g) for g in gs)

    # 1. GreedyFixed: the iterator handed out must restore when it steps back
    gb = ctx.body(GF_MI)
    if gb is None:
        _rec(d, "GreedyFixed|missing", False, "GreedyFixed::matches_iter missing", None)
    else:
        okk = True
        why = ""
        seen = 0
        for p in ctx.walk(gb, max_visits=1).paths:
            if p.end != "return":
                continue
            r = strip_ver(render(p.ret))
            if r == "empty()":
                continue
            gs = [strip_ver(g) for g in summarize(p)[0]]
            seen += 1
            closures = re.findall(r"closure (<[^\[]*?\{closure#\d+\})", r)
            reach = False
            for c in closures:
                full = [b.path for b in ctx.f.bodies if b.path.endswith(c.split(" as ")[-1].split(">::")[-1]) and "{closure" in b.path and "greedy_fixed" in b.path]
                for fp in full:
                    if ctx.cg.reaches(fp, lambda x: x in restorers):
                        reach = True
            if not reach and not (cond_capturing(gs) and any(g.startswith("!") for g in gs if "captur" in g)):
                okk = False
                why = r[:120]
        _rec(d, "GreedyFixed|fewer-iterations-delivered-restores-groups", okk and seen > 0, "GreedyFixed hands out a plain position iterator (%s): when it steps back from the furthest iteration the groups captured by the iterations taken back stay in place, e.g. '(a)*a' on 'aa' reports $1 = '' instead of 'a' and '^(a)*ab\\1$' does not match 'aaba'" % why, gb.loc())
    # 2./3. greedy variable-length repeat
    for path, label in ((GR_NEXT, "GreedyRepeatIterator"), (REP_MI, "Repeat")):
        b = ctx.body(path)
        if b is None:
            _rec(d, label + "|missing", False, path + " missing", None)
            continue
        pop_ok, pop_seen, fail_ok, fail_seen = True, 0, True, 0
        for p in ctx.walk(b, max_visits=1).paths:
            gs = [strip_ver(g) for g in summarize(p)[0]]
            for i, e in enumerate(p.effects):
                if e[0] == "call" and e[1] == "Vec::pop" and strip_ver(render(e[2][0])) == "a1.iterators":
                    pop_seen += 1
                    if not restores(p, i) and not cond_capturing(gs):
                        pop_ok = False
            # a failed iteration attempt: next(matches_iter(..)) = None on this path
            fails = [g for g in gs if g.startswith("variant(next(") and "matches_iter(" in g and g.endswith("=None")]
            if fails:
                fail_seen += 1
                # index of the failing next call
                idxs = [i for i, e in enumerate(p.effects) if e[0] == "call" and e[1] == "next" and "matches_iter(" in strip_ver(render(e[2][0]))]
                if not (idxs and restores(p, idxs[-1])) and not cond_capturing(gs):
                    fail_ok = False
        if label == "GreedyRepeatIterator":
            _rec(d, "GreedyRepeatIterator|iteration-given-up-restores-groups", pop_ok and pop_seen > 0, "GreedyRepeatIterator pops an exhausted iteration without putting the groups of the iteration below it back, e.g. '(a+)*a' on 'aa' reports $1 = '' instead of 'a' and '^(a+)*ab\\1$' does not match 'aaba'", b.loc())
        if fail_seen:
            _rec(d, "Repeat|failed-iteration-attempt-restores-groups", fail_ok, "a failed attempt at a further iteration in %s leaves the groups it moved (Capture sets the back-reference start before matching) in place, e.g. '^(a+)*b\\1$' does not match 'aabaa'" % path, b.loc())
    return _emit(d)


@rule("STATE-SAVE-RESTORE", ["C03", "C19", "C01", "C04", "C05"], floor=3)
def state_save_restore(ctx):
    """ReMatcher::capture_state() hands out a copy of the *whole* capture state (every group's start and end, and
    the group count), and ReMatcher::reset_state(s) replaces the whole capture state by s.  A restore that copies
    back only part of the saved state (the groups below the saved count, say) leaves spans written by the abandoned
    attempt in place: they resurface when a later group raises the count again - a group that took no part in the
    match is reported, with text from the abandoned attempt."""
    d = {}
    S = "re_matcher::ReMatcher::capture_state"
    R = "re_matcher::ReMatcher::reset_state"
    sb, rb = ctx.body(S), ctx.body(R)
    if sb is None or rb is None:
        return [missing(S if sb is None else R)]
    for p in checked(d, "save", sb, ctx.walk(sb).paths, only=lambda p: p.end == "return"):
        r = strip_ver(render(p.ret))
        _rec(d, "save|whole-state-copied", r in ("a1.state.capture_state", "clone(a1.state.capture_state)"), "capture_state() must hand out a copy of the whole capture state; found %s" % r[:120], sb.loc(p.blocks[-1]))
    for p in checked(d, "restore", rb, ctx.walk(rb).paths, only=lambda p: p.end == "return"):
        stores = [(strip_ver(render(e[1])), strip_ver(render(e[2]))) for e in p.effects if e[0] == "store"]
        good = stores in ([("a1.state.capture_state", "a2")], [("a1.state.capture_state", "clone(a2)")], [("a1.state.capture_state", "*a2")])
        calls = [e for e in p.effects if e[0] == "call" and not any(x in str(e[1]) for x in ("borrow_mut", "deref_mut", "deref", "clone", "drop"))]
        _rec(d, "restore|whole-state-replaced", good and not calls, "reset_state(s) must replace the whole capture state by s (one store to state.capture_state); found stores %s, calls %s" % (stores[:3], [e[1] for e in calls][:3]), rb.loc(p.blocks[-1]))
    # the copy is a field-by-field copy: Clone for CaptureState is derived
    cb = next((b for b in ctx.f.bodies if b.path.startswith("<re_matcher::CaptureState as std::clone::Clone>::clone")), None)
    if cb is None:
        d["clone|derived"] = [False, "<CaptureState as Clone>::clone not found", None]
    else:
        _rec(d, "clone|derived", bool(cb.from_expansion), "Clone for CaptureState is written by hand: a copy that leaves out a field is no longer a saved state", cb.loc())
    return _emit(d)
