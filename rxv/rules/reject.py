"""The conditions under which the parser rejects (C07: exactly the grammar is accepted - no more, *and no less*).

The gate rules (PARSE-CLASS-GATES, PARSE-BACKREF-VALID, GATE-XSD, ...) state rejections the grammar needs; nothing
there notices a rejection that became *wider* (a condition dropped from the test in front of an Error::Syntax: a
grammatical pattern is then refused).  This rule compares, for every site that constructs a syntax / flags error in
the compiler, the conjunction of branch conditions that dominates the site with the one read on the reference tree
(rxv/reject_reference.json, written by tools/gen_reject_reference.py from the tree whose rejections were read and
argued in the gate rules).  Dominating conditions are flow-insensitive and do not depend on how the surrounding
code is spelt path by path; they do change when a test is dropped, added or moved - which for a rejection is a
change of the accepted language until shown otherwise."""
import json, os, re
from ..engine import rule, ok, bad, missing, VERIF
from ..table import strip_ver
from ..sym import show
from ..dom import call_sites, guard_strings
from ..facts import strip_lt

SCOPE = ("re_compiler::ReCompiler::", "re_flags::ReFlags::new")


# the conditions that are about the text being parsed: look-ahead, the character at (an offset from) the cursor, the
# dialect and the flags, the name looked up - not iterator states, conversions or the success of a sub-parse
LEXICAL = re.compile(r"""^!?(?:there_follows\(a1,\ "[^"]*"\)
    |a1\.pattern\[(?:a1\.idx|add\(\d+,\ a1\.idx\)|sub\(a1\.idx,\ \d+\))\]='.{1,8}'
    |eq\('.{1,8}',\ a1\.pattern\[(?:a1\.idx|add\(\d+,\ a1\.idx\)|sub\(a1\.idx,\ \d+\))\]\)
    |eq\(language\(a1\.re_flags\),\ Language::\w+\)
    |is_\w+\(a1\.re_flags\)
    |eq\(a1,\ "[^"]*"\)
    |a1\.has_back_references|a1\.\w+
    )$""", re.X)


def _norm(g):
    g = strip_ver(g)
    g = re.sub(r"\bv\d+\b", "v", g)
    g = re.sub(r"uninit\(\d+\)", "u", g)
    return g.replace("ReCompiler::", "").replace("ReFlags::", "")


def sites(ctx):
    """{function|message: [sorted guard list per site, sorted]}"""
    out = {}
    for b in ctx.f.bodies:
        if b.from_expansion or not b.path.startswith(SCOPE):
            continue
        ctx.body(b.path)
        se = ctx.senv(b)
        fn = b.path.split("::{closure")[0]
        found = []
        for bb, t, r in call_sites(b, lambda r: r == "re_compiler::Error::syntax"):
            a = strip_ver(show(se.operand(t["args"][0])))
            m = re.match(r'^"(.*)"$', a)
            mf = re.search(r"constof\(&\[u8; (\d+)\]\)", a)
            found.append((bb, "syntax:" + (m.group(1) if m else "<formatted, template of %s bytes>" % mf.group(1) if mf else "<formatted>")))
        for bi, blk in enumerate(b.blocks):
            if blk["cleanup"]:
                continue
            for st in blk["stmts"]:
                if st["k"] == "assign" and st["rv"]["k"] == "agg" and strip_lt(st["rv"].get("adt", "")) == "re_compiler::Error" and st["rv"].get("variant") in ("InvalidFlags", "Syntax"):
                    found.append((bi, st["rv"]["variant"].lower() + ":<built>"))
        for bb, msg in found:
            gs = sorted({_norm(g) for g in guard_strings(b, bb, se)} & set(x for x in (_norm(g) for g in guard_strings(b, bb, se)) if LEXICAL.match(x)))
            if b.path != fn:
                # an error worded inside a closure (`ok_or_else(|| ..)`): what dominates it is what dominates the place
                # in the function where the closure is made
                pb = ctx.body(fn)
                gs = None
                if pb is not None:
                    pse = ctx.senv(pb)
                    for bi, blk in enumerate(pb.blocks):
                        if blk["cleanup"]:
                            continue
                        if any(st["k"] == "assign" and st["rv"]["k"] == "agg" and st["rv"].get("agg") == "closure" and strip_lt(st["rv"].get("def", "")) == b.path for st in blk["stmts"]):
                            gs = sorted(x for x in {_norm(g) for g in guard_strings(pb, bi, pse)} if LEXICAL.match(x))
                            break
                if gs is None:
                    continue
            out.setdefault("%s|%s" % (fn, msg), []).append(gs)
    for k in out:
        out[k].sort()
    return out


def load_reference():
    p = os.path.join(VERIF, "rxv", "reject_reference.json")
    return json.load(open(p)) if os.path.exists(p) else None


@rule("REJECT-GUARDS", ["C07", "C17", "C09", "C10"], floor=34)
def reject_guards(ctx):
    """Every site of the compiler that builds Error::Syntax / Error::InvalidFlags is dominated by the same branch
    conditions as on the reference tree: a rejection is neither widened (a condition dropped) nor narrowed (one
    added), none is removed and none is new."""
    ref = load_reference()
    if ref is None:
        return [missing("rxv/reject_reference.json")]
    cur = sites(ctx)
    out = []
    for key in sorted(set(ref) | set(cur)):
        r, c = ref.get(key), cur.get(key)
        fn = key.split("|")[0]
        b = ctx.body(fn)
        loc = b.loc() if b is not None else None
        if c is None:
            out.append(bad("site|" + key, "the rejection %s is no longer made anywhere in %s" % (key.split("|", 1)[1], fn), loc))
            continue
        if r is None:
            out.append(bad("site|" + key, "a rejection that the reference tree does not have: %s under %s" % (key.split("|", 1)[1], c[0][:6]), loc))
            continue
        # what every way of reaching this message has in common (two tests in front of two copies of one message, or
        # one `||` in front of one copy, require the same)
        rs, cs = set(r[0]).intersection(*map(set, r[1:])), set(c[0]).intersection(*map(set, c[1:]))
        if rs == cs:
            out.append(ok("site|" + key))
            continue
        why = []
        if rs - cs:
            why.append("no longer requires %s (the rejection became wider: patterns the grammar allows are refused)" % sorted(rs - cs)[:3])
        if cs - rs:
            why.append("now also requires %s (the rejection became narrower: patterns outside the grammar are let through)" % sorted(cs - rs)[:3])
        out.append(bad("site|" + key, "the condition of the rejection %s changed: %s" % (key.split("|", 1)[1], "; ".join(why)[:600]), loc))
    return out
