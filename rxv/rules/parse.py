"""Parser gates (C07), group numbering (C03), back-reference validity (C19), flattening/optimize (C20)."""
import re
from ..engine import rule, ok, bad, missing
from ..table import render, summarize, strip_ver
from ..sym import show
from ..facts import callee, strip_lt
from ..dom import call_sites, guard_strings, or_guarded

RC = "re_compiler::ReCompiler::"
OC = "operation::OperationControl"


def _sh(s):
    s = s.replace("ReCompiler::", "").replace("<Operation as OperationControl>::", "")
    return re.sub(r"conv<<Operation as From<op_[a-z_]*::[A-Za-z]*>>::from>", "op", s)


from ..engine import rec as _rec, emit as _emit, PathCheck  # noqa: E402




def _paths(ctx, name, mv=1):
    b = ctx.body(RC + name)
    if b is None:
        return None, []
    out = []
    for p in ctx.walk(b, max_visits=mv).paths:
        gs, r = summarize(p)
        out.append((p, [_sh(g) for g in gs], _sh(r)))
    return b, out


SYN = "Result::Err{0: Error::syntax("


def _expr_context(ctx):
    """How parse_expr is told that it parses the whole pattern and not a parenthesised group: the one-element flags
    slice inherited from the Java code (`[NODE_TOPLEVEL]`, tested with `flags[0] & 2`) or a two-valued enum.  Returns
    (guard that holds at top level, argument compile() must pass, test of the argument the '(' arm may pass)."""
    b = ctx.body(RC + "parse_expr")
    topg = None
    if b is not None:
        for p in ctx.walk(b, max_visits=1).paths:
            gs, r = summarize(p)
            if p.end == "return" and "EndProgram::EndProgram" in r and gs:
                topg = strip_ver(_sh(gs[0]))
                break
    if topg == "!eq(bitand(2, a2[0]), 0)":
        return topg, "vec![2]", (lambda a: a == "a2")
    m = re.match(r"^eq\(a2, ((?:\w+::)+\w+)\)$", topg or "")
    if m:
        top = m.group(1)
        enum = top.rsplit("::", 1)[0]
        return topg, top, (lambda a: a.startswith(enum + "::") and a != top)
    return "!eq(bitand(2, a2[0]), 0)", "vec![2]", (lambda a: a == "a2")


@rule("THERE-FOLLOWS", ["C07", "C05", "C09"], floor=4)
def there_follows(ctx):
    """there_follows(s): false when fewer than |s| characters remain; otherwise true iff pattern[idx+k] == s[k] for
    every k (first mismatch -> false). The parser's look-ahead and its bounds safety rest on this.  The comparison
    loop is read in turn-indexed form (rxv/lockstep.py): whether it runs over indices, over the characters of s with
    enumerate, over a zip with the slice pattern[idx..idx+|s|], or pulls the pattern's characters from a second
    iterator - in turn k it compares chars(s)[k] with pattern[idx+k]."""
    from ..lockstep import Lockstep
    b = ctx.body(RC + "there_follows")
    if b is None:
        return [missing(RC + "there_follows")]
    d = {}
    loops = b.natural_loops()
    if len(loops) == 0:
        # no loop: the window pattern[idx..idx+|s|] compared with the characters of s as a whole, after the length test
        LEN0 = r"(?:len\((?:Iterator::collect\()?chars\(a2\)\)?\)|(?:<Chars as Iterator>|Iterator)::count\(chars\(a2\)\)|len\(a2\))"
        LT0 = r"lt\(a1\.len, add\((?:a1\.idx, %s|%s, a1\.idx)\)\)" % (LEN0, LEN0)
        W = r"a1\.pattern\[Range::Range\{start: a1\.idx, end: add\((?:a1\.idx, %s|%s, a1\.idx)\)\}\]" % (LEN0, LEN0)
        S = r"(?:chars\(a2\)|Iterator::collect\(chars\(a2\)\))"
        WI = r"(?:Iterator::copied\(%s\)|Iterator::cloned\(%s\)|%s)" % (W, W, W)
        EQ = r"^(?:Iterator::eq|eq)\((?:%s, %s|%s, %s)\)$" % (WI, S, S, WI)
        rows = [([strip_ver(g) for g in summarize(p)[0]], strip_ver(summarize(p)[1]), p) for p in ctx.walk(b).paths]
        short = [x for x in rows if x[0] and re.match("^" + LT0 + "$", x[0][0])]
        fits = [x for x in rows if x[0] and re.match("^!" + LT0 + "$", x[0][0])]
        if "len(a2)" in "".join(g for x in rows for g in x[0]) :
            fits = []  # the byte length of s is not its number of characters
        good_short = bool(short) and all(r == "false" and len(gs) == 1 for gs, r, p in short)
        good_fits = bool(fits) and len(short) + len(fits) == len(rows) and all(len(gs) == 1 and re.match(EQ, r) for gs, r, p in fits)
        _rec(d, "too-short", good_short, "when fewer than |s| characters remain there_follows must answer false", b.loc())
        for k in ("length-test", "runs-over-s", "compares-same-index", "true-after-all-equal", "false-on-mismatch", "continues-on-match"):
            _rec(d, k, good_short and good_fits, "without a loop there_follows must be: length test, then equality of the window pattern[idx..idx+|s|] with the characters of s as a whole; found %s" % [(gs, r[:120]) for gs, r, p in rows][:3], b.loc())
        return _emit(d)
    if len(loops) != 1:
        return [bad("shape", "there_follows must compare the characters in one loop (found %d)" % len(loops), b.loc())]
    h = next(iter(loops))
    SK = "chars(a2)[k]"
    PK = "a1.pattern[add(a1.idx, k)]"
    LEN = r"(?:len\((?:Iterator::collect\()?chars\(a2\)\)?\)|(?:<Chars as Iterator>|Iterator)::count\(chars\(a2\)\))"
    LT = r"lt\(a1\.len, add\((?:a1\.idx, %s|%s, a1\.idx)\)\)" % (LEN, LEN)
    # what precedes the loop: the length test (absent when the pattern's characters are pulled from an iterator that
    # simply runs out)
    pre = set()
    for p in ctx.walk(b, max_visits=1).paths:
        gs = [strip_ver(g) for g in summarize(p)[0]]
        r = strip_ver(summarize(p)[1])
        if gs and re.match("^" + LT + "$", gs[0]):
            _rec(d, "too-short", r == "false" and p.end == "return" and len(gs) == 1, "when fewer than |s| characters remain there_follows must answer false; found %s" % r, b.loc(p.blocks[-1]))
            pre.add("tested")
        elif gs and re.match("^!" + LT + "$", gs[0]):
            pre.add("tested")
    checked_in_loop = False
    for p in Lockstep(ctx, b, h).paths(ctx):
        gs, r = summarize(p)
        gs = [strip_ver(g) for g in gs]
        r = strip_ver(r)
        loc = b.loc(p.blocks[-1])
        drv = [g for g in gs if g.startswith("variant(next(<")]
        if not drv:
            _rec(d, "driver", False, "the comparison loop is not driven by the characters of s (guards %s)" % gs[:2], loc)
            continue
        m = re.match(r"^variant\(next\(<(.*)>\)\)=(Some|None)$", drv[0])
        seq = m.group(1) if m else "?"
        over_s = seq in ("0..len(chars(a2))",) or re.match(r"^min\((a1\.pattern\[a1\.idx\.\.add\(a1\.idx, %s\)\]; 0\.\.len\(chars\(a2\)\)|0\.\.len\(chars\(a2\)\); a1\.pattern\[a1\.idx\.\.add\(a1\.idx, %s\)\])\)$" % (LEN, LEN), seq) is not None
        _rec(d, "runs-over-s", over_s, "the loop must run over all characters of s from the first; it runs over %s" % seq, loc)
        cmps = [g for g in gs if re.match(r"^!?eq\(", g)]
        INR = "lt(add(a1.idx, k), a1.len)"
        if ("!" + INR) in gs:
            # the pattern runs out in this turn (bounds tested inside the loop, position counted up by hand)
            _rec(d, "too-short", r == "false" and p.end == "return" and not cmps, "when the pattern ends before s does there_follows must answer false; found %s" % r, loc)
            checked_in_loop = True
            continue
        if m and m.group(2) == "None":
            _rec(d, "true-after-all-equal", r == "true" and p.end == "return" and not cmps, "when s is used up without a mismatch the answer must be true; found %s" % r, loc)
            continue
        if not cmps:
            _rec(d, "compares-same-index", False, "a turn of the loop compares nothing (guards %s)" % gs, loc)
            continue
        g = cmps[-1]
        g1 = g.lstrip("!")
        direct = g1 in ("eq(%s, %s)" % (SK, PK), "eq(%s, %s)" % (PK, SK))
        # the pattern's characters pulled from a second, checked iterator: over the pattern from idx on, or over the
        # checked sub-slice pattern[idx..len] / pattern[idx..]
        WIN = r"<(?:0\.\.len\(a1\.pattern\) skip a1\.idx|a1\.pattern\[a1\.idx\.\.(?:a1\.len|len\(a1\.pattern\))?\])>"
        opt = re.match(r"^eq\((?:Option::Some\{0: (?:ref\()?%s\)?\}, within\(%s, %s\)|within\(%s, %s\), Option::Some\{0: (?:ref\()?%s\)?\})\)$" % (re.escape(SK), re.escape(PK), WIN, re.escape(PK), WIN, re.escape(SK)), g1) is not None
        _rec(d, "compares-same-index", direct or opt, "turn k must compare the k-th character of s with pattern[idx+k]; found %s" % g[:200], loc)
        if opt or INR in gs:
            checked_in_loop = True
        if g.startswith("!"):
            _rec(d, "false-on-mismatch", r == "false" and p.end == "return", "a mismatch must answer false; found %s (%s)" % (r, p.end), loc)
        else:
            _rec(d, "continues-on-match", p.end.startswith("loop"), "after an equal pair the comparison must go on with the next pair", loc)
    # bounds: either the length was tested before the loop or every pattern character is fetched with a range check
    _rec(d, "length-test", bool(pre) or checked_in_loop, "pattern[idx+k] is read without idx + |s| <= len having been established (no length test before the loop, and the characters are not fetched through a checked iterator)", b.loc())
    if checked_in_loop and not pre:
        d.setdefault("too-short", [True, "", None])
    for k in ("too-short", "true-after-all-equal", "false-on-mismatch", "compares-same-index"):
        if k not in d:
            d[k] = [False, "there_follows lost its %s clause (restructured look-ahead: re-audit)" % k, b.loc()]
    return _emit(d)


@rule("PARSE-DISPATCH", ["C07", "C17", "C09", "C11", "C12", "C19", "C01"], floor=14)
def parse_dispatch(ctx):
    """parse_terminal dispatch table: $ ^ -> Eol/Bol under XPath (else atom); . -> class; [ -> class expression;
    ( -> group; ) ] ? + { * -> Error::Syntax; \\ -> escape (back-reference / class / literal); anything else an atom."""
    b, paths = _paths(ctx, "parse_terminal")
    if b is None:
        return [missing(RC + "parse_terminal")]
    d = {}
    seen = set()
    for p, gs, r in paths:
        loc = b.loc(p.blocks[-1])
        m = re.match(r"(?s)^a1\.pattern\[a1\.idx\]=(?:'(.)'|other)$", gs[0]) if gs else None
        if not m:
            _rec(d, "dispatch", False, "parse_terminal does not start by dispatching on pattern[idx]", loc)
            continue
        ch = m.group(1) or "other"
        seen.add(ch)
        st = dict((strip_ver(show(e[1])), strip_ver(render(e[2]))) for e in p.effects if e[0] == "store")
        if ch in "$^":
            x = [g for g in gs if "ReFlags::language(a1.re_flags)" in g]
            nm = "Eol" if ch == "$" else "Bol"
            if not x:
                _rec(d, "anchor|%s" % nm, False, "'%s' does not consult the dialect" % ch, loc)
            elif x[0] == "eq(ReFlags::language(a1.re_flags), Language::XPath)":
                _rec(d, "anchor|%s|xpath" % nm, r == "Result::Ok{0: op(%s::%s)}" % (nm, nm) and st.get("a1.idx") == "add(1, a1.idx)", "'%s' under XPath must be the %s operator (one character consumed); found %s" % (ch, nm, r[:60]), loc)
            else:
                _rec(d, "anchor|%s|xsd" % nm, strip_ver(r) == "parse_atom(a1)", "'%s' outside XPath must be parsed as an ordinary atom character; found %s" % (ch, r[:60]), loc)
        elif ch == ".":
            _rec(d, "dot", r.startswith("Result::Ok{0: op(CharClass::new(") and st.get("a1.idx") == "add(1, a1.idx)", "'.' must be a character class (one character consumed)", loc)
        elif ch == "[":
            good = r.startswith("propagate(") or r == "Result::Ok{0: op(CharClass::new(CharacterClassBuilder::build(try(parse_character_class(a1)) as Continue.0)))}"
            _rec(d, "class", good, "'[' must be parse_character_class()?.build(); found %s" % r[:100], loc)
        elif ch == "(":
            mg = re.match(r"^parse_expr\(a1, (.*)\)$", r)
            _rec(d, "group", bool(mg) and _expr_context(ctx)[2](mg.group(1)), "'(' must be parse_expr with the context of a nested expression; found %s" % r[:60], loc)
        elif ch in ")]?+{*":
            _rec(d, "reject|%s" % ch, r.startswith(SYN), "'%s' at the start of a term must be Error::Syntax; found %s" % (ch, r[:60]), loc)
        elif ch == "|":
            _rec(d, "bar", r.startswith("Result::Err"), "'|' cannot start a term", loc)
        elif ch == "\\":
            v = [g for g in gs if g.startswith("variant(try(escape(a1, false)) as Continue.0")]
            if r.startswith("propagate("):
                _rec(d, "escape|error", True, "", loc)
            elif any(g.endswith("=BackReference") for g in v):
                n = "try(escape(a1, false)) as Continue.0 as BackReference.0"
                inr = [g for g in gs if strip_ver(g).lstrip("!") == "lt(%s, a1.capturing_open_paren_count)" % n]
                if inr and not inr[0].startswith("!"):
                    _rec(d, "escape|backref", r == "Result::Ok{0: op(BackReference::new(%s))}" % n, "a back-reference escape must become BackReference::new(n); found %s" % r[:100], loc)
                elif inr:
                    _rec(d, "escape|backref-range", r.startswith(SYN), "a back-reference to a group that is not open must be Error::Syntax", loc)
                else:
                    _rec(d, "escape|backref-range", False, "a back-reference is accepted without comparing it with the number of groups opened so far", loc)
            elif any(g.endswith("=Char") for g in v):
                _rec(d, "escape|literal", strip_ver(r) == "parse_atom(a1)" and st.get("a1.idx") == "a1.idx", "a single-character escape must be re-read by parse_atom from the backslash (idx restored); found %s / idx=%s" % (r[:40], st.get("a1.idx")), loc)
            else:
                _rec(d, "escape|class", r.startswith("Result::Ok{0: op(CharClass::new(CharacterClassBuilder::build("), "a class escape must become a CharClass; found %s" % r[:80], loc)
        else:
            _rec(d, "atom", strip_ver(r) == "parse_atom(a1)", "any other character starts an atom; found %s" % r[:60], loc)
    for ch in "$^.[()|]?+{*\\":
        if ch not in seen:
            d["arm-missing|%s" % ch] = [False, "parse_terminal lost its arm for '%s'" % ch, b.loc()]
    extra = seen - set("$^.[()|]?+{*\\") - {"other"}
    for ch in sorted(extra):
        d["extra-arm|%s" % ch] = [False, "parse_terminal treats '%s' specially; the grammar has no such terminal" % ch, b.loc()]
    out = _emit(d)
    # what an arm builds also bears on the property of the construct it builds: a class expression must become a
    # CharClass over exactly its set (C09; under flag i an Atom would compare case-blind what the class did not
    # close, C11), the dot a class (C12), an escape a back-reference (C19)
    scope = {"class": ["C09", "C11"], "dot": ["C12"], "anchor": ["C12"], "escape": ["C19", "C09"]}
    for i_ in out:
        extra_p = next((v for k, v in scope.items() if i_.key == k or i_.key.startswith(k + "|")), [])
        i_.props = ["C07", "C17", "C01"] + extra_p
    return out


@rule("PARSE-GROUP", ["C07", "C03", "C19", "C17", "C01", "C16"], floor=8)
def parse_group(ctx):
    """parse_expr: a capturing group takes its number from the counter at its opening parenthesis (pre-order),
    the counter is incremented before the contents are parsed, ')' must close it (else Error::Syntax), and only then
    - and only for a capturing group - is the number recorded as closed (back-references to it become legal);
    '(?:' opens a non-capturing group (XPath only); the top level ends with EndProgram; several branches become a
    Choice in source order."""
    b, paths = _paths(ctx, "parse_expr")
    if b is None:
        return [missing(RC + "parse_expr")]
    d = {}
    CNT = "a1.capturing_open_paren_count"
    for p, gs, r in paths:
        loc = b.loc(p.blocks[-1])
        gs0 = [strip_ver(g) for g in gs]
        top = gs0 and gs0[0] == _expr_context(ctx)[0]
        paren = "eq('(', a1.pattern[a1.idx])" in gs0
        noncap = paren and "eq('?', a1.pattern[add(1, a1.idx)])" in gs0 and "eq(':', a1.pattern[add(2, a1.idx)])" in gs0
        if p.end != "return" or r.startswith("propagate("):
            continue
        cs = [(e[1], [strip_ver(_sh(render(x))) for x in e[2]], e[3]) for e in p.effects if e[0] == "call"]
        ins = [c for c in cs if c[0].endswith("HashSet::insert") or c[0].endswith("::insert")]
        st = [(strip_ver(show(e[1])), strip_ver(render(e[2])), e[3]) for e in p.effects if e[0] == "store"]
        pb = [i for i, c in enumerate(cs) if c[0] == "ReCompiler::parse_branch"]
        rs = strip_ver(r)
        if not paren:
            good = rs.startswith("Result::Ok{0: make_sequence(") and rs.endswith(", op(EndProgram::EndProgram))}")
            _rec(d, "toplevel|end-program", good and not ins, "the top-level expression must end with EndProgram (and record no group); found %s" % rs[:120], loc)
            continue
        closed = [g for g in gs0 if g.lstrip("!") == "eq(')', a1.pattern[a1.idx])"]
        if rs.startswith(SYN):
            if "Missing close paren" in rs:
                _rec(d, "unclosed-rejected", not closed or closed[-1].startswith("!"), "'Missing close paren' although ')' was found", loc)
            continue
        if not rs.startswith("Result::Ok"):
            continue
        _rec(d, "close-paren-required", bool(closed) and not closed[-1].startswith("!") and "lt(a1.idx, a1.len)" in gs0, "a parenthesised group is accepted without finding ')' (guards %s)" % gs0[-2:], loc)
        if noncap:
            xp = [g for g in gs0 if "ReFlags::language(a1.re_flags)" in g]
            _rec(d, "noncapturing|dialect", bool(xp) and xp[0] == "eq(ReFlags::language(a1.re_flags), Language::XPath)", "a non-capturing group is accepted without establishing the XPath dialect", loc)
            _rec(d, "noncapturing|no-capture", "Capture::new(" not in rs and not ins, "a non-capturing group must not create a Capture nor mark a group number as closed (found insert %s)" % [c[1][1:] for c in ins], loc)
            _rec(d, "noncapturing|counter", not any(s[0] == CNT for s in st), "a non-capturing group must not consume a group number", loc)
        else:
            _rec(d, "capture|numbered-at-open", ("Capture::new(%s, " % CNT) in rs, "a capturing group must carry the number the counter had at its opening parenthesis; found %s" % rs[:100], loc)
            inc = [s for s in st if s[0] == CNT]
            _rec(d, "capture|counter-incremented-before-contents", len(inc) == 1 and inc[0][1] == "add(1, %s)" % CNT and bool(pb) and b.dominates(inc[0][2], cs[pb[0]][2]) and inc[0][2] != cs[pb[0]][2] or (len(inc) == 1 and inc[0][1] == "add(1, %s)" % CNT and inc[0][2] <= cs[pb[0]][2]), "the group counter must be incremented exactly once, before the group's contents are parsed (pre-order numbering)", loc)
            _rec(d, "capture|closed-after-paren", len(ins) == 1 and ins[0][1][1] == CNT, "closing a capturing group must record exactly its own number (the counter value at its opening) as closed; inserts %s" % [c[1][1:] for c in ins], loc)
    # inserts happen only for capturing groups: every insert site is dominated by the capturing test
    se = ctx.senv(b)
    for bb, t, r_ in call_sites(b, lambda r: r.endswith("::insert") and "HashSet" in r):
        gsx = guard_strings(b, bb, se)
        capt = [g for g in gsx if re.match(r"^!?v\d+$", g) or re.match(r"^!?argvar", g)]
        par = any(("variant(v" in g and "=Some" in g) or re.match(r"^isSome\(v\d+\)$", g) for g in gsx)
        # the "inside parentheses" fact may as well be a second boolean local (has_paren) next to `capturing`
        par = par or len({g.lstrip("!") for g in capt}) >= 2
        # ... or both facts are one enum-valued local (absent / capturing(n) / non-capturing): its capturing variant
        ev = [g for g in gsx if re.match(r"^variant\(v\d+\)=(?!Some$|None$|Ok$|Err$|Continue$|Break$)\w+$", g)]
        if ev and not capt:
            capt, par = ev, True
        _rec(d, "closed-only-if-capturing", bool(capt) and par, "captures.insert is not guarded by `capturing` (a closing non-capturing group would mark the next group number as closed: '(?:a)(b\\1)' accepted); guards %s" % sorted(gsx)[:4], b.loc(bb))
    for k in ("toplevel|end-program", "close-paren-required", "capture|numbered-at-open", "capture|closed-after-paren", "noncapturing|no-capture", "closed-only-if-capturing"):
        if k not in d:
            d[k] = [False, "parse_expr lost its %s clause" % k, b.loc()]
    # every '|' opens a branch, an empty one included (`a|` has two alternatives, the second matches the empty string):
    # from the place where a bar is consumed, no way leads out of the function except through parse_branch
    pbs = {bb for bb, t, r_ in call_sites(b, lambda r: r.endswith("ReCompiler::parse_branch"))}
    bars = []
    for bi, blk in enumerate(b.blocks):
        if blk.get("cleanup"):
            continue
        for st_ in blk["stmts"]:
            if st_["k"] == "assign" and any(isinstance(e, dict) and e.get("f") == "idx" for e in st_["place"]["p"]):
                gsx = [strip_ver(g) for g in guard_strings(b, bi, se)]
                if any(re.search(r"pattern\[.*idx.*\]='\|'$", g) or re.search(r"^eq\('\|', .*pattern\[.*idx", g) for g in gsx):
                    bars.append(bi)
    if not bars:
        _rec(d, "bar-opens-a-branch", False, "parse_expr has no place where it consumes a '|' (restructured; re-audit)", b.loc())
    for bi in bars:
        seen_, stack, leak = {bi}, ([] if bi in pbs else [bi]), None
        while stack and leak is None:
            x = stack.pop()
            if x != bi and x in pbs:
                continue
            t_ = b.blocks[x]["term"]
            if t_["k"] == "return":
                leak = x
                break
            for y in b.succs(x):
                if y not in seen_ and not b.blocks[y].get("cleanup"):
                    seen_.add(y)
                    stack.append(y)
        _rec(d, "bar-opens-a-branch", leak is None, "after a '|' was consumed parse_expr can return without having parsed the branch behind it (an empty alternative at the end of the pattern - 'a|' - is dropped: the regex no longer matches the empty string and is not refused)", b.loc(bi))
    # alternation: Choice::new(branches collected in push order)
    ch = call_sites(b, lambda r: r.endswith("op_choice::Choice::new"))
    _rec(d, "choice-in-source-order", bool(ch) and not call_sites(b, lambda r: r.endswith("::rev") or r.endswith("::reverse") or r.endswith("::sort")), "several branches must become Choice::new(branches) in the order parsed", b.loc())
    return _emit(d)


@rule("PARSE-EOI", ["C07", "C14", "C13", "C15", "C03", "C19"], floor=3)
def parse_eoi(ctx):
    """compile(): a program is returned on the non-literal path only when the parser consumed the whole pattern
    (idx == len); otherwise Error::Syntax."""
    b, paths = _paths(ctx, "compile", 2)
    if b is None:
        return [missing(RC + "compile")]
    d = {}
    for p, gs, r in paths:
        gs0 = [strip_ver(g) for g in gs]
        if "!ReFlags::is_literal(a1.re_flags)" not in gs0 or p.end != "return":
            continue
        loc = b.loc(p.blocks[-1])
        if r.startswith("Result::Ok"):
            _rec(d, "ok-only-at-end", any(re.match(r"^eq\((a1\.len|len\(.*\)), a1\.idx\)$|^eq\(a1\.idx, (a1\.len|len\(.*\))\)$", g) for g in gs0), "compile() returns a program although input remains (idx == len not established)", loc)
            _rec(d, "optimize-applied", ("optimize(try(parse_expr(a1, %s)) as Continue.0, a1.re_flags)" % _expr_context(ctx)[1]) in strip_ver(r), "the parsed operation must be optimised with the regex flags and handed to ReProgram::new", loc)
            pn = [e for e in p.effects if e[0] == "call" and e[1].endswith("ReProgram::new")]
            _rec(d, "group-count-is-parser-counter", len(pn) == 1 and strip_ver(render(pn[0][2][2])) == "Option::Some{0: a1.capturing_open_paren_count}", "the program's group count (max_parens) must be the parser's counter of opening parentheses - $N, the back-reference arrays and analyze number groups by it; found %s" % [strip_ver(render(e[2][2]))[:80] for e in pn], loc)
        elif any(re.match(r"^!eq\((a1\.len|len\(.*\)), a1\.idx\)$|^!eq\(a1\.idx, (a1\.len|len\(.*\))\)$", g) for g in gs0):
            _rec(d, "leftover-rejected", r.startswith(SYN), "left-over input must be Error::Syntax; found %s" % r[:60], loc)
    hb = [1 for p, gs, r in paths if "a1.has_back_references" in [strip_ver(g) for g in gs]]
    _rec(d, "backrefs-flag", bool(hb), "compile() must set OPT_HASBACKREFS from has_back_references", b.loc())
    for p, gs, r in paths:
        gs0 = [strip_ver(g) for g in gs]
        if "a1.has_back_references" in gs0 and r.startswith("Result::Ok"):
            st = [strip_ver(render(e[2])) for e in p.effects if e[0] == "store" and strip_ver(show(e[1])).endswith(".optimization_flags")]
            _rec(d, "backrefs-flag-set", any(s.startswith("bitor(1, ") for s in st), "with back-references compile() must OR OPT_HASBACKREFS (1) into optimization_flags", b.loc(p.blocks[-1]))
    return _emit(d)


def _top_pair(s):
    """'a, b' -> (a, b) split at the top-level comma"""
    depth = 0
    for i, ch in enumerate(s):
        if ch in "([{":
            depth += 1
        elif ch in ")]}":
            depth -= 1
        elif ch == "," and depth == 0:
            return s[:i].strip(), s[i + 1:].strip()
    return None


@rule("PARSE-BRACKET", ["C07", "C20", "C01"], floor=6)
def parse_bracket(ctx):
    """bracket(): {m} -> (m,m); {m,} -> (m,MAX); {m,n} -> (m,n) only if n >= m; every success consumed the closing
    '}'; numbers come from str::parse::<usize> with Error::Syntax on failure; everything else is Error::Syntax."""
    b, paths = _paths(ctx, "bracket", 2)
    if b is None:
        return [missing(RC + "bracket")]
    d = {}
    for p, gs, r in paths:
        if p.end != "return":
            continue
        gs0 = [strip_ver(g) for g in gs]
        loc = b.loc(p.blocks[-1])
        st = {}
        for e in p.effects:
            if e[0] == "store":
                st[strip_ver(show(e[1]))] = _sh(strip_ver(render(e[2])))
        rt = _top_pair(strip_ver(r)[len("Result::Ok{0: ("):-2]) if strip_ver(r).startswith("Result::Ok{0: (") and strip_ver(r) != "Result::Ok{0: ()}" else None
        if rt is None:
            # ... or as a two-field struct {min, max} (whatever it is called)
            ms = re.match(r"^Result::Ok\{0: (?:\w+::)+\w+\{(\w+): (.*)\}\}$", strip_ver(r))
            if ms:
                inner = _top_pair(strip_ver(r)[strip_ver(r).index("{", len("Result::Ok{0: ")) + 1:-2])
                if inner and re.match(r"^\w*min\w*: ", inner[0]) and re.match(r"^\w*max\w*: ", inner[1]):
                    rt = (inner[0].split(": ", 1)[1], inner[1].split(": ", 1)[1])
        if r == "Result::Ok{0: ()}" or rt is not None:
            closes = [g for g in gs0 if re.match(r"^eq\('\}', a1\.pattern\[.*\]\)$", g)]
            _rec(d, "ok-consumed-brace", bool(closes), "bracket() succeeds without having seen the closing '}'", loc)
            # the bounds: stored in the two compiler fields, or handed back as the pair (min, max)
            mx = _sh(rt[1]) if rt else st.get("a1.bracket_max")
            mn = _sh(rt[0]) if rt else st.get("a1.bracket_min")
            _rec(d, "min-parsed", mn is not None and "parse(" in mn, "bracket_min must be the parsed number; found %s" % (mn or "")[:80], loc)
            comma = any(re.match(r"^eq\(',', a1\.pattern\[", g) for g in gs0)
            if not comma:
                _rec(d, "exact|{m}", mx == "a1.bracket_min" or mx == mn, "{m}: max must equal min; found %s" % (mx or "")[:60], loc)
            elif mx == "MAX":
                _rec(d, "open|{m,}", True, "", loc)
            else:
                _rec(d, "range|{m,n}|parsed", mx is not None and "parse(" in mx, "{m,n}: max must be the parsed second number; found %s" % (mx or "")[:60], loc)
                _rec(d, "range|{m,n}|ordered", "!lt(a1.bracket_max, a1.bracket_min)" in gs0 or ("!lt(%s, %s)" % (mx, mn)) in gs0, "{m,n} is accepted without establishing n >= m", loc)
        elif r.startswith("Result::Err{0: Error::Internal"):
            pass
        elif not (r.startswith(SYN) or r.startswith("propagate(")):
            _rec(d, "error-class", False, "bracket() fails with %s" % r[:60], loc)
    for k in ("exact|{m}", "open|{m,}", "range|{m,n}|ordered", "ok-consumed-brace"):
        if k not in d:
            d[k] = [False, "bracket() lost its %s clause" % k, b.loc()]
    # parse errors are mapped to Error::Syntax: closures of map_err
    for cl in [x for x in ctx.f.bodies if x.path.startswith(RC + "bracket::{closure")]:
        rs = {_sh(render(p.ret)) for p in ctx.walk(cl).paths}
        _rec(d, "number-error|" + cl.path.split("::")[-1], all(x.startswith("Error::syntax(") for x in rs), "a malformed/overflowing bound must be Error::Syntax; found %s" % sorted(rs), cl.loc())
    return _emit(d)


@rule("PARSE-BACKREF-VALID", ["C07", "C19", "C17"], floor=4)
def parse_backref_valid(ctx):
    """escape(): a digit escape becomes a back-reference only outside [...], only under XPath, and only to a group
    that is already closed (captures.contains); further digits are absorbed while the number does not exceed the
    number of groups opened so far; has_back_references is set."""
    from .tables import escape_arms

    ea = escape_arms(ctx)
    if ea is None:
        return [missing(RC + "escape")]
    b, arms, w = ea
    d = {}
    n_ok = 0
    for dg in "123456789":
        for p in arms.get(dg, []):
            gs, r = summarize(p)
            gs0 = [strip_ver(_sh(g)) for g in gs]
            r = _sh(r)
            loc = b.loc(p.blocks[-1])
            if p.end != "return":
                continue
            if "BackReference" in r and r.startswith("Result::Ok"):
                n_ok += 1
                _rec(d, "outside-class", "!a2" in gs0, "a back-reference is accepted inside a character class", loc)
                _rec(d, "xpath-only", any(g in ("eq(ReFlags::language(a1.re_flags), Language::XPath)",) for g in gs0), "a back-reference is accepted without establishing the XPath dialect", loc)
                _rec(d, "closed-group-only", any(g.startswith("HashSet::contains(a1.captures, ") for g in gs0), "a back-reference is accepted without checking that the group is closed (captures.contains)", loc)
                st = dict((strip_ver(show(e[1])), strip_ver(render(e[2]))) for e in p.effects if e[0] == "store")
                _rec(d, "marks-program", st.get("a1.has_back_references") == "true", "accepting a back-reference must set has_back_references (the matcher allocates the back-reference arrays from it)", loc)
            elif "a2" in gs0 and "!a2" not in gs0:
                _rec(d, "in-class-rejected", r.startswith(SYN), "a digit escape inside [...] must be Error::Syntax", loc)
    _rec(d, "accepting-paths", n_ok >= 9, "digit escapes 1-9 must each have an accepting path", b.loc())
    # multi-digit absorption: loop turn from its header
    loops = b.natural_loops()
    good = False
    for h in loops:
        for p in ctx.walk(b, start_bb=h).paths:
            gs, r = summarize(p)
            gs0 = [strip_ver(g) for g in gs]
            cand = [g for g in gs0 if re.match(r"^!?lt\(sub\(a1\.capturing_open_paren_count, 1\), add\(mul\(10, uninit\(\d+\)\), \(.* as usize\)\)\)$", g) or re.match(r"^!?lt\(sub\(a1\.capturing_open_paren_count, 1\), add\(\(.* as usize\), mul\(10, uninit\(\d+\)\)\)\)$", g)]
            if cand:
                good = True
    _rec(d, "multi-digit-bound", good, "further digits of \\N must be absorbed only while 10*n+d <= (number of groups opened so far); the comparison with capturing_open_paren_count - 1 was not found", b.loc())
    return _emit(d)


PCC = RC + "parse_character_class"


@rule("PARSE-CLASS-GATES", ["C07", "C09"], floor=5)
def parse_class_gates(ctx):
    """parse_character_class rejections the grammar needs: a range needs start <= end before it is added; a
    subtraction must be the last item (']' must follow the nested class); an empty or unterminated class, an
    unescaped '[' and a class escape as range end point are Error::Syntax."""
    b = ctx.body(PCC)
    if b is None:
        return [missing(PCC)]
    d = {}
    se = ctx.senv(b)
    loops = b.natural_loops()
    if not loops:
        return [bad("loop", "parse_character_class has no loop", b.loc())]
    h = max(loops, key=lambda x: len(loops[x]))
    paths = []
    for p in ctx.walk(b, start_bb=h).paths:
        gs, r = summarize(p)
        paths.append((p, [strip_ver(_sh(g)) for g in gs], _sh(r)))
    n_range = 0
    for p, gs, r in paths:
        loc = b.loc(p.blocks[-1])
        cs = [(e[1], [strip_ver(_sh(render(x))) for x in e[2]]) for e in p.effects if e[0] == "call"]
        ar = [c for c in cs if c[0] == "CodePointInversionListBuilder::add_range"]
        for c in ar:
            n_range += 1
            okk = False
            for g in gs:
                mm = re.match(r"^!lt\((.*)\)$", g)
                if not mm:
                    continue
                inner = mm.group(1)
                # split "X, Y" at every top-level comma and test RangeInclusive::new(Y, X)
                depth = 0
                for i, chx in enumerate(inner):
                    if chx in "([{":
                        depth += 1
                    elif chx in ")]}":
                        depth -= 1
                    elif chx == "," and depth == 0 and inner[i + 1:i + 2] == " ":
                        X, Y = inner[:i], inner[i + 2:]
                        if c[1][1] == "RangeInclusive::new(%s, %s)" % (Y, X):
                            okk = True
            _rec(d, "range-ordered", okk, "a range is added without establishing start <= end (a reversed range must be Error::Syntax); guards %s" % [g for g in gs if g.lstrip("!").startswith("lt(")][:3], loc)
        nested = [i for i, c in enumerate(cs) if c[0] == "ReCompiler::parse_character_class"]
        if nested and not r.startswith(("propagate(", SYN)):
            tf = [g for g in gs if g.lstrip("!") == 'there_follows(a1, "]")']
            _rec(d, "subtraction-is-last", bool(tf) and not tf[-1].startswith("!"), "after a subtracted class the outer class is continued without requiring ']' ([a-z-[aeiou]b] accepted)", loc)
        if nested and any(g == '!there_follows(a1, "]")' for g in gs):
            _rec(d, "subtraction-not-last-rejected", r.startswith(SYN), "content after a subtracted class must be Error::Syntax", loc)
        if any(re.match(r"(?s)^a1\.pattern\[a1\.idx\]='\['$", g) for g in [x for x in gs if "is_case_independent" not in x][:3]):
            _rec(d, "unescaped-bracket-rejected", r.startswith(SYN), "an unescaped '[' inside a class must be Error::Syntax", loc)
    _rec(d, "range-site", n_range >= 1, "parse_character_class no longer adds ranges", b.loc())
    # entry: empty class and end of input
    for p in ctx.walk(b).paths:
        gs, r = summarize(p)
        gs0 = [strip_ver(_sh(g)) for g in gs]
        r = _sh(r)
        if p.end == "return" and len(gs0) <= 3 and any(g in ("!lt(add(2, a1.idx), a1.len)", "eq(']', a1.pattern[add(1, a1.idx)])") for g in gs0):
            _rec(d, "empty-or-unterminated-rejected", r.startswith(SYN), "'[' at the end of the pattern or '[]' must be Error::Syntax; found %s" % r[:60], b.loc(p.blocks[-1]))
    # end of input inside the class
    for p, gs, r in paths:
        if p.end == "return" and any(g in ("eq(a1.idx, a1.len)", "eq(a1.len, a1.idx)") for g in gs):
            _rec(d, "unterminated-rejected", r.startswith(SYN), "running out of input inside a class must be Error::Syntax; found %s" % r[:60], b.loc(p.blocks[-1]))
    for k in ("range-ordered", "subtraction-is-last", "unescaped-bracket-rejected", "unterminated-rejected"):
        if k not in d:
            d[k] = [False, "parse_character_class lost its %s gate" % k, b.loc()]
    return _emit(d)


@rule("REJECT-FLOORS", ["C07"], floor=8)
def reject_floors(ctx):
    """Per parser function, the number of Error::Syntax / InvalidFlags constructions does not fall below the number
    confirmed by reading: a removed check lowers a count."""
    floors = {
        RC + "bracket": 9, RC + "escape": 10, RC + "parse_character_class": 12, RC + "parse_atom": 2, RC + "parse_terminal": 4,
        RC + "piece": 2, RC + "parse_expr": 2, RC + "compile": 2, "category::get_category_group": 1, "category::BlockLookup::lookup": 1, "re_flags::ReFlags::new": 3,
    }
    # a private lookup and its only caller are counted together: which of the two words the rejection is a matter of style
    together = {"category::get_category_group": ["category::category_group"], "category::BlockLookup::lookup": ["category::block"]}
    out = []
    for P, fl in sorted(floors.items()):
        b = ctx.body(P)
        if b is None:
            out.append(missing(P))
            continue
        n = 0
        bodies = [b] + [x for x in ctx.f.bodies if x.path.startswith(P + "::{closure")]
        for Q in together.get(P, []):
            if ctx.body(Q) is not None:
                bodies += [ctx.body(Q)] + [x for x in ctx.f.bodies if x.path.startswith(Q + "::{closure")]
        for bd in bodies:
            # a closure created at k places of the function (e.g. a helper inlined at k call sites) counts k times
            w = 1
            if bd is not b and bd.path.startswith(P + "::{closure"):
                w = max(1, sum(1 for blk in b.blocks if not blk["cleanup"] for st in blk["stmts"] if st["k"] == "assign" and st["rv"]["k"] == "agg" and st["rv"].get("agg") == "closure" and strip_lt(st["rv"].get("def", "")) == bd.path))
            for bb, t, r in call_sites(bd, lambda r: r == "re_compiler::Error::syntax"):
                n += w
            for blk in bd.blocks:
                if blk["cleanup"]:
                    continue
                for st in blk["stmts"]:
                    if st["k"] == "assign" and st["rv"]["k"] == "agg" and strip_lt(st["rv"].get("adt", "")) == "re_compiler::Error" and st["rv"]["variant"] in ("InvalidFlags", "Syntax"):
                        n += w
        name = P.split("::")[-1]
        out.append(ok("floor|%s" % name) if n >= fl else bad("floor|%s" % name, "%s constructs %d syntax/flag errors; %d rejections were confirmed by reading: a check was removed" % (P, n, fl), b.loc()))
    return out


@rule("SEQ-FLATTEN", ["C20", "C01"], floor=4)
def seq_flatten(ctx):
    """make_sequence(o1, o2) concatenates: ops(o1) ++ ops(o2) in all four arms (a Sequence contributes its
    operations, anything else itself)."""
    P = RC + "make_sequence"
    b = ctx.body(P)
    if b is None:
        return [missing(P)]
    d = {}
    for p in ctx.walk(b, max_visits=1).paths:
        gs, r = summarize(p)
        gs0 = [strip_ver(g) for g in gs]
        v1 = [g for g in gs0 if g.startswith("variant(a1)")]
        v2 = [g for g in gs0 if g.startswith("variant(a2)")]
        if not v1 or not v2:
            continue
        s1 = v1[-1] == "variant(a1)=Sequence"
        s2 = v2[-1] == "variant(a2)=Sequence"
        key = "arm|%s,%s" % ("Sequence" if s1 else "other", "Sequence" if s2 else "other")
        loc = b.loc(p.blocks[-1])
        cs = [(e[1], [strip_ver(render(x)) for x in e[2]]) for e in p.effects if e[0] == "call" and (e[1].endswith("::push") or "extend" in e[1].lower() or e[1] == "Sequence::new")]
        seq = []
        for c in cs:
            if c[0] == "Sequence::new":
                break
            seq.append(c[1][-1])
        A = "a1 as Sequence.0.operations" if s1 else "a1"
        B = "a2 as Sequence.0.operations" if s2 else "a2"
        r0 = strip_ver(render(p.ret))
        # what the new sequence holds, in order: the vector it is built from may start out as o1's own operations
        # (appended to in place) or empty; then everything appended to it
        r1 = r0.replace("′", "")
        if "Sequence::new(vec![a1, a2])" in r1 and not seq:
            content = ["a1", "a2"]
        elif ("Sequence::new(%s" % A) in r1 and s1:
            content = [A] + seq
        else:
            content = seq
        good = content == [A, B]
        _rec(d, key, good and "Operation::Sequence{0: Sequence::new(" in r0, "make_sequence arm (%s): the result must be ops(o1) ++ ops(o2); appended %s, result %s" % (key, seq, r0[:100]), loc)
    for k in ("arm|Sequence,Sequence", "arm|Sequence,other", "arm|other,Sequence", "arm|other,other"):
        if k not in d:
            d[k] = [False, "make_sequence lost its %s" % k, b.loc()]
    return _emit(d)


@rule("REPEAT-OPTIMIZE", ["C20", "C08", "C01", "C02", "C16"], floor=8)
def repeat_optimize(ctx):
    """optimize() preserves bounds: Repeat raises min 0->1 only when the (optimised) child matches the empty string
    anywhere; GreedyFixed becomes Nothing only for max=0 and the bare child only for a zero-length child; every other
    optimize rebuilds the same variant with the same fields around optimised children."""
    d = {}

    def body(ty):
        return ctx.body("<%s as %s>::optimize" % (ty, OC))

    b = body("op_repeat::Repeat")
    if b is None:
        d["Repeat|missing"] = [False, "Repeat::optimize missing", None]
    else:
        CH = "optimize(a1.operation, a2)"
        for p in ctx.walk(b).paths:
            gs, r = summarize(p)
            gs0 = [_sh(strip_ver(g)) for g in gs]
            r = _sh(strip_ver(r))
            raised = "min: 1," in r
            just = "eq(0, a1.min)" in gs0 and ("eq(7, matches_empty_string(%s))" % CH in gs0 or "eq(matches_empty_string(%s), 7)" % CH in gs0)
            if raised:
                _rec(d, "Repeat|min-raised-only-for-nullable", just, "Repeat::optimize raises min to 1 without min == 0 and a child that matches empty anywhere", b.loc(p.blocks[-1]))
            else:
                _rec(d, "Repeat|min-kept", "min: a1.min," in r, "Repeat::optimize must keep min; found %s" % r[:120], b.loc(p.blocks[-1]))
            _rec(d, "Repeat|max-greedy-kept", "max: a1.max" in r and "greedy: a1.greedy" in r and "operation: %s" % CH in r.replace("Box::new(", "").replace(")", ")"), "Repeat::optimize must keep max/greedy and optimise the child; found %s" % r[:160], b.loc(p.blocks[-1]))
    b = body("op_greedy_fixed::GreedyFixed")
    if b is None:
        d["GreedyFixed|missing"] = [False, "GreedyFixed::optimize missing", None]
    else:
        for p in ctx.walk(b).paths:
            gs, r = summarize(p)
            gs0 = [_sh(strip_ver(g)) for g in gs]
            r = _sh(strip_ver(r))
            loc = b.loc(p.blocks[-1])
            if "Nothing::Nothing" in r:
                _rec(d, "GreedyFixed|nothing-only-max0", "eq(0, a1.max)" in gs0, "GreedyFixed::optimize returns Nothing without max == 0", loc)
            elif r == "a1.operation":
                _rec(d, "GreedyFixed|bare-child-only-zero-length", any("get_match_length(a1.operation)" in g and not g.startswith("!") for g in gs0), "GreedyFixed::optimize returns the bare child for a child that is not zero-length", loc)
            else:
                _rec(d, "GreedyFixed|rebuilt", all(x in r for x in ("min: a1.min", "max: a1.max", "len: a1.len", "optimize(a1.operation, a2)")), "GreedyFixed::optimize must keep min/max/len; found %s" % r[:140], loc)
    for ty, fields in (("op_reluctant_fixed::ReluctantFixed", ("min: a1.min", "max: a1.max", "len: a1.len", "optimize(a1.operation, a2)")), ("op_unambiguous_repeat::UnambiguousRepeat", ("min: a1.min", "max: a1.max", "optimize(a1.operation, a2)")), ("op_capture::Capture", ("group_nr: a1.group_nr", "optimize(a1.child_op, a2)"))):
        b = body(ty)
        nm = ty.split("::")[-1]
        if b is None:
            d[nm + "|missing"] = [False, nm + "::optimize missing", None]
            continue
        rs = {_sh(strip_ver(render(p.ret))) for p in ctx.walk(b).paths}
        # the value may be built through the type's constructor: read it through the constructor's own (trivial) body
        if len(rs) == 1:
            r0 = next(iter(rs))
            mc = re.match(r"^(.*)%s::new\((.*)\)(\)*)$" % re.escape(nm), r0)
            cb = ctx.body(ty + "::new")
            if mc and cb is not None:
                crs = {_sh(strip_ver(render(p.ret))) for p in ctx.walk(cb).paths}
                if len(crs) == 1:
                    # split the top-level arguments
                    args, depth, cur = [], 0, ""
                    for chx in mc.group(2):
                        if chx in "([{":
                            depth += 1
                        elif chx in ")]}":
                            depth -= 1
                        if chx == "," and depth == 0:
                            args.append(cur.strip())
                            cur = ""
                        else:
                            cur += chx
                    args.append(cur.strip())
                    body_ = next(iter(crs))
                    body_ = re.sub(r"\ba(\d+)\b", lambda m_: args[int(m_.group(1)) - 1] if 1 <= int(m_.group(1)) <= len(args) else m_.group(0), body_)
                    rs = {mc.group(1) + body_ + mc.group(3)}
        _rec(d, nm + "|rebuilt", len(rs) == 1 and all(x in next(iter(rs)) for x in fields), "%s::optimize must rebuild itself with the same fields around the optimised child; found %s" % (nm, sorted(rs)[0][:140]), b.loc())
    for ty in ("op_atom::Atom", "op_bol::Bol", "op_eol::Eol", "op_nothing::Nothing", "op_end_program::EndProgram", "op_back_reference::BackReference", "op_character_class::CharClass"):
        b = body(ty)
        nm = ty.split("::")[-1]
        if b is None:
            d[nm + "|missing"] = [False, nm + "::optimize missing", None]
            continue
        rs = {_sh(strip_ver(render(p.ret))) for p in ctx.walk(b).paths}
        _rec(d, nm + "|identity", rs == {"op(a1)"} or all(r.endswith("(a1)") for r in rs), "%s::optimize must be the identity; found %s" % (nm, sorted(rs)), b.loc())
    b = body("op_choice::Choice")
    if b is not None:
        cl = ctx.body(b.path + "::{closure#0}")
        rs = {_sh(strip_ver(render(p.ret))) for p in ctx.walk(b).paths}
        _rec(d, "Choice|maps-branches", cl is not None and {_sh(strip_ver(render(p.ret))) for p in ctx.walk(cl).paths} == {"optimize(a2, ^a2)"} and len(rs) == 1 and re.match(r"^(conv<.*>|op)\(Choice::Choice\{branches: Iterator::collect\(Iterator::map\(a1\.branches, closure [^\[]*\[a2\]\)\)\}\)$", next(iter(rs))) is not None, "Choice::optimize must be exactly Choice{branches: branches.map(optimize)} - the same branches in the same order (ordered choice prefers the earlier branch); found %s" % sorted(rs)[0][:160], b.loc())
    return _emit(d)
