"""Quantifier lowering in ReCompiler::piece (C20, C12, C06, C07, C17) and bracket()."""
import re
from ..engine import rule, ok, bad, missing
from ..table import render, summarize, strip_ver
from ..facts import strip_lt
from ..sym import show

PIECE = "re_compiler::ReCompiler::piece"
AB = [
    # the terminal the quantifier applies to (parse_terminal with or without the flags slice inherited from the Java code)
    ("RET", "try(ReCompiler::parse_terminal(a1, vec![0])) as Continue.0"),
    ("RET", "try(ReCompiler::parse_terminal(a1)) as Continue.0"),
    ("TERM", "try(ReCompiler::parse_terminal(a1, vec![0]))"),
    ("TERM", "try(ReCompiler::parse_terminal(a1))"),
    ("MES", "<Operation as OperationControl>::matches_empty_string(RET)"),
    ("ML", "<Operation as OperationControl>::get_match_length(RET)"),
]
P = "′"


class PiecePath:
    pass


def piece_paths(ctx):
    def build():
        b = ctx.body(PIECE)
        if b is None:
            return None
        w = ctx.walk(b)
        out = []
        for p in w.paths:
            gs, r = summarize(p, AB)
            pp = PiecePath()
            pp.p = p
            pp.gs = gs
            pp.r = r
            pp.q = "none"
            pp.anchor = None
            pp.nullable = None
            pp.marker = None
            pp.marker_tested = False
            pp.xsd = None
            pp.ml = None
            pp.lenpos = None
            pp.bracket = None
            pp.cmp = {}
            for g in gs:
                m = re.match(r"^a1%s*\.pattern\[a1(%s*)\.idx\]=(?:'(.)'|other)$" % (P, P), g)
                if m and pp.q == "none" and "TERM" not in g:
                    if pp.marker_tested or pp.bracket is not None:
                        continue
                    pp.q = m.group(2) if m.group(2) in ("?", "*", "+", "{") else "none"
                    continue
                if g.startswith("variant(try(ReCompiler::bracket("):
                    pp.bracket = g.endswith("=Continue")
                if g.startswith("variant(RET)="):
                    v = g.split("=", 1)[1]
                    pp.anchor = v if v in ("Bol", "Eol") else False
                if g.startswith("variant(RET)∈"):
                    pp.anchor = False
                if g in ("eq(MES, 7)", "eq(7, MES)"):
                    pp.nullable = True
                if g in ("!eq(MES, 7)", "!eq(7, MES)"):
                    pp.nullable = False
                m = re.match(r"^(!?)eq\('\?', a1(%s*)\.pattern\[(.*)\]\)$" % P, g)
                if m:
                    pp.marker = m.group(1) == ""
                    pp.marker_tested = True
                m = re.match(r"^!lt\((add\(1, )?a1(%s*)\.idx\)?, a1%s*\.len\)$" % (P, P), g)
                if m and pp.q != "none":
                    # end of pattern right after the quantifier: no marker possible
                    pp.marker_tested = True
                    if pp.marker is None:
                        pp.marker = False
                if "ReFlags::language(" in g and "XSD" in g:
                    pp.xsd = not g.startswith("!")
                if g == "variant(ML)=Some":
                    pp.ml = True
                if g == "variant(ML)=None":
                    pp.ml = False
                if g == "lt(0, ML as Some.0)":
                    pp.lenpos = True
                if g == "!lt(0, ML as Some.0)":
                    pp.lenpos = False
                # `match len { Some(0) .. => .., Some(n) => .. }`: the test for zero compiled to a switch on the length
                if g == "ML as Some.0=0":
                    pp.lenpos = False
                if g == "ML as Some.0=other" and any(isinstance(o, tuple) and o[0] == "other" and ("val", 0) in o[1] and render(a, AB) == "ML as Some.0" for a, o in p.guards):
                    pp.lenpos = True  # every arm the switch names is excluded, 0 among them: the length is positive
                m = re.match(r"^(!?)eq\((0|1), a1%s*\.bracket_(min|max)\)$" % P, g)
                if m:
                    pp.cmp[(m.group(3), int(m.group(2)))] = m.group(1) == ""
                # (a test written `x == 0` may be compiled to a switch on x: "x=0" / "x=other")
                m = re.match(r"^(?:a1%s*\.bracket_(min|max)|try\(ReCompiler::bracket\(a1%s*\)\) as Continue\.0\.\w*?(min|max)\w*)=(0|1|other)$" % (P, P), g)
                if m:
                    which = m.group(1) or m.group(2)
                    if m.group(3) == "other":
                        pp.cmp.setdefault((which, 0), False)  # the switch the crate's tests compile to has the arm 0
                    else:
                        pp.cmp[(which, int(m.group(3)))] = True
                # ... or on the two-field struct {min, max} it hands back
                m = re.match(r"^(!?)eq\((0|1), try\(ReCompiler::bracket\(a1%s*\)\) as Continue\.0\.\w*(min|max)\w*\)$" % P, g)
                if m:
                    pp.cmp[(m.group(3), int(m.group(2)))] = m.group(1) == ""
                m = re.match(r"^(!?)eq\(try\(ReCompiler::bracket\(a1%s*\)\) as Continue\.0\.\w*(min|max)\w*, (0|1)\)$" % P, g)
                if m:
                    pp.cmp[(m.group(2), int(m.group(3)))] = m.group(1) == ""
                # the same tests on the pair bracket() hands back
                m = re.match(r"^(!?)eq\((0|1), try\(ReCompiler::bracket\(a1%s*\)\) as Continue\.0\.(0|1)\)$" % P, g) or re.match(r"^(!?)eq\(try\(ReCompiler::bracket\(a1%s*\)\) as Continue\.0\.(0|1), (0|1)\)$" % P, g)
                if m:
                    a_, b_ = m.group(2), m.group(3)
                    val, which = (int(a_), b_) if m.re.pattern.startswith("^(!?)eq\\((0|1), try") else (int(b_), a_)
                    pp.cmp[("min" if which == "0" else "max", val)] = m.group(1) == ""
            # outcome
            pp.kind = None
            pp.args = None
            if r.startswith("Result::Err"):
                pp.kind = "Err"
            elif r.startswith("propagate("):
                pp.kind = "Err"
            elif r == "Result::Ok{0: RET}":
                pp.kind = "RET"
            elif "Nothing::Nothing" in r and r.startswith("Result::Ok"):
                pp.kind = "Nothing"
            else:
                m = re.search(r"(GreedyFixed|ReluctantFixed|Repeat)::new\(RET, (.*)\)\)\}$", r)
                if m:
                    pp.kind = m.group(1)
                    pp.args = [x.strip() for x in m.group(2).split(", ")]
                else:
                    pp.kind = "?" + r[:80]
            out.append(pp)
        return b, out

    return ctx.cached("piece_paths", build)


def _minmax(pp):
    """prescribed (min,max) strings for the consumed quantifier (post-bracket field versions are wildcarded)"""
    return {"?": ("0", "1"), "*": ("0", "MAX"), "+": ("1", "MAX"), "{": ("BMIN", "BMAX")}.get(pp.q)


def _norm(a):
    a = re.sub(r"^a1%s*\.bracket_min$" % P, "BMIN", a)
    a = re.sub(r"^a1%s*\.bracket_max$" % P, "BMAX", a)
    # bracket() handing its bounds back as a pair instead of storing them in the two fields
    a = re.sub(r"^try\(ReCompiler::bracket\(a1%s*\)\) as Continue\.0\.0$" % P, "BMIN", a)
    a = re.sub(r"^try\(ReCompiler::bracket\(a1%s*\)\) as Continue\.0\.1$" % P, "BMAX", a)
    a = re.sub(r"^try\(ReCompiler::bracket\(a1%s*\)\) as Continue\.0\.\w*min\w*$" % P, "BMIN", a)
    a = re.sub(r"^try\(ReCompiler::bracket\(a1%s*\)\) as Continue\.0\.\w*max\w*$" % P, "BMAX", a)
    return a


def _desc(pp):
    return "q=%s anchor=%s nullable=%s marker=%s len=%s" % (pp.q, pp.anchor, pp.nullable, pp.marker, "var" if pp.ml is False else ("pos" if pp.lenpos else "zero" if pp.lenpos is False else "fixed?"))


def _group(out, key, good, msg, loc):
    out.setdefault(key, [True, msg, loc])
    if not good:
        out[key][0] = False
        out[key][1] = msg
        out[key][2] = loc


def _emit(groups):
    res = []
    for k, (good, msg, loc) in sorted(groups.items()):
        res.append(ok(k) if good else bad(k, msg, loc))
    return res


@rule("QUANT-LOWER", ["C20", "C01", "C06", "C08", "C16", "C12"], floor=12)
def quant_lower(ctx):
    """piece(): the (min,max) handed to a repetition operator are those of the quantifier just read
    (? 0,1  * 0,inf  + 1,inf  {n,m} n,m); a nullable body may lower min to 0 but never drop a finite max;
    min=max=1 yields the operand itself; max=0 yields Nothing; a fixed-length body goes to the fixed operators
    with len = get_match_length(), a variable one to Repeat."""
    pps = piece_paths(ctx)
    if pps is None:
        return [missing(PIECE)]
    b, paths = pps
    g = {}
    for pp in paths:
        loc = b.loc(pp.p.blocks[-1])
        if pp.kind == "Err":
            continue
        if pp.kind.startswith("?"):
            _group(g, "outcome|%s" % pp.q, False, "piece() returns an unrecognised value %s" % pp.kind, loc)
            continue
        mm = _minmax(pp)
        if pp.kind in ("GreedyFixed", "ReluctantFixed", "Repeat"):
            if mm is None:
                _group(g, "ctor-without-quantifier", False, "a repetition operator is built although no quantifier was read (%s)" % _desc(pp), loc)
                continue
            mn, mx = _norm(pp.args[0]), _norm(pp.args[1])
            key = "bounds|q=%s|nullable=%s" % (pp.q, pp.nullable)
            okmin = mn == mm[0] or (pp.nullable and mn == "0")
            okmax = mx == mm[1] or (pp.q == "+" and mx == "MAX")
            _group(g, key, okmin and okmax, "quantifier '%s' over a %s body is lowered to bounds (%s, %s); the quantifier read prescribes (%s, %s)%s" % (pp.q, "nullable" if pp.nullable else "non-nullable", mn, mx, mm[0], mm[1], " (a consumed finite upper bound may not be dropped: r{n,m} is not r*)" if not okmax else ""), loc)
            if pp.q == "{" and pp.nullable:
                # an operand that can match nothing must not be iterated a pattern-controlled number of times: every
                # further mandatory iteration is a zero-width one, and the repeat operators perform them one by one
                _group(g, "nullable-count-not-iterated", mn == "0", "a counted quantifier over a nullable body keeps its minimum (%s): the operators then perform that many zero-width iterations - '(?:a?){18446744073709551615}' does not return" % mn, loc)
            # operator choice
            key = "operator|len=%s" % ("var" if pp.ml is False else "fixed")
            if pp.ml is False:
                _group(g, key, pp.kind == "Repeat", "a variable-length body must be lowered to Repeat, found %s" % pp.kind, loc)
            elif pp.ml is True:
                good = pp.kind in ("GreedyFixed", "ReluctantFixed") and pp.args[2] == "ML as Some.0"
                _group(g, key, good, "a fixed-length body must be lowered to GreedyFixed/ReluctantFixed with len = get_match_length(); found %s(%s)" % (pp.kind, ", ".join(pp.args)), loc)
        elif pp.kind == "RET":
            # quantifier dropped: allowed without quantifier, for {1,1}, for '?' on a nullable body, for an anchor with min>=1
            if pp.q == "none":
                _group(g, "plain|no-quantifier", True, "", loc)
            elif pp.q == "{" and pp.cmp.get(("min", 1)) and pp.cmp.get(("max", 1)):
                _group(g, "identity|{1,1}", True, "", loc)
            elif pp.q == "?" and pp.nullable:
                _group(g, "identity|?-on-nullable", True, "", loc)
            elif pp.anchor:
                pass  # QUANT-ANCHOR
            elif pp.ml is True and pp.lenpos is False and (pp.q == "+" or (pp.q == "{" and pp.cmp.get(("min", 0)) is False)):
                _group(g, "identity|zero-width-min>=1", True, "", loc)
            else:
                _group(g, "quantifier-dropped|q=%s" % pp.q, False, "the quantifier '%s' is consumed but the bare operand is returned (%s)" % (pp.q, _desc(pp)), loc)
        elif pp.kind == "Nothing":
            if pp.q == "{" and pp.cmp.get(("max", 0)):
                _group(g, "nothing|max=0", True, "", loc)
    for need in ("nothing|max=0", "identity|{1,1}", "plain|no-quantifier"):
        if need not in g:
            g[need] = [False, "piece() has no path for the case %s" % need, b.loc()]
    out = _emit(g)
    for i_ in out:
        # (a quantifier dropped from a zero-width operand turns an optional position test into a required one: C12)
        i_.props = ["C06", "C01", "C20", "C16"] if i_.key == "nullable-count-not-iterated" else ["C20", "C01", "C08", "C12"] if i_.key.startswith(("quantifier-dropped|", "identity|")) else ["C20", "C01", "C08"]
    return out


@rule("ZERO-WIDTH-NOTHING", ["C12", "C20", "C01", "C08"], floor=3)
def zero_width_nothing(ctx):
    """An operand may be replaced by Nothing only when max=0, for a quantified anchor whose quantifier allows zero
    occurrences, or for a zero-length body whose quantifier allows zero occurrences; with min>=1 a zero-width
    operand (e.g. an anchor group) must be kept."""
    pps = piece_paths(ctx)
    if pps is None:
        return [missing(PIECE)]
    b, paths = pps
    g = {}
    for pp in paths:
        if pp.kind != "Nothing":
            continue
        loc = b.loc(pp.p.blocks[-1])
        min0 = pp.q in ("?", "*") or (pp.q == "{" and pp.cmp.get(("min", 0)) is True)
        max0 = pp.q == "{" and pp.cmp.get(("max", 0)) is True
        if max0:
            _group(g, "max=0", True, "", loc)
        elif pp.anchor:
            _group(g, "anchor|q=%s" % pp.q, min0, "a quantified anchor is replaced by Nothing although the quantifier '%s' requires at least one occurrence" % pp.q, loc)
        elif pp.ml is True and pp.lenpos is False:
            # a zero-length operand that matches the empty string anywhere is itself equivalent to Nothing
            _group(g, "zero-length-body|q=%s" % pp.q, min0 or pp.nullable is True, "a zero-length operand under quantifier '%s' is replaced by Nothing although the quantifier may require at least one occurrence: its anchors are lost (r{n,..} with n>=1 over a zero-width r is r, not the empty regex)" % pp.q, loc)
        else:
            _group(g, "other|q=%s" % pp.q, False, "operand replaced by Nothing without justification (%s)" % _desc(pp), loc)
    return _emit(g)


@rule("QUANT-ANCHOR", ["C12", "C08", "C01", "C20"], floor=4)
def quant_anchor(ctx):
    """A quantified ^ or $: if the quantifier allows zero occurrences the result is Nothing, otherwise the anchor itself."""
    pps = piece_paths(ctx)
    if pps is None:
        return [missing(PIECE)]
    b, paths = pps
    g = {}
    for pp in paths:
        if not pp.anchor or pp.q == "none" or pp.kind == "Err":
            continue
        loc = b.loc(pp.p.blocks[-1])
        min0 = pp.q in ("?", "*") or (pp.q == "{" and pp.cmp.get(("min", 0)) is True)
        minpos = pp.q == "+" or (pp.q == "{" and pp.cmp.get(("min", 0)) is False)
        key = "%s|q=%s|%s" % (pp.anchor, pp.q, "min0" if min0 else "min>=1" if minpos else "min?")
        if min0:
            _group(g, key, pp.kind == "Nothing", "quantified %s with a zero-allowing quantifier must be Nothing; found %s" % (pp.anchor, pp.kind), loc)
        elif minpos:
            _group(g, key, pp.kind == "RET", "quantified %s with min>=1 must be the anchor itself; found %s" % (pp.anchor, pp.kind), loc)
        else:
            _group(g, key, False, "quantified %s: the path does not establish whether zero occurrences are allowed" % pp.anchor, loc)
    return _emit(g)


@rule("FIXED-LEN-POSITIVE", ["C06", "C20"], floor=2)
def fixed_len_positive(ctx):
    """GreedyFixed/ReluctantFixed step by len and have no progress guard: both may be built only under len>0
    (the greedy and the reluctant branch must apply the same test)."""
    pps = piece_paths(ctx)
    if pps is None:
        return [missing(PIECE)]
    b, paths = pps
    g = {}
    for pp in paths:
        if pp.kind in ("GreedyFixed", "ReluctantFixed"):
            _group(g, pp.kind, pp.lenpos is True, "%s is built without establishing match_length > 0: its iterator steps by len and never terminates for a zero-width body (the sibling branch tests it)" % pp.kind, b.loc(pp.p.blocks[-1]))
    for k in ("GreedyFixed", "ReluctantFixed"):
        if k not in g:
            g[k] = [False, "piece() no longer builds %s" % k, b.loc()]
    return _emit(g)


@rule("QUANT-RELUCTANT", ["C07", "C20", "C02", "C17", "C01"], floor=6)
def quant_reluctant(ctx):
    """After a quantifier, a following '?' is the reluctant marker: it is looked for on every path that consumed a
    quantifier, consumed when present, rejected under XSD, and selects the reluctant operator (greedy otherwise)."""
    pps = piece_paths(ctx)
    if pps is None:
        return [missing(PIECE)]
    b, paths = pps
    g = {}
    for pp in paths:
        loc = b.loc(pp.p.blocks[-1])
        if pp.q == "none" or pp.bracket is False:
            continue
        if pp.kind == "Err" and not (pp.marker and pp.xsd):
            continue
        # marker looked for
        key = "marker-examined|q=%s|%s" % (pp.q, "anchor" if pp.anchor else "term")
        _group(g, key, pp.marker_tested, "after the quantifier '%s' the path returns %s without looking for the reluctant marker '?': a following '?' is left unconsumed and then rejected as a quantifier without operand" % (pp.q, pp.kind), loc)
        if pp.marker:
            if pp.xsd is None:
                _group(g, "xsd-gate", False, "the reluctant marker is accepted without consulting the dialect", loc)
            elif pp.xsd:
                _group(g, "xsd-gate", pp.kind == "Err", "a reluctant quantifier is accepted in the XSD dialect (%s)" % pp.kind, loc)
            else:
                # consumed: a store idx := idx+1 after the test
                stores = [e for e in pp.p.effects if e[0] == "store" and show(e[1]).endswith(".idx")]
                consumed = any(re.match(r"^add\((1|2), a1(%s\d*)*\.idx\)$" % P, render(e[2])) for e in stores[-1:])
                _group(g, "marker-consumed", consumed, "the reluctant marker is recognised but not consumed", loc)
                if pp.kind in ("GreedyFixed",) or (pp.kind == "Repeat" and (len(pp.args) < 3 or pp.args[2] != "false")):
                    _group(g, "marker-selects-reluctant", False, "with the reluctant marker present the greedy operator %s is built" % pp.kind, loc)
                elif pp.kind in ("ReluctantFixed", "Repeat"):
                    _group(g, "marker-selects-reluctant", True, "", loc)
        elif pp.marker is False:
            if pp.kind == "ReluctantFixed" or (pp.kind == "Repeat" and pp.args[2] != "true"):
                _group(g, "no-marker-greedy", False, "without a reluctant marker the reluctant operator %s is built" % pp.kind, loc)
            elif pp.kind in ("GreedyFixed", "Repeat"):
                _group(g, "no-marker-greedy", True, "", loc)
    # quantifier characters are consumed: covered by the parser making progress (PARSE rules)
    return _emit(g)


# ------------------------------------------------------------------ the fixed-length repeats take the first way only

SINGLE_WAY_DIRECT = "!<Operation as OperationControl>::contains_capturing_expressions(RET)"


def _operand_fields(ctx):
    """{struct path of an Operation variant: [names of its fields that hold operations]}"""
    out = {}
    en = next((a for a in ctx.f.raw.get("adts", []) if strip_lt(a["path"]) == "operation::Operation"), None)
    if en is None:
        return None
    for v in en["variants"]:
        tys = [strip_lt(f["ty"]) for f in v["fields"]]
        if len(tys) != 1:
            return None
        st = next((a for a in ctx.f.raw["adts"] if strip_lt(a["path"]) == tys[0]), None)
        if st is None or len(st["variants"]) != 1:
            return None
        out[tys[0]] = [f["name"] for f in st["variants"][0]["fields"] if "operation::Operation" in strip_lt(f["ty"])]
    return out


def _single_way_predicate(ctx, name):
    """Is `name` (a function of the crate over &Operation) true for every operation that contains, anywhere below it,
    a Choice with a capturing expression?  Accepted definition: Choice -> contains_capturing_expressions (or plainly
    true); any other variant -> true as soon as it holds for one of children(); false only after all children."""
    cands = [x for x in ctx.f.bodies if x.path.split("::")[-1] == name.split("::")[-1] and x.kind != "Closure" and x.argc == 1]
    if len(cands) != 1:
        return "no single function %s(&Operation)" % name
    b = ctx.body(cands[0].path)
    F = name
    CH = "<Iter<T> as Iterator>::next(<Operation as OperationControl>::children(a1))"
    for p in ctx.walk(b).paths:
        gs, r = summarize(p)
        gs = [strip_ver(g) for g in gs]
        r = strip_ver(r)
        var = next((g for g in gs if g.startswith("variant(a1)")), None)
        if var is None:
            return "a path of %s does not look at the kind of operation (%s)" % (F, gs[:2])
        if var == "variant(a1)=Choice":
            if r not in ("true", "<Operation as OperationControl>::contains_capturing_expressions(a1)"):
                return "%s answers %s for a Choice" % (F, r[:80])
            continue
        if "Choice" in var:
            return "%s treats Choice like %s" % (F, var)
        rest = [g for g in gs if g != var]
        if r == "false":
            if rest != ["variant(%s)=None" % CH]:
                return "%s answers false before it has asked all children (%s)" % (F, rest[:3])
        elif r == "true":
            if rest != ["variant(%s)=Some" % CH, "%s(%s as Some.0)" % (F, CH)]:
                return "%s answers true under %s" % (F, rest[:3])
        elif r == "<loop>":
            if rest != ["variant(%s)=Some" % CH, "!%s(%s as Some.0)" % (F, CH)]:
                return "%s goes on to the next child under %s" % (F, rest[:3])
        else:
            return "%s answers %s" % (F, r[:80])
    return None


@rule("FIXED-SINGLE-WAY", ["C01", "C19", "C20", "C03"], floor=3)
def fixed_single_way(ctx):
    """GreedyFixed and ReluctantFixed ask their operand for its first match at a position and drop the iterator
    (ITER-RETAIN audits that): all matches of a fixed-length operand end at the same place, but they can differ in the
    groups they set, which a later back-reference tells apart.  So piece() may build the two operators only for an
    operand that cannot match in ways differing in groups: under `!contains_capturing_expressions(operand)`, or under
    the negation of a predicate of the crate that holds for every operand with a group-setting alternative below it;
    and children(), which that predicate walks, hands out every operation-valued field of every variant."""
    pps = piece_paths(ctx)
    if pps is None:
        return [missing(PIECE)]
    b, paths = pps
    g = {}
    preds = set()
    for pp in paths:
        if pp.kind not in ("GreedyFixed", "ReluctantFixed"):
            continue
        loc = b.loc(pp.p.blocks[-1])
        gs = [strip_ver(x) for x in pp.gs]
        direct = SINGLE_WAY_DIRECT in gs
        via = [m.group(1) for m in (re.match(r"^!((?:\w+::)*\w+)\(RET\)$", x) for x in gs) if m and "OperationControl" not in m.group(1)]
        preds.update(via)
        _group(g, pp.kind, direct or bool(via), "%s is built for an operand that may match in several ways setting different groups: the operator takes the first way only, so a later back-reference sees just that one (`^(?:ab|a(b))*c\\1$` on `abcb`)" % pp.kind, loc)
    for k in ("GreedyFixed", "ReluctantFixed"):
        if k not in g:
            g[k] = [False, "piece() no longer builds %s" % k, b.loc()]
    for F in sorted(preds):
        why = _single_way_predicate(ctx, F)
        g["predicate|" + F.split("::")[-1]] = [why is None, why or "", b.loc()]
    if not preds:
        g["predicate|direct"] = [all(v[0] for k, v in g.items()), "no predicate guards the fixed-length repeats", b.loc()]
    # children() is complete
    of = _operand_fields(ctx)
    if of is None:
        g["children|shape"] = [False, "Operation is no longer an enum of one-field variants over structs", b.loc()]
    else:
        for st, fields in sorted(of.items()):
            short_ = st.split("::")[-1]
            cb = ctx.body("<%s as operation::OperationControl>::children" % st)
            if not fields:
                g["children|" + short_] = [cb is None or [strip_ver(render(w.ret)) for w in ctx.walk(cb).paths] == ["Vec::new()"], "%s has no operands but its children() is not empty" % short_, b.loc()]
                continue
            if cb is None:
                g["children|" + short_] = [False, "%s holds operations (%s) but does not override children(): the default hands out none" % (short_, fields), b.loc()]
                continue
            rets = [strip_ver(render(w.ret)) for w in ctx.walk(cb).paths]
            want = [["vec![a1.%s]" % f for f in fields], ["a1.%s" % f for f in fields]]
            g["children|" + short_] = [len(fields) == 1 and (rets == want[0] or rets == want[1]), "children() of %s must hand out %s; found %s" % (short_, fields, rets), cb.loc()]
        db = ctx.body("<operation::Operation as operation::OperationControl>::children")
        if db is None:
            g["children|dispatch"] = [False, "no dispatch of children() over the variants", b.loc()]
        else:
            rets = sorted(strip_ver(render(w.ret)) for w in ctx.walk(db).paths)
            bad_ = [r for r in rets if not re.match(r"^(?:<\w+ as )?OperationControl>?::children\(a1 as (\w+)\.0\)$", r)]
            g["children|dispatch"] = [not bad_ and len(rets) == len(of), "children() of Operation must hand on to the variant's own; found %s" % bad_[:3], db.loc()]
    return _emit(g)
