"""Decision tables of the small loop-free leaf functions (A5).

Each spec below is derived from the property statement, written over named
atoms; the code's paths are compared with it by rxv.table.check_table.
"""
from ..engine import rule, ok, bad, missing
import re
from ..table import check_table, render, summarize, strip_ver
from ..sym import show

OC = "operation::OperationControl"
BOL = "<op_bol::Bol as %s>::matches_iter" % OC
EOL = "<op_eol::Eol as %s>::matches_iter" % OC
CHARCLASS = "<op_character_class::CharClass as %s>::matches_iter" % OC
ATOM = "<op_atom::Atom as %s>::matches_iter" % OC
BACKREF = "<op_back_reference::BackReference as %s>::matches_iter" % OC
ENDPROG = "<op_end_program::EndProgram as %s>::matches_iter" % OC
NOTHING = "<op_nothing::Nothing as %s>::matches_iter" % OC

ML = "ReFlags::is_multi_line(a2.program.flags)"
CI = "ReFlags::is_case_independent(a2.program.flags)"
INB = "lt(a3, len(a2.search))"


def ret(p, abbr=()):
    if p.end != "return":
        return "<%s>" % p.end.split(":")[0]
    return render(p.ret, abbr)


def table_rule(ctx, key, path, atoms, spec, abbr=(), outcome=None, skip=None):
    b = ctx.body(path)
    if b is None:
        return [missing(path)]
    w = ctx.walk(b)
    if w.truncated:
        return [bad(key + "|truncated", "path enumeration of %s exceeded its bound" % path, b.loc())]
    return check_table(key, b, w.paths_split, atoms, spec, outcome or (lambda p: ret(p, abbr)), abbr, skip)


@rule("LEAF-BOL", ["C12", "C01", "C16"], floor=2)
def leaf_bol(ctx):
    """'^' yields once(position) iff position==0 or (m and search[position-1]==LF and position<len), else nothing."""
    atoms = {"at0": "eq(a3, 0)", "m": ML, "after_nl": "ReMatcher::is_new_line(a2, sub(a3, 1))", "inside": INB}

    def spec(v):
        return "once(a3)" if v["at0"] or (v["m"] and v["after_nl"] and v["inside"]) else "empty()"

    return table_rule(ctx, "Bol", BOL, atoms, spec)


@rule("LEAF-EOL", ["C12", "C01", "C16"], floor=2)
def leaf_eol(ctx):
    """'$' yields once(position) iff the input is empty, position>=len, or (m and search[position]==LF)."""
    atoms = {"empty": "eq(0, len(a2.search))", "inside": INB, "m": ML, "at_nl": "ReMatcher::is_new_line(a2, a3)"}

    def spec(v):
        if v["empty"] and v["inside"]:
            return None  # infeasible: position < 0
        return "once(a3)" if v["empty"] or not v["inside"] or (v["m"] and v["at_nl"]) else "empty()"

    return table_rule(ctx, "Eol", EOL, atoms, spec)


@rule("NEWLINE-CONST", ["C12", "C08"], floor=2)
def newline_const(ctx):
    """is_new_line compares with U+000A and the multi-line seek in ReMatcher::matches searches the same constant."""
    out = []
    b = ctx.body("re_matcher::ReMatcher::is_new_line")
    if b is None:
        out.append(missing("re_matcher::ReMatcher::is_new_line"))
    else:
        w = ctx.walk(b)
        rs = {ret(p) for p in w.paths}
        if rs == {"eq('\\u{A}', a1.search[a2])"}:
            out.append(ok("is_new_line"))
        else:
            out.append(bad("is_new_line", "is_new_line must be search[i] == U+000A; found %s" % sorted(rs), b.loc()))
    # every comparison of an input character with a constant in ReMatcher::matches (the newline scan of the
    # multi-line '^' seek, wherever it is written: in the function or in a closure handed to find / position) is a
    # comparison with U+000A
    mb = ctx.body("re_matcher::ReMatcher::matches")
    consts = {}
    bodies = ([mb] if mb is not None else []) + [x for x in ctx.f.bodies if x.path.startswith("re_matcher::ReMatcher::matches::{closure")]
    for c in bodies:
        ctx.body(c.path)
        se = ctx.senv(c)
        texts = []
        for sw in range(len(c.blocks)):
            tt = c.blocks[sw]["term"]
            if tt["k"] == "switch" and not c.blocks[sw]["cleanup"]:
                texts.append(strip_ver(render(se.switch_expr(sw))))
        for p in ctx.walk(c, max_visits=1).paths:
            if p.ret is not None:
                texts.append(strip_ver(render(p.ret)))
        for s in texts:
            for m in re.finditer(r"eq\('((?:\\u\{[0-9A-Fa-f]+\}|\\.|[^'])+)', ", s):
                consts.setdefault(m.group(1), c)
    for k, c in sorted(consts.items()):
        if k == "\\u{A}":
            out.append(ok("seek|newline"))
        else:
            out.append(bad("seek|" + k, "ReMatcher::matches compares an input character with %s, not U+000A" % k, c.loc()))
    if not consts:
        out.append(missing("newline comparison in the line seek of ReMatcher::matches"))
    return out


@rule("CLASS-MEMBERSHIP", ["C09", "C01"], floor=2)
def class_membership(ctx):
    """CharClass yields once(position+1) iff position<len and the class contains search[position]."""
    atoms = {"inside": INB, "member": "CharacterClass::contains(a1.character_class, a2.search[a3])"}

    def spec(v):
        return "once(add(a3, 1))" if v["inside"] and v["member"] else "empty()"

    return table_rule(ctx, "CharClass", CHARCLASS, atoms, spec)


@rule("LEAF-NOTHING", ["C12", "C20", "C01"], floor=1)
def leaf_nothing(ctx):
    """Nothing yields exactly once(position)."""
    return table_rule(ctx, "Nothing", NOTHING, {}, lambda v: "once(a3)")


@rule("LEAF-ENDPROGRAM", ["C01", "C02", "C16", "C04"], floor=2)
def leaf_end(ctx):
    """EndProgram succeeds at position unless the match is anchored and position<len."""
    atoms = {"anchored": "ReMatcher::anchored_match(a2)", "inside": INB}

    def spec(v):
        return "empty()" if v["anchored"] and v["inside"] else "once(a3)"

    return table_rule(ctx, "EndProgram", ENDPROG, atoms, spec)


ATOM_ABBR = (
    ("IN", "Option::unwrap(<Skip<I> as Iterator>::next(Iterator::skip(iter(a2.search), a3)))"),
    ("IN", "Option::unwrap(<Skip<I> as Iterator>::next(Iterator::skip(a2.search, a3)))"),
    ("AT", "<Iter<T> as Iterator>::next(a1.atom) as Some.0"),
    ("NEXT", "<Iter<T> as Iterator>::next(a1.atom)"),
)


@rule("LITERAL-ATOM", ["C13", "C11", "C01"], floor=3)
def literal_atom(ctx):
    """Atom: empty if the input is shorter than position+len; otherwise the chars are compared pairwise
    (equal_case_blind iff flag i, == otherwise), a mismatch gives empty, exhaustion gives once(position+len).  The
    comparison loops are read in turn-indexed form (rxv/lockstep.py): turn k compares search[position+k] with atom[k],
    however the two sequences are walked; without flag i the whole window may also be compared with the atom at once."""
    from ..engine import rec as _rec, emit as _emit
    from ..lockstep import Lockstep
    from ..dom import guard_strings
    from ..table import strip_ver
    b = ctx.body(ATOM)
    if b is None:
        return [missing(ATOM)]
    d = {}
    SHORT = ("lt(len(a2.search), add(a3, a1.len))", "lt(len(a2.search), add(a1.len, a3))")
    SK, AK = "a2.search[add(a3, k)]", "a1.atom[k]"
    ONCE = ("once(add(a3, a1.len))", "once(add(a1.len, a3))")
    WIN = ("a2.search[Range::Range{start: a3, end: add(a3, a1.len)}]", "a2.search[Range::Range{start: a3, end: add(a1.len, a3)}]")
    covered = set()
    # entry: the length test, and a window compared as a whole
    for p in ctx.walk(b, max_visits=1).paths:
        gs = [strip_ver(g) for g in summarize(p)[0]]
        r = strip_ver(summarize(p)[1])
        loc = b.loc(p.blocks[-1])
        if not gs or gs[0].lstrip("!") not in SHORT:
            _rec(d, "length-test-first", False, "Atom::matches_iter must first compare position + len with the input length; first guard %s" % gs[:1], loc)
            continue
        if not gs[0].startswith("!"):
            _rec(d, "too-short-is-empty", r == "empty()" and p.end == "return", "an atom that does not fit into the rest of the input must yield nothing; found %s" % r, loc)
            continue
        whole = [g for g in gs if any(g.lstrip("!") in ("eq(%s, a1.atom)" % w, "eq(a1.atom, %s)" % w) for w in WIN)]
        if whole:
            flag_off = ("!" + CI) in gs
            _rec(d, "whole-window|only-without-i", flag_off, "the window is compared with the atom by plain equality on a path where flag i is not known to be off (guards %s)" % gs[:3], loc)
            if whole[-1].startswith("!"):
                _rec(d, "whole-window|mismatch-is-empty", r == "empty()", "a window different from the atom must yield nothing; found %s" % r, loc)
            else:
                _rec(d, "whole-window|match-is-once", r in ONCE, "a window equal to the atom must yield position + len; found %s" % r, loc)
            covered.add(False)
    se = ctx.senv(b)
    for h in sorted(b.natural_loops()):
        hg = {strip_ver(g) for g in guard_strings(b, h, se)}
        side = True if CI in hg else False if ("!" + CI) in hg else None
        for p in Lockstep(ctx, b, h).paths(ctx):
            gs, r = summarize(p)
            gs = [strip_ver(g) for g in gs]
            r = strip_ver(r)
            loc = b.loc(p.blocks[-1])
            drv = [g for g in gs if g.startswith("variant(next(<")]
            m = re.match(r"^variant\(next\(<(.*)>\)\)=(Some|None)$", drv[0]) if drv else None
            if not m:
                _rec(d, "loop|driver", False, "a loop of Atom::matches_iter is not driven by the characters of the atom (guards %s)" % gs[:2], loc)
                continue
            seq = m.group(1)
            # zipped with the input from the position on: the length test that every path through here has passed
            # (length-test-first) leaves at least len characters there, so the shorter side is the atom
            okseq = seq == "0..len(a1.atom)" or seq in ("min(a2.search[a3..add(a3, a1.len)]; 0..len(a1.atom))", "min(0..len(a1.atom); a2.search[a3..add(a3, a1.len)])", "0..a1.len", "min(0..len(a1.atom); 0..len(a2.search) skip a3)", "min(0..len(a2.search) skip a3; 0..len(a1.atom))")
            if "skip a3" in seq:
                hgs = {strip_ver(g) for g in guard_strings(b, h, se)}
                okseq = okseq and any(("!" + s_) in hgs for s_ in SHORT)
            _rec(d, "loop|runs-over-the-atom", okseq, "the comparison must run over every character of the atom from the first; it runs over %s" % seq, loc)
            if side is None:
                _rec(d, "loop|flag-side", False, "a comparison loop that is not on one side of the flag-i test", loc)
                continue
            covered.add(side)
            tag = "i" if side else "exact"
            if m.group(2) == "None":
                _rec(d, "all-equal-is-once|" + tag, r in ONCE and p.end == "return", "when every character compared equal the atom yields position + len; found %s" % r, loc)
                continue
            want = ("ReMatcher::equal_case_blind(a2, %s, %s)" % (SK, AK), "ReMatcher::equal_case_blind(a2, %s, %s)" % (AK, SK)) if side else ("eq(%s, %s)" % (SK, AK), "eq(%s, %s)" % (AK, SK))
            cm = [g for g in gs if g.lstrip("!").startswith(("eq(", "ReMatcher::equal_case_blind("))]
            if not cm:
                _rec(d, "compares-pairwise|" + tag, False, "a turn of the loop compares nothing (guards %s)" % gs, loc)
                continue
            g = cm[-1]
            _rec(d, "compares-pairwise|" + tag, g.lstrip("!") in want and len(cm) == 1, "turn k must compare search[position+k] with atom[k] %s; found %s" % ("with equal_case_blind (flag i)" if side else "for identity (no flag i)", cm), loc)
            if g.startswith("!"):
                _rec(d, "mismatch-is-empty|" + tag, r == "empty()" and p.end == "return", "a mismatch must yield nothing; found %s (%s)" % (r, p.end), loc)
            else:
                _rec(d, "match-continues|" + tag, p.end.startswith("loop"), "after an equal pair the comparison must go on", loc)
    for side, tag in ((True, "i"), (False, "exact")):
        if side not in covered:
            d["side-missing|" + tag] = [False, "Atom::matches_iter has no comparison for the %s case" % ("flag-i" if side else "case-sensitive"), b.loc()]
    for k in ("too-short-is-empty",):
        if k not in d:
            d[k] = [False, "Atom::matches_iter lost its %s clause" % k, b.loc()]
    out = _emit(d)
    for i_ in out:
        # each side needs *a* comparison (side-missing); whether it is a loop or one comparison of the window is free
        if i_.key.endswith(("|exact", "|i")) or i_.key.startswith(("loop|", "whole-window|")):
            i_.optional = True
    return out


BR_ABBR = (
    ("I", "next(Range::Range{start: 0, end: sub(E, S)}) as Some.0"),
    ("NEXT", "next(Range::Range{start: 0, end: sub(E, S)})"),
    ("E", "ReMatcher::end_backref(a2, a1.group_nr) as Some.0"),
    ("S", "ReMatcher::start_backref(a2, a1.group_nr) as Some.0"),
)


def _abbr_iter(s, abbr):
    # abbreviations that mention other abbreviations are applied in two rounds
    for name, txt in abbr[2:]:
        s = s.replace(txt, name)
    for name, txt in abbr[:2]:
        s = s.replace(txt, name)
    return s


@rule("LEAF-BACKREF", ["C19", "C01", "C11", "C16"], floor=3)
def leaf_backref(ctx):
    """Back-reference: an unset group matches the empty string (once(position)); an empty group likewise;
    otherwise a copy of search[s..e] is compared char by char under the flag's comparator."""
    b = ctx.body(BACKREF)
    if b is None:
        return [missing(BACKREF)]
    w = ctx.walk(b)

    def r(e):
        import re
        return _abbr_iter(re.sub(r"@\d+", "", show(e)), BR_ABBR)

    atoms = {
        "s_set": "variant(ReMatcher::start_backref(a2, a1.group_nr))",
        "e_set": "variant(ReMatcher::end_backref(a2, a1.group_nr))",
        "empty": "eq(E, S)",
        "fits": "lt(sub(add(a3, sub(E, S)), 1), len(a2.search))",
        "i": CI,
        "more": "variant(NEXT)",
        "eq_exact": "eq(a2.search[add(a3, I)], a2.search[add(S, I)])",
        "eq_blind": "ReMatcher::equal_case_blind(a2, a2.search[add(a3, I)], a2.search[add(S, I)])",
    }

    def spec(v):
        if not (v["s_set"] and v["e_set"]):
            return "once(a3)"  # property: matches the empty string if the group has not participated
        if v["empty"]:
            return "once(a3)"
        if not v["fits"]:
            return "empty()"
        if not v["more"]:
            return "once(add(a3, sub(E, S)))"
        same = v["eq_blind"] if v["i"] else v["eq_exact"]
        return "<loop>" if same else "empty()"

    inv = {}
    res = []
    paths = []
    for p in w.paths:
        g = []
        for a, o in p.guards:
            if isinstance(o, tuple) and o[0] == "variant":
                o = o[1] == "Some"
            g.append((("raw", r(a)), o))
        p.guards = g
        paths.append(p)

    class _B:
        pass

    def outcome(p):
        if p.end != "return":
            return "<%s>" % p.end.split(":")[0]
        return r(p.ret)

    # check_table renders atoms with show(); our guards are pre-rendered ("raw", str)
    out = check_table("BackReference", b, paths, atoms, spec, outcome)
    for i in out:
        # what bears on which property: the comparator chosen by flag i on C11; what a group that is unset or empty
        # matches on C16 (the nullability probe is a match against "", where such a reference has to succeed)
        k = i.key
        ps = {"C19", "C01"}
        if "i=" in k or "eq_" in k or "atom-untested|i" in k:
            ps.add("C11")
        if "empty=T" in k or "s_set=F" in k or "e_set=F" in k or "fits=F" in k or re.search(r"atom-untested\|(empty|fits|s_set|e_set)", k) or "row[" not in k:
            ps.add("C16")
        i.props = sorted(ps)
    return out


@rule("EQCASE-TABLE", ["C11", "C19", "C13", "C01"], floor=2)
def eqcase_table(ctx):
    """equal_case_blind(a,b) = a==b or f(a)==f(b) with the same simple case mapping f on both sides."""
    b = ctx.body("re_matcher::ReMatcher::equal_case_blind")
    if b is None:
        return [missing("re_matcher::ReMatcher::equal_case_blind")]
    w = ctx.walk(b)
    out = []
    fold_atoms = set()
    for p in w.paths_split:
        for a, o in p.guards:
            s = show(a)
            if "CaseMapper::" in s:
                fold_atoms.add(s)
    ok_forms = {
        "eq(CaseMapper::simple_lowercase(a1.case_mapper, a2), CaseMapper::simple_lowercase(a1.case_mapper, a3))",
        "eq(CaseMapper::simple_uppercase(a1.case_mapper, a2), CaseMapper::simple_uppercase(a1.case_mapper, a3))",
        "eq(CaseMapper::simple_fold(a1.case_mapper, a2), CaseMapper::simple_fold(a1.case_mapper, a3))",
    }
    if len(fold_atoms) != 1 or not (fold_atoms <= ok_forms):
        out.append(bad("fold-symmetric", "the folded comparison must apply one simple case mapping to both arguments; found %s" % sorted(fold_atoms), b.loc()))
        return out
    fa = next(iter(fold_atoms))
    atoms = {"same": "eq(a2, a3)", "folded": fa}

    def spec(v):
        return "true" if v["same"] or v["folded"] else "false"

    return out + check_table("equal_case_blind", b, w.paths_split, atoms, spec, lambda p: ret(p))


@rule("CHECK-TABLE", ["C16"], floor=2)
def check_table_rule(ctx):
    """check_matches_empty_string returns Err(MatchesEmptyString) iff the stored flag is true."""
    atoms = {"flag": "a1.matches_empty_string"}

    def spec(v):
        return "Result::Err{0: Error::MatchesEmptyString}" if v["flag"] else "Result::Ok{0: ()}"

    return table_rule(ctx, "check_matches_empty_string", "regex::Regex::check_matches_empty_string", atoms, spec)
