"""Compile-time optimisations fire only under a sound justification (C08, C01, C12, C16)."""
import re
from ..engine import rule, ok, bad, missing
from ..table import render, summarize, strip_ver
from ..sym import show
from ..facts import callee, strip_lt
from ..dom import call_sites, guard_strings, or_guarded
from .. import setexpr as SX

OC = "operation::OperationControl"
NEVER = "1024"
ANYWHERE = "7"


def _sh(s):
    return s.replace("<Operation as OperationControl>::", "").replace("RepeatOperation::", "")


# ------------------------------------------------------------------ no_ambiguity


@rule("OPT-AMB", ["C08", "C01", "C12", "C11", "C02", "C20", "C09", "C10"], floor=4)
def opt_amb(ctx):
    """no_ambiguity may answer true only under a justification: J1 the follower is EndProgram and the repeat is
    greedy; J2 the first sets of the repeated term and of the follower are disjoint AND the follower can never
    match the empty string; J3 the follower is '$' and the repeated term cannot match U+000A. '^' has none."""
    P = "re_compiler::ReCompiler::no_ambiguity"
    b = ctx.body(P)
    if b is None:
        return [missing(P)]
    out = []
    FIRST0 = "get_initial_character_class(a1, a3)"
    FIRST1 = "get_initial_character_class(a2, a3)"
    seen = set()
    for p in ctx.walk(b).paths:
        gs, r = summarize(p)
        gs = [_sh(g) for g in gs]
        r = _sh(r)
        loc = b.loc(p.blocks[-1])
        if r == "false":
            continue
        var = [g for g in gs if g.startswith("variant(a2)")]
        v = var[-1].split("=", 1)[1] if var and "=" in var[-1] and "∈" not in var[-1] else None
        if v == "EndProgram":
            seen.add("J1")
            out.append(ok("J1|EndProgram") if r == "!a4" else bad("J1|EndProgram", "before the end of the program only a greedy repeat is unambiguous: expected !reluctant, found %s" % r, loc))
            continue
        if v == "Bol":
            out.append(bad("no-justification|Bol", "no_ambiguity answers %s when the follower is '^': fewer iterations of the repeat may succeed where the longest run fails (a*^a on 'aa')" % r, loc))
            continue
        if v == "Eol":
            good = r in ("!CharacterClass::contains(%s, '\\u{A}')" % FIRST0,)
            seen.add("J3")
            out.append(ok("J3|Eol") if good else bad("J3|Eol", "before '$' the repeat is unambiguous only if the repeated term cannot match U+000A; found %s (\\n*$\\nb with flag m on LF LF b)" % r, loc))
            continue
        # J2
        dis = r in ("CharacterClass::is_disjoint(%s, %s)" % (FIRST0, FIRST1), "CharacterClass::is_disjoint(%s, %s)" % (FIRST1, FIRST0))
        nonnull = any(g in ("eq(matches_empty_string(a2), %s)" % NEVER, "eq(%s, matches_empty_string(a2))" % NEVER) for g in gs)
        key = "J2|" + ("repeat-follower" if any("repeat_operation(a2))=Some" in g for g in gs) else "other-follower")
        seen.add("J2")
        if not dis:
            out.append(bad(key, "no_ambiguity answers %s without a recognised justification" % r[:160], loc))
        elif not nonnull:
            out.append(bad(key, "disjoint first sets justify the rewrite only for a follower that can never match the empty string (matches_empty_string() == NEVER is not established): a*(?:(?:bc|d)*(?:ef|g)*|x)a on 'aa'", loc))
        else:
            out.append(ok(key))
    for j in ("J1", "J2"):
        if j not in seen:
            out.append(bad("missing|" + j, "no_ambiguity lost its %s path" % j, b.loc()))
    return out


@rule("OPT-DISJOINT-CONSERVATIVE", ["C08", "C01", "C12", "C09", "C10"], floor=3)
def opt_disjoint(ctx):
    """CharacterClass::is_disjoint answers true only after every character of one class was tested against the
    other; a hit and the give-up threshold answer false."""
    P = "character_class::CharacterClass::is_disjoint"
    b = ctx.body(P)
    if b is None:
        return [missing(P)]
    out = []
    w = ctx.walk(b, max_visits=2)
    n_true = 0
    for p in w.paths:
        if p.end != "return":
            continue
        gs, r = summarize(p)
        loc = b.loc(p.blocks[-1])
        if r == "true":
            n_true += 1
            # must come from exhaustion: the last iterator test is None, and no hit on the path
            ex = [strip_ver(g) for g in gs[-2:] if g.endswith("=None") and "next(" in g]
            exhausted = bool(ex)
            hit = any(g.startswith("CodePointInversionList::contains(") for g in gs)
            out.append(ok("true-after-exhaustion") if exhausted and not hit else bad("true-after-exhaustion", "is_disjoint returns true without having exhausted the class (%s)" % gs[-2:], loc))
            # ... of the whole class: the iterator that ran out is the class's own character iterator (or the loop
            # variable it was moved into), not a truncated view of it (take, take_while, step_by, skip ...)
            def _whole(g):
                m = re.match(r"^variant\((?:<.*?>::)?next\((.*)\)\)=None$", g)
                if not m:
                    return False
                it = m.group(1)
                while True:
                    m2 = re.match(r"^Iterator::(?:enumerate|copied|cloned|rev|peekable|fuse)\((.*)\)$", it)
                    if not m2:
                        break
                    it = m2.group(1)
                return it == "v" or re.match(r"^CodePointInversionList::iter_chars\(a[12]\.0\)$", it) is not None
            # (another iterator that ran out on the way - over the ranges of the class, say, to count them - is not
            # a view of the characters and takes nothing away from the scan that did look at every one of them)
            full = bool(ex) and _whole(ex[-1]) and all(_whole(g) or "iter_chars" not in g for g in ex)
            out.append(ok("true-after-exhaustion|of-the-whole-class") if exhausted and full else bad("true-after-exhaustion|of-the-whole-class", "is_disjoint answers true when an iterator runs out that does not cover the whole class (%s): characters that were never looked at may be common to both" % (ex or gs[-2:]), loc))
        elif r == "false":
            pass
        else:
            out.append(bad("result", "is_disjoint returns %s" % r[:100], loc))
    # ... and structurally (the bounded walk never reaches the give-up test, whose counter it folds): every place that
    # makes the answer `true` is dominated by the "no more characters" edge of the scan - leaving the scan any other
    # way (the budget running out, a `break`) cannot end in `true`
    se_ = ctx.senv(b)
    none_targets = []
    scans = []
    for sw in range(len(b.blocks)):
        tt = b.blocks[sw]["term"]
        if tt["k"] != "switch" or b.blocks[sw]["cleanup"]:
            continue
        sx = strip_ver(render(se_.switch_expr(sw)))
        if sx.startswith(("variant(", "discr(")) and "next(" in sx:
            nt = [tg for v, tg in tt["targets"] if v == 0]
            none_targets += nt
            if nt:
                scans.append((sw, nt[0]))
    trues = []
    computed = []
    for bi, blk in enumerate(b.blocks):
        if blk["cleanup"]:
            continue
        for st in blk["stmts"]:
            if st["k"] == "assign" and st["place"]["l"] == 0 and not st["place"]["p"]:
                if st["rv"].get("k") == "use" and st["rv"]["op"].get("k") == "const" and st["rv"]["op"].get("bool") is True:
                    trues.append(bi)
                elif not (st["rv"].get("k") == "use" and st["rv"]["op"].get("k") == "const"):
                    computed.append(bi)
        t_ = blk["term"]
        if t_["k"] == "call" and t_.get("dest") and t_["dest"]["l"] == 0 and not t_["dest"]["p"]:
            computed.append(bi)
    if trues and computed:
        # the answer is the constant `true` in one place and worked out in another (a second look at the classes
        # after the budget ran out, say): what is worked out can be `true` as well, and must be reached the same way
        trues = trues + computed
    if trues and none_targets:
        # for every scan that can lead to the answer: only through its own exhaustion edge
        good = all((tb not in b.reach_from(sw)) or n == tb or b.dominates(n, tb) for tb in trues for sw, n in scans)
        out.append(ok("true-only-through-exhaustion") if good else bad("true-only-through-exhaustion", "is_disjoint can answer true without the scan of the class having run out (a `break` or a fall-through from the give-up test reaches `true`): with more characters than the budget the classes are called disjoint unseen, and a repeat before such a class no longer backtracks ('x+.' on 'axxb xx')", b.loc(trues[0])))
    elif trues:
        out.append(bad("true-only-through-exhaustion", "is_disjoint answers true but the exhaustion test of its scan was not recognised", b.loc(trues[0])))
    else:
        # no place stores the constant `true`: the answer is computed (the negation of "some character is common or the
        # budget ran out"), and the clauses over the paths above say when it is true
        out.append(ok("true-only-through-exhaustion"))
    hits = [p for p in w.paths if p.end == "return" and any(g.startswith("CodePointInversionList::contains(") for g in summarize(p)[0])]
    if hits and all(summarize(p)[1] == "false" for p in hits):
        out.append(ok("hit-is-false"))
    else:
        out.append(bad("hit-is-false", "a common character must make is_disjoint answer false", b.loc()))
    # the contains test relates the two classes: contains(self.0, next(other.0 chars))
    se_ok = False
    for p in w.paths:
        for a, o in p.guards:
            s = render(a)
            if s.startswith("CodePointInversionList::contains(a1.0, ") and "a2.0" in s:
                se_ok = True
            if s.startswith("CodePointInversionList::contains(a2.0, ") and "a1.0" in s:
                se_ok = True
    out.append(ok("relates-both") if se_ok else bad("relates-both", "is_disjoint must test the characters of one class for membership in the other", b.loc()))
    # threshold exits are false: any return inside the loop other than the hit
    if n_true == 0:
        out.append(bad("true-path", "is_disjoint can never answer true", b.loc()))
    return out


SEQ_OPT = "<op_sequence::Sequence as %s>::optimize::{closure#0}" % OC


def _unamb_view(gs, texts):
    """Names the operation being optimised (CUR) and its follower (NEXT) in a path of Sequence::optimize, however
    the sequence is walked: by index (`operations[i]`, `operations[i + 1]`, the closure of `enumerate().map(..)`)
    or through a peekable iterator (`next()`, then `peek()` of the same iterator - after the `next`, so it is the
    follower).  Returns (substitutions, has_follower) or None."""
    joined = "\n".join(gs + texts)
    # the closure of HEAD: a2 = (i, operation), the sequence and the flags captured
    if "a2.1" in joined and "^a1.operations" in joined:
        subs = [("^a1.operations[add(1, a2.0)]", "NEXT"), ("^a1.operations[add(a2.0, 1)]", "NEXT"), ("a2.1", "CUR"), ("^a2", "FLAGS")]
        last = any(g in ("eq(a2.0, sub(len(^a1.operations), 1))", "eq(sub(len(^a1.operations), 1), a2.0)", "!lt(add(1, a2.0), len(^a1.operations))", "!lt(add(a2.0, 1), len(^a1.operations))") for g in gs)
        notlast = any(g in ("!eq(a2.0, sub(len(^a1.operations), 1))", "!eq(sub(len(^a1.operations), 1), a2.0)", "lt(add(1, a2.0), len(^a1.operations))", "lt(add(a2.0, 1), len(^a1.operations))") for g in gs)
        return subs, (False if last else True if notlast else None)
    m = re.search(r"<Peekable<I> as Iterator>::next\((Iterator::peekable\((?:<[^()]*>::into_iter\(|IntoIterator::into_iter\(|into_iter\()?a1\.operations\)?\))\) as Some\.0", joined)
    if m:
        pk = m.group(1)
        subs = [("Peekable::peek(%s) as Some.0" % pk, "NEXT"), ("<Peekable<I> as Iterator>::next(%s) as Some.0" % pk, "CUR"), ("a2", "FLAGS")]
        some = ("variant(Peekable::peek(%s))=Some" % pk) in gs
        none = ("variant(Peekable::peek(%s))=None" % pk) in gs
        return subs, (True if some else False if none else None)
    return None


def _unamb_sub(s, subs):
    for a, b_ in subs:
        s = s.replace(a, b_)
    s = s.replace("<Operation as OperationControl>::optimize(CUR, FLAGS)", "OPT")
    s = s.replace("Operation::repeat_operation(OPT) as Some.0", "RO")
    s = s.replace("RepeatOperation::child(RO)", "CH")
    return s


@rule("OPT-UNAMB-SITES", ["C08", "C01", "C20", "C06", "C11", "C02"], floor=4)
def opt_unamb_sites(ctx):
    """UnambiguousRepeat (a cut: single result, no backtracking) is built only in Sequence::optimize, only for a
    repeated Atom/CharClass, and only under min==max or no_ambiguity(child, next operation, flag i, !greedy);
    it keeps the bounds of the repeat it replaces; the last operation, which has no follower, is never rewritten."""
    out = []
    SEQ_ROOT = SEQ_OPT.split("::{closure")[0]
    homes = []
    for caller, bb in ctx.cg.sites.get("op_unambiguous_repeat::UnambiguousRepeat::new", []):
        root = ctx.creator_root(caller.path)
        if root != SEQ_ROOT:
            out.append(bad("constructor|" + root, "UnambiguousRepeat::new is called from %s: the non-backtracking operator may be introduced only by Sequence::optimize" % root, caller.loc(bb)))
        else:
            # the function itself first (closures handed to Option / bool adaptors are read as part of its paths),
            # then the closure that makes the call and the closures around it
            for cand in [SEQ_ROOT, caller.path] + [x.path for x in ctx.f.bodies if x.path.startswith(SEQ_ROOT + "::{closure")]:
                if cand not in homes and ctx.body(cand) is not None:
                    homes.append(cand)
    if not homes:
        return out + [missing(SEQ_OPT)]
    n = 0
    lastok = False
    for hp in homes:
        if n and lastok:
            break  # the sites were read in a body tried earlier
        b = ctx.body(hp)
        for sb in [None]:
            w = ctx.walk(b)
            for p in w.paths:
                gs, r = summarize(p)
                gs = [strip_ver(g) for g in gs]
                r = strip_ver(r)
                calls = [(e[1], [strip_ver(render(x)) for x in e[2]], [render(x) for x in e[2]]) for e in p.effects if e[0] == "call"]
                texts = [r] + [a for c in calls for a in c[1]]
                view = _unamb_view(gs, texts)
                if view is None:
                    continue
                subs, follower = view
                gs = [_unamb_sub(g, subs) for g in gs]
                r = _unamb_sub(r, subs)
                news = [c for c in calls if c[0].endswith("UnambiguousRepeat::new")]
                loc = b.loc(p.blocks[-1])
                if not news:
                    # the operation is passed on as optimised; for the last one this is the only thing allowed
                    kept = r == "OPT" or any(c[0].endswith("::push") and _unamb_sub(c[1][-1], subs) == "OPT" for c in calls)
                    if follower is False and kept:
                        lastok = True
                    continue
                n += 1
                args = ", ".join(_unamb_sub(a, subs) for a in news[0][1])
                child_ok = any(g in ("variant(CH)=Atom", "variant(CH)=CharClass") for g in gs)
                eqmm = any(g in ("eq(RepeatOperation::max(RO), RepeatOperation::min(RO))", "eq(RepeatOperation::min(RO), RepeatOperation::max(RO))") for g in gs)
                amb = any(g == "ReCompiler::no_ambiguity(CH, NEXT, ReFlags::is_case_independent(FLAGS), !RepeatOperation::greedy(RO))" for g in gs)
                if amb and "NEXT" in "".join(g for g in gs if "no_ambiguity" in g):
                    # through a peekable iterator the follower is what peek() shows *after* the next() that delivered CUR
                    for c in calls:
                        if c[0].endswith("no_ambiguity") and "Peekable::peek(" in c[2][1]:
                            mm = re.search(r"Peekable::peek\((.*)\) as Some\.0$", c[2][1])
                            if not (mm and mm.group(1).endswith(("′", "′2", "′3"))):
                                amb = False
                ktype = "min==max" if eqmm else "no_ambiguity" if amb else "unjustified"
                key = "site|" + ktype
                if follower is False:
                    out.append(bad(key + "|last", "the last operation of the sequence is rewritten although it has no follower to compare with", loc))
                elif not child_ok:
                    out.append(bad(key + "|child", "the non-backtracking rewrite is applied to a repeated term that is not an Atom/CharClass", loc))
                elif not (eqmm or amb):
                    out.append(bad(key, "UnambiguousRepeat is built without min==max and without no_ambiguity(child, next operation, flag i, !greedy) holding; guards: %s" % gs[-2:], loc))
                elif amb and not eqmm and follower is not True:
                    out.append(bad(key + "|follower", "no_ambiguity is consulted without establishing that the operation has a follower", loc))
                elif args != "CH, RepeatOperation::min(RO), RepeatOperation::max(RO)":
                    out.append(bad(key + "|bounds", "UnambiguousRepeat must keep child/min/max of the repeat it replaces; built with (%s)" % args, loc))
                else:
                    out.append(ok(key))
    if not n:
        out.append(bad("sites", "no path of Sequence::optimize that builds an UnambiguousRepeat was recognised (restructured; re-audit)", None))
    # last operation is never rewritten (it has no follower)
    out.append(ok("last-not-rewritten") if lastok else bad("last-not-rewritten", "the last operation of a sequence must be returned as optimised (no follower to compare with)", None))
    # cut inventory: other constructors of cuts
    for callee_, allowed in (("operation::ForceProgressIterator::new", {"<op_repeat::Repeat as %s>::matches_iter" % OC}), ("re_matcher::ReMatcher::is_duplicate_zero_length_match", {"<op_repeat::Repeat as %s>::matches_iter" % OC})):
        for caller, bb in ctx.cg.sites.get(callee_, []):
            if caller.path in allowed:
                out.append(ok("cut|%s|%s" % (callee_.split("::")[-2], bb)))
            else:
                out.append(bad("cut|%s|%s" % (callee_, caller.path), "%s (a construct that drops alternatives) is used in %s" % (callee_, caller.path), caller.loc(bb)))
    return out


# ------------------------------------------------------------------ first sets


def _impls(ctx, method):
    return [b for b in ctx.f.bodies if b.impl_trait == OC and b.name == method and not b.from_expansion and b.kind != "Closure"]


@rule("OPT-FIRSTSET", ["C08", "C01", "C20", "C09", "C10", "C11", "C02"], floor=6)
def opt_firstset(ctx):
    """get_initial_character_class over-approximates the first characters: default all(); CharClass its class;
    Repeat its child's; Atom {first char} (+ case closure under case_blind); Choice the union over all branches;
    Sequence the union of its operations up to and including the first one that can never match empty."""
    out = []
    spec = {}
    for b in _impls(ctx, "get_initial_character_class"):
        ty = b.impl_self
        ctx.body(b.path)
        key = ty.split("::")[-1]
        if key == "Operation":
            continue  # enum_dispatch forwarder
        w = ctx.walk(b, max_visits=1)
        if key == "CharClass":
            rs = {render(p.ret) for p in w.paths}
            out.append(ok(key) if rs == {"a1.character_class"} else bad(key, "CharClass first set must be its own class; found %s" % sorted(rs), b.loc()))
        elif key in ("Repeat", "GreedyFixed", "ReluctantFixed", "UnambiguousRepeat", "Capture"):
            # a single-child operation may delegate to its child: every non-empty match starts with a first character of the child
            child = "a1.child_op" if key == "Capture" else "a1.operation"
            rs = {_sh(render(p.ret)) for p in w.paths}
            out.append(ok(key) if rs == {"get_initial_character_class(%s, a2)" % child} else bad(key, "%s first set must be its child's (with the same case_blind) or the default all(); found %s" % (key, sorted(rs)), b.loc()))
        elif key == "Atom":
            for p in w.paths:
                gs, r = summarize(p)
                it = SX.SetInterp(ctx, b).run(p.blocks)
                sets = [SX.fmt(v) for v in it.sets.values() if v is not None and v[0] in ("lit", "sym", "union")]
                if any(g in ("eq(0, a1.len)", "eq(a1.len, 0)") for g in gs):
                    out.append(ok("Atom|empty") if r == "CharacterClass::empty()" else bad("Atom|empty", "empty atom first set must be empty(); %s" % r, b.loc()))
                elif "!a2" in gs:
                    good = "{a1.atom[0]}" in sets and "CharacterClass::new(" in r
                    out.append(ok("Atom|exact") if good else bad("Atom|exact", "Atom first set must be {atom[0]}; builder states %s" % sets, b.loc()))
                elif "a2" in gs:
                    calls = [e for e in p.effects if e[0] == "call" and e[1].endswith("add_case_closure_to")]
                    good = "{a1.atom[0]}" in sets and len(calls) == 1 and render(calls[0][2][1]) == "a1.atom[0]"
                    out.append(ok("Atom|case-blind") if good else bad("Atom|case-blind", "case-blind Atom first set must be {atom[0]} plus its case closure; builder states %s" % sets, b.loc()))
        elif key in ("Choice", "Sequence"):
            loops = b.natural_loops()
            if len(loops) != 1:
                out.append(bad(key, "%s::get_initial_character_class must iterate its operands in one loop (found %d loops)" % (key, len(loops)), b.loc()))
                continue
            h = next(iter(loops))
            lw = ctx.walk(b, start_bb=h)
            good = True
            why = ""
            n_iter = 0
            for p in lw.paths:
                gs, r = summarize(p)
                gs = [_sh(g) for g in gs]
                if not any(g.endswith("=Some") and "next(" in g for g in gs):
                    continue  # loop exit by exhaustion
                n_iter += 1
                calls = [(e[1], [_sh(render(x)) for x in e[2]]) for e in p.effects if e[0] == "call"]
                names = [c[0] for c in calls]
                fi = [i for i, c in enumerate(calls) if c[0].endswith("get_initial_character_class")]
                ai = [i for i, c in enumerate(calls) if c[0].endswith("CodePointInversionListBuilder::add_set")]
                if not fi or not ai or ai[0] < fi[0]:
                    good, why = False, "an iteration does not add the operand's first set to the union"
                    continue
                # operand = the element yielded by the iterator, case_blind forwarded
                a = calls[fi[0]][1]
                if not re.match(r"^<Iter<T> as Iterator>::next\(.*\) as Some\.0$", a[0]) or a[1] != "a2":
                    good, why = False, "first set requested for %s" % a
                if "get_initial_character_class(" not in calls[ai[0]][1][1]:
                    good, why = False, "the set added is not the operand's first set: %s" % calls[ai[0]][1][1][:80]
                # exits of the loop other than exhaustion
                leaves = not p.end.startswith("loop")
                if key == "Choice" and leaves:
                    good, why = False, "the union over the branches stops early"
                if key == "Sequence" and leaves:
                    never = any(g in ("eq(matches_empty_string(%s), %s)" % (a[0], NEVER), "eq(%s, matches_empty_string(%s))" % (NEVER, a[0])) for g in gs)
                    if not never:
                        good, why = False, "the union stops before an operand that can never match empty was included (guards %s)" % gs[-1:]
                if key == "Sequence" and not leaves:
                    never_false = any(g in ("!eq(matches_empty_string(%s), %s)" % (a[0], NEVER), "!eq(%s, matches_empty_string(%s))" % (NEVER, a[0])) for g in gs)
                    if not never_false:
                        pass  # continuing past a non-nullable operand only enlarges the set (still an over-approximation)
            if n_iter == 0:
                good, why = False, "no iteration path found"
            out.append(ok(key) if good else bad(key, "%s first set: %s" % (key, why), b.loc(h)))
            # the loop iterates the operand vector itself
            src = None
            for p in ctx.walk(b).paths:
                for e in p.effects:
                    if e[0] == "call" and e[1] == "<Iter<T> as Iterator>::next" and src is None:
                        src = render(e[2][0])
            want = "a1.branches" if key == "Choice" else "a1.operations"
            out.append(ok(key + "|source") if src == want else bad(key + "|source", "%s first set must range over %s; iterates %s" % (key, want, src), b.loc()))
        else:
            out.append(bad("unknown-impl|" + key, "%s overrides get_initial_character_class; its over-approximation is not covered by the spec table" % key, b.loc()))
    d = ctx.body("operation::OperationControl::get_initial_character_class")
    if d is None:
        out.append(missing("default get_initial_character_class"))
    else:
        rs = {render(p.ret) for p in ctx.walk(d).paths}
        out.append(ok("default") if rs == {"CharacterClass::all()"} else bad("default", "the default first set must be all(); found %s" % sorted(rs), d.loc()))
    return out


# ------------------------------------------------------------------ lengths


def _ret_set(ctx, b, mv=1):
    return {_sh(render(p.ret)) for p in ctx.walk(b, max_visits=mv).paths if p.end == "return"}


@rule("OPT-MINLEN", ["C08", "C01", "C16"], floor=8)
def opt_minlen(ctx):
    """get_minimum_match_length under-approximates: 0 / own length / child's minimum; repeat family min * child
    minimum (never max); Sequence the sum; Choice the minimum over the branches."""
    out = []
    rep = "mul(get_minimum_match_length(a1.operation), a1.min)"
    rep2 = "mul(a1.min, get_minimum_match_length(a1.operation))"
    for b in _impls(ctx, "get_minimum_match_length"):
        key = b.impl_self.split("::")[-1]
        ctx.body(b.path)
        if key == "Operation":
            continue
        if key in ("Repeat", "GreedyFixed", "ReluctantFixed", "UnambiguousRepeat"):
            rs = _ret_set(ctx, b)
            out.append(ok(key) if rs and rs <= {rep, rep2} else bad(key, "%s minimum length must be min * child minimum; found %s" % (key, sorted(rs)), b.loc()))
        elif key == "Capture":
            rs = _ret_set(ctx, b)
            out.append(ok(key) if rs == {"get_minimum_match_length(a1.child_op)"} else bad(key, "Capture minimum length must be its child's; found %s" % sorted(rs), b.loc()))
        elif key == "Sequence":
            from ..lockstep import accumulation
            A = accumulation(ctx, b)
            M = "get_minimum_match_length(a1.operations[k])"
            good = A is not None and A["seq"] == "0..len(a1.operations)" and A["init"] == "0" and len(A["turns"]) == 1 and not A["turns"][0][0] and _sh(A["turns"][0][1] or "") in ("add(%s, ACC)" % M, "add(ACC, %s)" % M)
            out.append(ok(key) if good else bad(key, "Sequence minimum length must be the sum of its operations' minima from 0; found %s" % (A and {k_: A[k_] for k_ in ("seq", "init", "turns")}), b.loc()))
        elif key == "Choice":
            loops = b.natural_loops()
            good = False
            why = "no loop over the branches"
            if len(loops) == 1:
                h = next(iter(loops))
                good = True
                why = ""
                n_upd = n_keep = 0
                accs = set()
                for p in ctx.walk(b, start_bb=h).paths:
                    gs, r = summarize(p)
                    gs = [_sh(g) for g in gs]
                    if p.end == "return":
                        m = re.match(r"^uninit\((\d+)\)$", r)
                        if m:
                            accs.add(int(m.group(1)))
                        else:
                            good, why = False, "the result is %s, not the accumulator" % r[:60]
                        continue
                    for g in gs:
                        m = re.match(r"^(!?)lt\((get_minimum_match_length\(.*\)), uninit\((\d+)\)\)$", g)
                        if m:
                            k = int(m.group(3))
                            accs.add(k)
                            newv = _sh(render(p.env.get(k, ("uninit", k))))
                            if m.group(1) == "":
                                n_upd += 1
                                if newv != m.group(2):
                                    good, why = False, "under m < acc the accumulator becomes %s" % newv[:60]
                            else:
                                n_keep += 1
                                if newv != "uninit(%d)" % k:
                                    good, why = False, "under m >= acc the accumulator is overwritten with %s (a maximum, not a minimum)" % newv[:60]
                        m = re.match(r"^(!?)lt\(uninit\((\d+)\), (get_minimum_match_length\(.*\))\)$", g)
                        if m:
                            k = int(m.group(2))
                            newv = _sh(render(p.env.get(k, ("uninit", k))))
                            if m.group(1) == "" and newv != "uninit(%d)" % k:
                                good, why = False, "under acc < m the accumulator is replaced by the larger value"
                # the same accumulation written as `acc = acc.min(m)`
                if good and n_upd == 0 and n_keep == 0 and len(accs) == 1:
                    k = next(iter(accs))
                    for p in ctx.walk(b, start_bb=h).paths:
                        if p.end.startswith("loop"):
                            newv = _sh(render(p.env.get(k, ("uninit", k))))
                            mm_ = re.match(r"^Ord::min\((.*)\)$", newv)
                            if mm_ and ("uninit(%d)" % k) in mm_.group(1) and "get_minimum_match_length(" in mm_.group(1):
                                n_upd += 1
                                n_keep += 1
                            elif newv != "uninit(%d)" % k:
                                good, why = False, "the accumulator becomes %s" % newv[:80]
                if good and (n_upd == 0 or n_keep == 0 or len(accs) != 1):
                    good, why = False, "no min-accumulation (replace iff m < acc) recognised"
                if not good:
                    # `branches.iter().map(min_len).min().unwrap()`, as the loop it abbreviates: the first item seeds the
                    # accumulator, every later one goes through Ord::min; the result is the accumulator
                    okf, seen_first, seen_min, seen_ret = True, False, False, False
                    for p in ctx.walk(b, start_bb=h).paths:
                        gs, r = summarize(p)
                        gs = [_sh(strip_ver(g)) for g in gs]
                        hv = [g for g in gs if re.match(r"^!?uninit\(\d+\)$", g)]
                        if not hv:
                            okf = False
                            break
                        hk = int(re.search(r"\d+", hv[0]).group(0))
                        has = not hv[0].startswith("!")
                        if p.end == "return":
                            rr = _sh(strip_ver(r))
                            if has:
                                m = re.match(r"^Option::unwrap\(Option::Some\{0: uninit\((\d+)\)\}\)$", rr)
                                okf = okf and m is not None
                                seen_ret = seen_ret or m is not None
                            continue
                        vals = {k: _sh(strip_ver(render(v))) for k, v in p.env.items()}
                        if not has:
                            okf = okf and vals.get(hk) == "true" and any(re.match(r"^get_minimum_match_length\(.*next\(.*\) as Some\.0\)$", v) for v in vals.values())
                            seen_first = True
                        else:
                            mins = [v for v in vals.values() if re.match(r"^Ord::min\((uninit\(\d+\), get_minimum_match_length\(.*\)|get_minimum_match_length\(.*\), uninit\(\d+\))\)$", v)]
                            okf = okf and bool(mins) and not any(v.startswith("Ord::max(") for v in vals.values())
                            seen_min = True
                    if okf and seen_first and seen_min and seen_ret:
                        good, why = True, ""
            out.append(ok(key) if good else bad(key, "Choice minimum length must be the minimum over its branches: %s" % why, b.loc()))
        else:
            out.append(bad("unknown-impl|" + key, "%s overrides get_minimum_match_length; not covered by the spec table" % key, b.loc()))
    d = ctx.body("operation::OperationControl::get_minimum_match_length")
    if d is None:
        out.append(missing("default get_minimum_match_length"))
    else:
        rs = _ret_set(ctx, d)
        out.append(ok("default") if rs in ({"Option::unwrap_or(get_match_length(a1), 0)"}, {"Option::unwrap_or(OperationControl::get_match_length(a1), 0)"}) else bad("default", "default minimum length must be get_match_length().unwrap_or(0); found %s" % sorted(rs), d.loc()))
    return out


@rule("OPT-FIXLEN", ["C08", "C20", "C01", "C06", "C16"], floor=12)
def opt_fixlen(ctx):
    """get_match_length is exact: Some(n) only when every match has length n (leaf constants; Atom len; repeat family
    min*len only under min==max; Capture = child; Sequence all-Some sum; Choice all branches equal)."""
    out = []
    leaf = {"Bol": "Option::Some{0: 0}", "Eol": "Option::Some{0: 0}", "Nothing": "Option::Some{0: 0}", "EndProgram": "Option::Some{0: 0}", "CharClass": "Option::Some{0: 1}", "Atom": "Option::Some{0: a1.len}"}
    for b in _impls(ctx, "get_match_length"):
        key = b.impl_self.split("::")[-1]
        ctx.body(b.path)
        if key == "Operation":
            continue
        if key in leaf:
            rs = _ret_set(ctx, b)
            out.append(ok(key) if rs == {leaf[key]} else bad(key, "%s match length must be %s; found %s" % (key, leaf[key], sorted(rs)), b.loc()))
        elif key in ("GreedyFixed", "ReluctantFixed"):
            good = True
            for p in ctx.walk(b).paths:
                gs, r = summarize(p)
                eq = any(g in ("eq(a1.max, a1.min)", "eq(a1.min, a1.max)") for g in gs)
                if eq and r != "Option::Some{0: mul(a1.len, a1.min)}" and r != "Option::Some{0: mul(a1.min, a1.len)}":
                    good = False
                if not eq and r != "Option::None":
                    good = False
            out.append(ok(key) if good else bad(key, "%s match length must be Some(min*len) iff min==max" % key, b.loc()))
        elif key in ("Repeat", "UnambiguousRepeat"):
            # decision table over the function's own paths (an `and_then` closure, `?` or a match all read the same)
            CH = "get_match_length(a1.operation)"
            good, seen_some = True, False
            rs = set()
            for p in ctx.walk(b).paths:
                if p.end != "return":
                    continue
                gs, r = summarize(p)
                gs = [_sh(strip_ver(g)).replace("<Operation as OperationControl>::", "") for g in gs]
                r = _sh(strip_ver(r)).replace("<Operation as OperationControl>::", "")
                rs.add(r)
                none = ("variant(%s)=None" % CH) in gs
                some = ("variant(%s)=Some" % CH) in gs
                eq = any(g in ("eq(a1.max, a1.min)", "eq(a1.min, a1.max)") for g in gs)
                neq = any(g in ("!eq(a1.max, a1.min)", "!eq(a1.min, a1.max)") for g in gs)
                if none or neq:
                    good = good and r == "Option::None"
                elif some and eq:
                    seen_some = True
                    good = good and r in ("Option::Some{0: mul(a1.min, %s as Some.0)}" % CH, "Option::Some{0: mul(%s as Some.0, a1.min)}" % CH)
                else:
                    good = False
            out.append(ok(key) if good and seen_some else bad(key, "%s match length must be child length * min iff min==max and the child is fixed-length; found %s" % (key, sorted(rs)), b.loc()))
        elif key == "Capture":
            rs = _ret_set(ctx, b)
            out.append(ok(key) if rs == {"get_match_length(a1.child_op)"} else bad(key, "Capture match length must be its child's; found %s" % sorted(rs), b.loc()))
        elif key == "Sequence":
            cl = ctx.body(b.path + "::{closure#0}")
            rs = _ret_set(ctx, b)
            good = cl is not None and any("try_fold(" in r and ", 0, " in r for r in rs)
            if cl:
                cr = _ret_set(ctx, cl)
                cr = {x.replace("<Operation as OperationControl>::", "") for x in cr}
                good = good and cr in ({"Option::None", "Option::Some{0: add(a2, get_match_length(a3) as Some.0)}"}, {"Option::None", "Option::Some{0: add(get_match_length(a3) as Some.0, a2)}"})
            out.append(ok(key) if good else bad(key, "Sequence match length must be the all-Some sum (try_fold) of its operations' lengths; found %s" % sorted(rs), b.loc()))
        elif key == "Choice":
            good = True
            why = ""
            w = ctx.walk(b, max_visits=2)
            some_none = False
            for p in w.paths:
                if p.end != "return":
                    continue
                gs, r = summarize(p)
                gs = [_sh(g) for g in gs]
                if r == "Option::None":
                    # must follow a detected difference
                    if any(g.startswith("!eq(get_match_length(") for g in gs):
                        some_none = True
                    else:
                        good, why = False, "returns None without a differing branch"
                else:
                    if "get_match_length(Option::unwrap(<Iter<T> as Iterator>::next(a1.branches)))" not in _sh(r):
                        good, why = False, "returns %s, not the first branch's length" % _sh(r)[:80]
                    if not any(g.endswith("=None") and "next(" in g for g in gs[-2:]):
                        good, why = False, "returns the common length before all branches were compared"
            good = good and some_none
            out.append(ok(key) if good else bad(key, "Choice match length must be Some only when every branch equals the first: %s" % why, b.loc()))
        else:
            out.append(bad("unknown-impl|" + key, "%s overrides get_match_length; not covered by the spec table" % key, b.loc()))
    d = ctx.body("operation::OperationControl::get_match_length")
    if d is not None:
        rs = _ret_set(ctx, d)
        out.append(ok("default") if rs == {"Option::None"} else bad("default", "default match length must be None; found %s" % sorted(rs), d.loc()))
    return out


# ------------------------------------------------------------------ ReProgram::new


@rule("OPT-PROGRAM", ["C08", "C01", "C16", "C12", "C13", "C20", "C09", "C10", "C11", "C02", "C06", "C17"], floor=5)
def opt_program(ctx):
    """ReProgram::new: prefix only from a leading Atom of the top-level Sequence, initial class only from a leading
    CharClass, OPT_HASBOL only for a leading '^'; minimum_length = operation.get_minimum_match_length();
    no shortcut for any other shape."""
    P = "re_program::ReProgram::new"
    b = ctx.body(P)
    if b is None:
        return [missing(P)]
    out = []
    F = "Option::unwrap(first(a2 as Sequence.0.operations))"
    seen = set()
    for p in ctx.walk(b).paths:
        gs, r = summarize(p)
        r = _sh(strip_ver(r))
        m = re.match(r"^ReProgram::ReProgram\{(.*)\}$", r)
        if not m:
            out.append(bad("shape", "ReProgram::new returns %s" % r[:100], b.loc()))
            continue
        fields = dict(re.findall(r"(\w+): ((?:[^,{}]|\{[^{}]*\}|\{[^{}]*\{[^{}]*\}[^{}]*\})+)", m.group(1)))
        top = [g for g in gs if g.startswith("variant(a2)")]
        first = [g for g in gs if g.startswith("variant(%s)" % F)]
        fv = first[-1].split("=", 1)[1] if first and "∈" not in first[-1] else None
        is_seq = bool(top) and top[-1] == "variant(a2)=Sequence"
        exp = {"prefix": "Option::None", "initial_char_class": "Option::None", "optimization_flags": "0"}
        key = "other"
        if is_seq and fv == "Bol":
            exp["optimization_flags"] = "2"
            key = "leading-bol"
        elif is_seq and fv == "Atom":
            exp["prefix"] = "Option::Some{0: %s as Atom.0.atom}" % F
            key = "leading-atom"
        elif is_seq and fv == "CharClass":
            exp["initial_char_class"] = "Option::Some{0: %s as CharClass.0.character_class}" % F
            key = "leading-class"
        elif not is_seq:
            key = "not-a-sequence"
        seen.add(key)
        diffs = ["%s = %s (expected %s)" % (k, fields.get(k), v) for k, v in exp.items() if fields.get(k) != v]
        if fields.get("minimum_length") != "get_minimum_match_length(a2)":
            diffs.append("minimum_length = %s" % fields.get("minimum_length"))
        if fields.get("operation") != "a2" or fields.get("pattern") != "a1" or fields.get("max_parens") != "a3" or fields.get("flags") != "a4":
            diffs.append("operation/pattern/max_parens/flags not passed through")
        if fields.get("backtracking_limit") != "Option::None":
            diffs.append("backtracking_limit = %s" % fields.get("backtracking_limit"))
        out.append(ok("shortcut|" + key) if not diffs else bad("shortcut|" + key, "ReProgram::new (%s): %s" % (key, "; ".join(diffs)), b.loc(p.blocks[-1])))
    for k in ("leading-bol", "leading-atom", "leading-class", "other", "not-a-sequence"):
        if k not in seen:
            out.append(bad("missing|" + k, "ReProgram::new has no path for the case %s" % k, b.loc()))
    return out


# ------------------------------------------------------------------ preconditions

ADDP = "re_program::ReProgram::add_precondition"
ADDR = "re_program::ReProgram::add_repeat_precondition"


@rule("OPT-PRECOND", ["C08", "C01", "C20", "C05", "C12"], floor=10)
def opt_precond(ctx):
    """add_precondition descends only into terms every match must contain: Atom/CharClass themselves; the child of
    a Capture; a repeat-family node only under min >= 1; all operations of a Sequence in order; never into Choice
    or BackReference. A repeat with min > 1 is required min times (never max)."""
    b = ctx.body(ADDP)
    if b is None:
        return [missing(ADDP)]
    out = []
    PUSH = "RegexPrecondition::RegexPrecondition{operation: a2, fixed_position: a3, min_position: a4}"
    seen = {}
    for p in ctx.walk(b).paths:
        gs, r = summarize(p)
        top = [g for g in gs if g.startswith("variant(a2)")]
        if not top:
            continue
        v = top[-1].split("=", 1)[1] if "∈" not in top[-1] else top[-1].split("∈", 1)[1]
        calls = [(e[1], [strip_ver(render(x)) for x in e[2]]) for e in p.effects if e[0] == "call" and (e[1].endswith("::push") or "add_precondition" in e[1] or "add_repeat_precondition" in e[1])]
        loc = b.loc(p.blocks[-1])
        if v in ("Atom", "CharClass"):
            good = len(calls) == 1 and calls[0][0].endswith("::push") and calls[0][1][1] == PUSH
            seen.setdefault("leaf|" + v, []).append((good, "a %s precondition must be pushed as (op, fixed_position, min_position); found %s" % (v, calls), loc))
        elif v == "Capture":
            good = len(calls) == 1 and calls[0][0] == "ReProgram::add_precondition" and calls[0][1][1:] == ["a2 as Capture.0.child_op", "a3", "a4"]
            seen.setdefault("capture", []).append((good, "Capture must descend into its child with the same positions; found %s" % calls, loc))
        elif v in ("Repeat", "GreedyFixed", "ReluctantFixed", "UnambiguousRepeat"):
            minok = [g for g in gs if g in ("!lt(a2 as %s.0.min, 1)" % v, "lt(0, a2 as %s.0.min)" % v, "!eq(0, a2 as %s.0.min)" % v, "!eq(a2 as %s.0.min, 0)" % v)]
            if calls:
                good = bool(minok) and len(calls) == 1 and calls[0][0] == "ReProgram::add_repeat_precondition" and calls[0][1][1:] == ["a2", "a2 as %s.0" % v, "a3", "a4"]
                seen.setdefault("repeat|" + v, []).append((good, "a %s contributes a precondition only under min >= 1 (guards %s, calls %s): an optional term is not required" % (v, gs[-1:], calls), loc))
            else:
                seen.setdefault("repeat-skip|" + v, []).append((True, "", loc))
        elif v == "Sequence":
            pass
        else:
            good = not calls
            seen.setdefault("ignored|" + v, []).append((good, "add_precondition derives a precondition from %s (a term not every match contains)" % v, loc))
    for k, lst in sorted(seen.items()):
        badl = [x for x in lst if not x[0]]
        out.append(ok(k) if not badl else bad(k, badl[0][1], badl[0][2]))
    for v in ("Repeat", "GreedyFixed", "ReluctantFixed", "UnambiguousRepeat"):
        if "repeat|" + v not in seen:
            out.append(bad("repeat|" + v + "|missing", "add_precondition lost its arm for %s" % v, b.loc()))
    # add_repeat_precondition
    r_ = ctx.body(ADDR)
    if r_ is None:
        out.append(missing(ADDR))
    else:
        CH = "RepeatOperation::child(a3)"
        for p in ctx.walk(r_).paths:
            gs, r = summarize(p)
            cv = [g for g in gs if g.startswith("variant(%s)" % CH)]
            v = cv[-1].split("=", 1)[1] if cv and "∈" not in cv[-1] else "other"
            calls = [(e[1], [strip_ver(render(x)) for x in e[2]]) for e in p.effects if e[0] == "call" and (e[1].endswith("::push") or "add_precondition" in e[1] or e[1] == "Repeat::new")]
            loc = r_.loc(p.blocks[-1])
            if v in ("Atom", "CharClass"):
                min1 = any(g in ("eq(1, RepeatOperation::min(a3))", "eq(RepeatOperation::min(a3), 1)") for g in gs)
                if min1:
                    good = any(c[0].endswith("::push") and c[1][1] == "RegexPrecondition::RegexPrecondition{operation: a2, fixed_position: a4, min_position: a5}" for c in calls)
                    out.append(ok("repeat-leaf|%s|min=1" % v) if good else bad("repeat-leaf|%s|min=1" % v, "repeat of a %s with min 1: the repeat itself is the precondition; found %s" % (v, calls), loc))
                else:
                    rn = [c for c in calls if c[0] == "Repeat::new"]
                    good = len(rn) == 1 and rn[0][1][1:] == ["RepeatOperation::min(a3)", "RepeatOperation::min(a3)", "true"] and rn[0][1][0] == CH
                    out.append(ok("repeat-leaf|%s|min>1" % v) if good else bad("repeat-leaf|%s|min>1" % v, "repeat of a %s with min n: the precondition must be exactly n (= min) copies; found %s" % (v, [c[1] for c in rn]), loc))
            else:
                good = len(calls) == 1 and calls[0][0] == "ReProgram::add_precondition" and calls[0][1][1:] == [CH, "a4", "a5"]
                out.append(ok("repeat-child") if good else bad("repeat-child", "repeat of a composite term: descend into the child with the same positions; found %s" % calls, loc))
    for i in out:
        # what is probed as a precondition runs before match_at has allocated the back-reference arrays: that no
        # precondition contains a Capture (only Atom / CharClass leaves, and repeats of them) also bears on C05
        i.props = ["C08", "C01", "C20", "C12", "C05"] if i.key.startswith(("repeat-", "capture", "leaf", "ignored")) else ["C08", "C01", "C20", "C12"]
    return out


@rule("BOL-ZERO", ["C08", "C12", "C01"], floor=3)
def bol_zero(ctx):
    """Sequence arm of add_precondition: operations are visited in order; the fixed position advances by
    get_match_length() and becomes unknown otherwise; min_position advances by get_minimum_match_length();
    '^' fixes the position to 0 only when the regex is not multi-line."""
    b = ctx.body(ADDP)
    if b is None:
        return [missing(ADDP)]
    loops = b.natural_loops()
    if len(loops) != 1:
        return [bad("loop", "add_precondition must have exactly one loop (over a Sequence's operations)", b.loc())]
    h = next(iter(loops))
    out = []
    O = None
    res = {"bol": [], "advance": [], "unknown": [], "minpos": [], "call": []}
    for p in ctx.walk(b, start_bb=h).paths:
        gs, r = summarize(p)
        gs = [_sh(g) for g in gs]
        if not p.end.startswith("loop"):
            continue
        nx = [g for g in gs if g.endswith("=Some") and "next(" in g]
        if not nx:
            continue
        O = nx[0][len("variant("):-len(")=Some")] + " as Some.0"
        is_bol = any(g == "variant(%s)=Bol" % O for g in gs)
        ml = [g for g in gs if "is_multi_line" in g]
        calls = [(e[1], [strip_ver(_sh(render(x))) for x in e[2]]) for e in p.effects if e[0] == "call" and e[1] == "ReProgram::add_precondition"]
        loc = b.loc(p.blocks[-1])
        if len(calls) != 1:
            res["call"].append((False, "each operation of a sequence must be visited exactly once", loc))
            continue
        fp_arg = calls[0][1][2]
        res["call"].append((calls[0][1][1] == strip_ver(O), "add_precondition must receive the iterated operation; got %s" % calls[0][1][1][:60], loc))
        if is_bol:
            if fp_arg == "Option::Some{0: 0}":
                nm = any(g.startswith("!") and "is_multi_line" in g for g in ml)
                res["bol"].append((nm, "'^' fixes the position to 0 without establishing that the regex is not multi-line: with flag m '^' also matches after a newline ((?:x|y)*\\n^b on x LF b)", loc))
            else:
                res["bol"].append((True, "", loc))
        # position bookkeeping after the call: locals holding fp / mp
        newvals = [strip_ver(_sh(render(v))) for l, v in p.env.items() if isinstance(v, tuple) and v != ("uninit", l) and l > b.argc and b.locals[l].get("name")]
        glen = "get_match_length(%s)" % strip_ver(O)
        has_len = any(g == "variant(%s)=Some" % glen for g in [strip_ver(x) for x in gs])
        no_len = any(g == "variant(%s)=None" % glen for g in [strip_ver(x) for x in gs])
        adv = [v for v in newvals if v.startswith("Option::Some{0: ") and (glen + " as Some.0") in v]
        unk = [v for v in newvals if v == "Option::None"]
        if has_len and any(strip_ver(g).endswith("=Some") and ("uninit(" in g or "Option::Some" in g) for g in gs if "get_match_length" not in g and "next(" not in g):
            res["advance"].append((bool(adv), "with a known position and a fixed-length operation the position must advance by get_match_length(); new values %s" % newvals, loc))
        if no_len:
            res["unknown"].append((bool(unk), "after a variable-length operation the fixed position must become unknown; new values %s" % newvals, loc))
        mp = [v for v in newvals if v.startswith("add(") and ("get_minimum_match_length(%s)" % strip_ver(O)) in v]
        res["minpos"].append((bool(mp), "min_position must advance by get_minimum_match_length() of the operation; new values %s" % newvals, loc))
    for k, lst in res.items():
        if not lst:
            out.append(bad(k + "|missing", "sequence arm of add_precondition: no path exercises the %s clause" % k, b.loc(h)))
            continue
        badl = [x for x in lst if not x[0]]
        out.append(ok(k) if not badl else bad(k, badl[0][1], badl[0][2]))
    return out
