"""Flags and dialect gates: C07 (flag alphabet), C13 (flag q), C14 (flag x), C17 (XSD dialect)."""
import re
from ..engine import rule, ok, bad, missing
from ..table import render, summarize, strip_ver
from ..sym import show, const, short
from ..sccp import SCCP
from ..facts import callee, strip_lt
from ..dom import call_sites, guard_strings
from ..charpred import pred_intervals
from .. import setexpr as SX
from .tables import oracle

COMPILE = "re_compiler::ReCompiler::compile"
XSD = ("enumc", "re_flags::Language", "XSD")
XPATH = ("enumc", "re_flags::Language", "XPath")
T = ("const", "bool", True)
F = ("const", "bool", False)


# ------------------------------------------------------------------ C07 flags


@rule("FLAG-ALPHABET", ["C07", "C17", "C13", "C14"], floor=9)
def flag_alphabet(ctx):
    """ReFlags::new: before ';' exactly i m s x q are accepted, each setting its own field (q only in XPath);
    after ';' exactly g k K; anything else -> Err(InvalidFlags)."""
    P = "re_flags::ReFlags::new"
    b = ctx.body(P)
    if b is None:
        return [missing(P)]
    w = ctx.walk(b, max_visits=1)
    want = {"i": "case_independent", "m": "multi_line", "s": "single_line", "x": "allow_whitespace", "q": "literal"}
    out = []
    main = {}
    ext = {}
    for p in w.paths:
        gs, r = summarize(p)
        ch = None
        phase = None
        for g in gs:
            m = re.match(r"^<&mut I as Iterator>::next\(.*\) as Some\.0=(?:'(.)'|other)$", g)
            if m:
                ch, phase = (m.group(1) or "other"), "main"
            m = re.match(r"^<Chars as Iterator>::next\(.*\) as Some\.0=(?:'(.)'|other)$", g)
            if m:
                ch, phase = (m.group(1) or "other"), "ext"
        if ch is None:
            continue
        # fields of the local ReFlags value set to true on this path
        sets = sorted(show(k[2]) if False else k[2] for k, v in p.heap.items() if isinstance(k, tuple) and k[0] == "field" and k[1][0] == "localobj" and v == T)
        lang = None
        for g in gs:
            if "Language::XPath" in g and g.startswith(("eq(a2", "!eq(a2")):
                lang = not g.startswith("!")
        (main if phase == "main" else ext).setdefault(ch, []).append((r, sets, lang, p))
    for ch, field in sorted(want.items()):
        rows = main.get(ch)
        key = "flag|%s" % ch
        if not rows:
            out.append(bad(key, "flag letter '%s' is not accepted" % ch, b.loc()))
            continue
        good = True
        why = ""
        for r, sets, lang, p in rows:
            if ch == "q" and lang is False:
                if not r.startswith("Result::Err{0: Error::InvalidFlags"):
                    good, why = False, "flag q outside XPath must be Err(InvalidFlags), found %s" % r[:80]
                continue
            if ch == "q" and lang is None:
                good, why = False, "flag q is accepted without consulting the dialect"
            if r.startswith("Result::Err"):
                good, why = False, "flag '%s' is rejected: %s" % (ch, r[:80])
            elif sets != [field]:
                good, why = False, "flag '%s' sets %s, expected exactly %s" % (ch, sets, field)
        out.append(ok(key) if good else bad(key, why, b.loc()))
    extra = sorted(c for c in main if c not in want and c not in ("other", ";"))
    for c in extra:
        if any(not r.startswith("Result::Err{0: Error::InvalidFlags") for r, _, _, _ in main[c]):
            out.append(bad("extra-flag|%s" % c, "flag letter '%s' is accepted but is not one of s m i x q" % c, b.loc()))
    rows = main.get("other", [])
    if rows and all(r.startswith("Result::Err{0: Error::InvalidFlags") for r, _, _, _ in rows):
        out.append(ok("unknown-flag-rejected"))
    else:
        out.append(bad("unknown-flag-rejected", "an unknown flag letter must yield Err(InvalidFlags)", b.loc()))
    for ch in ("g", "k", "K"):
        rows = ext.get(ch)
        if rows and all(not r.startswith("Result::Err") for r, _, _, _ in rows):
            out.append(ok("ext-flag|%s" % ch))
        else:
            out.append(bad("ext-flag|%s" % ch, "engine option '%s' after ';' must be accepted" % ch, b.loc()))
    rows = ext.get("other", [])
    if rows and all(r.startswith("Result::Err{0: Error::InvalidFlags") for r, _, _, _ in rows):
        out.append(ok("unknown-ext-rejected"))
    else:
        out.append(bad("unknown-ext-rejected", "an unknown option after ';' must yield Err(InvalidFlags)", b.loc()))
    # engine options must not touch the five semantic fields
    for ch, rows in ext.items():
        for r, sets, lang, p in rows:
            if set(sets) & set(want.values()):
                out.append(bad("ext-touches-flag|%s" % ch, "option '%s' after ';' sets %s" % (ch, sets), b.loc()))
    return out


@rule("FLAG-GETTERS", ["C07", "C11", "C12", "C13", "C14", "C17", "C01"], floor=6)
def flag_getters(ctx):
    """Each ReFlags getter returns its namesake field."""
    want = {"is_case_independent": "case_independent", "is_multi_line": "multi_line", "is_single_line": "single_line", "is_allow_whitespace": "allow_whitespace", "is_literal": "literal", "language": "language"}
    out = []
    for g, f in sorted(want.items()):
        P = "re_flags::ReFlags::" + g
        b = ctx.body(P)
        if b is None:
            out.append(missing(P))
            continue
        rs = {render(p.ret) for p in ctx.walk(b).paths}
        if rs == {"a1." + f}:
            out.append(ok(g))
        else:
            out.append(bad(g, "ReFlags::%s returns %s, expected the field %s" % (g, sorted(rs), f), b.loc()))
    # ... and the fields are what the flag string said: written only while it is parsed (ReFlags::new); nobody else
    # assigns a field, replaces a stored ReFlags or takes it mutably
    RF = "re_flags::ReFlags"
    writers = {}
    n_seen = 0
    for b in ctx.f.bodies:
        if b.from_expansion:
            continue
        home = b.path.split("::{closure")[0] == RF + "::new"
        for bi, blk in enumerate(b.blocks):
            for st in blk["stmts"]:
                if st["k"] != "assign":
                    continue
                def touches(pl):
                    pr = pl.get("p") or []
                    if any(isinstance(e, dict) and e.get("adt") == RF for e in pr):
                        return True
                    fs = [e for e in pr if isinstance(e, dict) and "f" in e]
                    if fs and pr and pr[-1] is fs[-1] and fs[-1].get("ty") == RF:
                        return True
                    return False
                w = None
                if touches(st["place"]):
                    w = "assigns"
                rv = st["rv"]
                if rv.get("k") in ("ref", "rawptr") and rv.get("mut"):
                    pl = rv["place"]
                    if touches(pl) or (not (pl.get("p") or []) and b.locals[pl["l"]]["ty"] == RF):
                        w = "borrows mutably"
                if w:
                    n_seen += 1
                    if not home:
                        writers.setdefault(b.path, (w, b.loc(bi)))
    if not n_seen:
        out.append(bad("written-only-when-parsed", "no write to a field of ReFlags was found at all, not even in ReFlags::new", None))
    elif writers:
        p0 = sorted(writers)[0]
        out.append(bad("written-only-when-parsed", "%s %s the flags outside ReFlags::new (also: %s): what the compiler and the matcher consult is then not what the caller's flag string said" % (p0, writers[p0][0], sorted(writers)[1:3]), writers[p0][1]))
    else:
        out.append(ok("written-only-when-parsed"))
    return out


# ------------------------------------------------------------------ SCCP helpers


def exec_calls(ctx, b, sc):
    """resolved callee paths of the call sites executable under the assumptions"""
    out = []
    for bb, t in b.calls():
        if b.blocks[bb]["cleanup"] or not sc.executable(bb):
            continue
        d, r, fn = callee(t)
        if r:
            out.append((bb, r))
    return out


def sccp(ctx, b, calls=None, args=None):
    return SCCP(b, ctx.f, assume_calls=calls or {}, assume_args=args or {})


# ------------------------------------------------------------------ C13 flag q


@rule("LITERAL-PATH", ["C13", "C14", "C07", "C01"], floor=4)
def literal_path(ctx):
    """With flag q the compiler never reaches the parser, the whitespace stripper or any other flag: the program
    is Atom(pattern unmodified) + EndProgram with one group."""
    b = ctx.body(COMPILE)
    if b is None:
        return [missing(COMPILE)]
    sc = sccp(ctx, b, {"ReFlags::is_literal": T})
    out = []
    calls = exec_calls(ctx, b, sc)
    names = {r for _, r in calls}
    forbidden = [r for r in names if r.startswith("re_compiler::ReCompiler::") and r != "re_compiler::ReCompiler::make_sequence"]
    forbidden += [r for r in names if r.startswith("re_flags::ReFlags::") and r != "re_flags::ReFlags::is_literal"]
    forbidden += [r for r in names if "optimize" in r or "is_ascii_whitespace" in r or "is_whitespace" in r]
    if forbidden:
        out.append(bad("no-parser", "with flag q compile() still reaches %s: metacharacters or other flags can influence a literal" % sorted(set(forbidden)), b.loc()))
    else:
        out.append(ok("no-parser"))
    need = {"op_atom::Atom::new", "re_program::ReProgram::new", "re_compiler::ReCompiler::make_sequence"}
    if need <= names:
        out.append(ok("builds-atom"))
    else:
        out.append(bad("builds-atom", "the literal path must build Atom::new + make_sequence + ReProgram::new; executable: %s" % sorted(n for n in names if n.startswith(("op_", "re_"))), b.loc()))
    # the atom and the program receive self.pattern itself; no store to self.pattern is executable
    se = ctx.senv(b)
    for bb, r in calls:
        if r == "op_atom::Atom::new":
            a = show(se.operand(b.blocks[bb]["term"]["args"][0]))
            out.append(ok("atom-is-pattern") if a == "a1.pattern" else bad("atom-is-pattern", "the literal atom is built from %s, not from the pattern as given" % a, b.loc(bb)))
        if r == "re_program::ReProgram::new":
            args = [show(se.operand(x)) for x in b.blocks[bb]["term"]["args"]]
            good = args[0] == "a1.pattern" and args[2] == "Option::Some{0: a1.capturing_open_paren_count}"
            out.append(ok("program-args") if good else bad("program-args", "literal program built with %s" % args, b.loc(bb)))
    stores = []
    for bi, blk in enumerate(b.blocks):
        if blk["cleanup"] or not sc.executable(bi):
            continue
        for st in blk["stmts"]:
            if st["k"] == "assign" and st["place"]["p"] and st["place"]["l"] == 1:
                stores.append(bi)
    if stores:
        out.append(bad("no-pattern-store", "with flag q compile() modifies the compiler state (pattern/len)", b.loc(stores[0])))
    else:
        out.append(ok("no-pattern-store"))
    # a literal is never rejected: no error is constructed on a block that is executable under flag q
    rej = []
    for bi, blk in enumerate(b.blocks):
        if blk["cleanup"] or not sc.executable(bi):
            continue
        for st in blk["stmts"]:
            if st["k"] == "assign" and st["rv"].get("k") == "agg" and (strip_lt(st["rv"].get("adt", "")) == "re_compiler::Error" or (strip_lt(st["rv"].get("adt", "")) == "std::result::Result" and st["rv"].get("variant") == "Err")):
                rej.append(bi)
        tt = blk["term"]
        if tt["k"] == "call":
            d_, r_, fn_ = callee(tt)
            if r_ and r_.startswith("re_compiler::Error::"):
                rej.append(bi)
    out.append(ok("literal-never-rejected") if not rej else bad("literal-never-rejected", "with flag q compile() can construct an error: every string is a valid literal (e.g. unbalanced parentheses)", b.loc(rej[0])))
    # and the converse: without flag q the whole-pattern atom is not built
    sc0 = sccp(ctx, b, {"ReFlags::is_literal": F})
    lit = [bb for bb, r in exec_calls(ctx, b, sc0) if r == "op_atom::Atom::new" and show(se.operand(b.blocks[bb]["term"]["args"][0])) == "a1.pattern"]
    i_ = ok("literal-program-only-with-q") if not lit else bad("literal-program-only-with-q", "without flag q compile() can still take the literal branch (the pattern as a whole becomes one atom): flags such as x and the parser's checks are bypassed", b.loc(lit[0]))
    for o_ in out:
        o_.props = ["C13"]
    i_.props = ["C13", "C14", "C07", "C01"]
    out.append(i_)
    return out


@rule("FLAG-Q-XPATH", ["C13", "C17"], floor=1)
def flag_q_xpath(ctx):
    """Flag q is rejected outside the XPath dialect (checked on the paths of ReFlags::new by FLAG-ALPHABET) and
    capturing_open_paren_count is 1 when the literal program is built."""
    P = "re_compiler::ReCompiler::new"
    b = ctx.body(P)
    if b is None:
        return [missing(P)]
    rs = {render(p.ret) for p in ctx.walk(b).paths}
    r = next(iter(rs))
    good = len(rs) == 1 and "capturing_open_paren_count: 1" in r and "idx: 0" in r and "len: len(a1)" in r and "pattern: a1" in r and "has_back_references: false" in r
    return [ok("compiler-init") if good else bad("compiler-init", "ReCompiler::new must start with idx 0, len = pattern.len(), one (implicit) group; found %s" % r[:300], b.loc())]


@rule("LITERAL-REPLACE", ["C13", "C15"], floor=3)
def literal_replace(ctx):
    """With flag q the replacement is appended verbatim. Inductive argument over the scan loop of replace():
    state (first_match, simple_replacement) is (true,false) on entry; one iteration from (true,false) and from
    (false,true) under is_literal()=true never enters the $/\\ expansion and ends in (false,true)."""
    P = "re_matcher::ReMatcher::replace"
    b = ctx.body(P)
    if b is None:
        return [missing(P)]
    out = []
    se = ctx.senv(b)
    exp_blocks = set()
    for bi, blk in enumerate(b.blocks):
        if blk["cleanup"]:
            continue
        for st in blk["stmts"]:
            if st["k"] == "assign" and st["rv"]["k"] == "agg" and st["rv"].get("variant") == "InvalidReplacementString":
                exp_blocks.add(bi)
    # any block that reads replacement[i] belongs to the expansion too
    for bb, t, r in call_sites(b, lambda r: "Index" in r and r.endswith("::index")):
        if show(se.operand(t["args"][0])) in ("a2",):
            exp_blocks.add(bb)
    if not exp_blocks:
        return [missing("the $-expansion region of replace()")]
    lit = [(bb, t) for bb, t, r in call_sites(b, lambda r: r == "re_flags::ReFlags::is_literal")]
    if len(lit) != 1:
        return [bad("latch-source", "replace() must read is_literal() exactly once (to initialise the simple-replacement latch); found %d reads" % len(lit), b.loc())]
    lb, lt_ = lit[0]
    # the latch local: the user variable that receives the call result
    latch = None
    dest = lt_["dest"]["l"]
    for blk in b.blocks:
        for st in blk["stmts"]:
            if st["k"] == "assign" and not st["place"]["p"] and st["rv"]["k"] == "use" and st["rv"]["op"].get("k") in ("copy", "move") and st["rv"]["op"]["place"]["l"] == dest and not st["rv"]["op"]["place"]["p"]:
                latch = st["place"]["l"]
    if b.locals[dest].get("name"):
        latch = dest
    gs = guard_strings(b, lb, se)
    firsts = [int(g[1:]) for g in gs if re.match(r"^v\d+$", g)]
    loops = b.natural_loops()
    hs = [h for h, blocks in loops.items() if lb in blocks]
    if latch is None or len(firsts) != 1 or not hs:
        return [bad("latch-shape", "cannot identify the first-match flag / simple-replacement latch of replace()", b.loc(lb))]
    first = firsts[0]
    h = max(hs, key=lambda x: len(loops[x]))
    T_ = ("const", "bool", True)
    F_ = ("const", "bool", False)
    # entry state
    inits = {}
    for bi, blk in enumerate(b.blocks):
        if not b.dominates(bi, h) or bi == h or bi in loops[h]:
            continue
        for st in blk["stmts"]:
            if st["k"] == "assign" and not st["place"]["p"] and st["place"]["l"] in (first, latch) and st["rv"]["k"] == "use" and "bool" in st["rv"]["op"]:
                inits[st["place"]["l"]] = st["rv"]["op"]["bool"]
    if inits.get(first) is True and inits.get(latch) is False:
        out.append(ok("entry-state"))
    else:
        out.append(bad("entry-state", "replace() must start with first_match=true, simple_replacement=false; found %s" % inits, b.loc()))
    for name, init in (("first-iteration", {first: T_, latch: F_}), ("later-iterations", {first: F_, latch: T_})):
        w = ctx.walk(b, start_bb=h, init_env=init, assume={"ReFlags::is_literal": T_}, max_visits=1)
        bad_exp = None
        bad_state = None
        verb = False
        for p in w.paths:
            hit = [x for x in p.blocks if x in exp_blocks]
            if hit:
                bad_exp = hit[0]
            if p.end == "loop:%d" % h:
                if p.env.get(first) != F_ or p.env.get(latch) not in (T_,):
                    bad_state = (show(p.env.get(first)), show(p.env.get(latch)))
                if any(e[0] == "call" and e[1].endswith("::extend") and render(e[2][1]) in ("a2", "iter(a2)") for e in p.effects):
                    verb = True
        if bad_exp is not None:
            out.append(bad(name, "with flag q the $/\\ expansion of the replacement is entered (%s): '$' and '\\' are not ordinary characters" % name, b.loc(bad_exp)))
        elif bad_state is not None:
            out.append(bad(name, "with flag q an iteration of the scan loop ends in state (first_match, simple_replacement) = %s instead of (false, true): a later match would expand the replacement" % (bad_state,), b.loc(h)))
        elif not verb:
            out.append(bad(name, "with flag q the replacement must be appended verbatim (result.extend(replacement)) on every matching iteration", b.loc(h)))
        else:
            out.append(ok(name))
    return out


@rule("LITERAL-ANALYZE", ["C13", "C05"], floor=1)
def literal_analyze(ctx):
    """For a literal (flag q) program analyze must not scan the raw pattern for parentheses with unguarded
    indexing: either the scan is gated on !is_literal or every index in it is guarded."""
    P = "analyze_string::AnalyzeIter::compute_nesting_table"
    b = ctx.body(P)
    out = []
    if b is None:
        # no raw-pattern scan at all: fine
        return [ok("no-raw-scan")]
    # callers: gated?
    gated = True
    sites = ctx.cg.sites.get(P, [])
    if not sites:
        return [ok("unreachable")]
    for caller, bb in sites:
        root = caller if caller.parent is None else caller.parent
        gs = guard_strings(root, bb, ctx.senv(root)) if caller.parent is None else set()
        if not any("is_literal" in g and g.startswith("!") for g in gs):
            gated = False
    if gated:
        return [ok("gated-on-not-literal")]
    # not gated: every index / subtraction inside must be discharged
    from .panic import undischarged_in

    und = undischarged_in(ctx, b)
    if und:
        out.append(bad("raw-scan-unguarded", "compute_nesting_table runs on the raw text of a flag-q pattern with unguarded accesses (%s): a literal such as 'a(' or ')' panics in analyze" % "; ".join(sorted(set(u[0] for u in und)))[:300], b.loc(und[0][1])))
    else:
        out.append(ok("raw-scan-guarded"))
    return out


# ------------------------------------------------------------------ C14 flag x


def _strip_loop(ctx, b):
    """(header, paths of one iteration) of the whitespace stripping loop in compile()"""
    loops = b.natural_loops()
    cands = []
    for h, blocks in loops.items():
        # the loop that pushes pattern characters into a vector
        if any(callee(b.blocks[x]["term"])[1] and callee(b.blocks[x]["term"])[1].endswith("::push") for x in blocks if b.blocks[x]["term"]["k"] == "call"):
            cands.append(h)
    if len(cands) != 1:
        return None, None
    return cands[0], ctx.walk(b, start_bb=cands[0]).paths


@rule("X-STRIP-SET", ["C14", "C07"], floor=2)
def x_strip_set(ctx):
    """The characters removed under flag x are exactly U+0009, U+000A, U+000D, U+0020, and only outside [...]
    (class nesting 0)."""
    b = ctx.body(COMPILE)
    if b is None:
        return [missing(COMPILE)]
    h, paths = _strip_loop(ctx, b)
    if h is None:
        return [missing("whitespace stripping loop in compile()")]
    want = SX.lit([(c, c) for c in oracle("xsd_regex.json")["x_whitespace"]])
    dropped = SX.EMPTY
    unknown = []
    guard_ok = True
    explicit = set()
    n_drop = 0
    for p in paths:
        if not p.end.startswith("loop"):
            continue
        gs, r = summarize(p)
        pushes = [e for e in p.effects if e[0] == "call" and e[1].endswith("::push")]
        ch = None
        for g in gs:
            m = re.match(r"(?s)^<Iter<T> as Iterator>::next\(.*\) as Some\.0=(?:'(.)'|other)$", g)
            if m:
                ch = m.group(1) or "other"
        if ch and ch != "other":
            explicit.add(ord(ch))
        if pushes:
            continue
        n_drop += 1
        # a dropped character: which?
        if not any(re.match(r"^eq\(0, uninit\(\d+\)\)$", g) for g in gs):
            guard_ok = False
        if ch and ch != "other":
            dropped = SX.union(dropped, SX.lit([(ord(ch), ord(ch))]))
            continue
        preds = [g for g in gs if re.match(r"^!?[a-z_:]+\(<Iter<T> as Iterator>::next\(.*\) as Some\.0\)$", g)]
        got = None
        for g in preds:
            neg = g.startswith("!")
            name = g.lstrip("!").split("(")[0]
            iv = pred_intervals(name)
            if iv is None:
                unknown.append(name)
                continue
            s = SX.lit(iv)
            if neg:
                s = SX.compl(s)
            got = s if got is None else SX.lit_inter(got, s)
        if got is None:
            unknown.append("no recognised character test on a dropping path: %s" % gs[-2:])
        else:
            got = SX.lit_diff(got, SX.lit([(c, c) for c in explicit]))
            dropped = SX.union(dropped, got)
    out = []
    if unknown:
        out.append(bad("strip-set", "cannot evaluate the whitespace predicate: %s" % unknown[:3], b.loc(h)))
    elif dropped == want:
        out.append(ok("strip-set"))
    else:
        out.append(bad("strip-set", "flag x removes %s; the property prescribes exactly %s (extra: %s, missing: %s)" % (SX.fmt(dropped), SX.fmt(want), SX.fmt(SX.lit_diff(dropped, want)), SX.fmt(SX.lit_diff(want, dropped))), b.loc(h)))
    if n_drop == 0:
        out.append(bad("class-guard", "the stripping loop has no dropping path", b.loc(h)))
    elif guard_ok:
        out.append(ok("class-guard"))
    else:
        out.append(bad("class-guard", "a character is dropped without establishing that the class nesting is 0: whitespace inside [...] is removed", b.loc(h)))
    return out


@rule("X-STRIP-STATE", ["C14", "C07"], floor=5)
def x_strip_state(ctx):
    """Tracker of the stripping loop: an unescaped '\\' sets `escaped` and is kept; an unescaped '[' / ']' changes the
    nesting by +1 / -1 and is kept; a kept ordinary character clears `escaped`; a dropped character changes nothing;
    every kept character is pushed unchanged."""
    b = ctx.body(COMPILE)
    if b is None:
        return [missing(COMPILE)]
    h, paths = _strip_loop(ctx, b)
    if h is None:
        return [missing("whitespace stripping loop in compile()")]
    out = {}

    def rec(key, good, msg, loc):
        out.setdefault(key, [True, msg, loc])
        if not good:
            out[key] = [False, msg, loc]

    for p in paths:
        if not p.end.startswith("loop"):
            continue
        gs, r = summarize(p)
        ch = None
        chexpr = None
        for a, o in p.guards:
            s = render(a)
            m = re.match(r"^<Iter<T> as Iterator>::next\(.*\) as Some\.0$", s)
            if m and isinstance(o, tuple) and o[0] in ("char", "other"):
                ch = chr(o[1]) if o[0] == "char" else "other"
                chexpr = a
        if ch is None:
            continue
        esc_l = nest_l = None
        esc_v = None
        for g in gs:
            m = re.match(r"^(!?)uninit\((\d+)\)$", g)
            if m:
                esc_l = int(m.group(2))
                esc_v = m.group(1) == ""
            m = re.match(r"^!?eq\(0, uninit\((\d+)\)\)$", g)
            if m:
                nest_l = int(m.group(1))
        pushes = [e for e in p.effects if e[0] == "call" and e[1].endswith("::push")]
        loc = b.loc(p.blocks[-1])
        # new values of the tracked locals at the end of the iteration
        env = p.env
        changed = {l: v for l, v in env.items() if isinstance(v, tuple) and l in (esc_l, nest_l) and v != ("uninit", l)}
        for e in pushes:
            pushed = e[2][1]
            good = pushed == chexpr or (pushed[0] == "const" and ch != "other" and pushed[2] == ord(ch))
            rec("push-unchanged", good, "a kept character is pushed as %s instead of itself" % show(pushed)[:80], loc)
        if len(pushes) > 1:
            rec("push-once", False, "a character is pushed more than once", loc)
        special = ch in ("\\", "[", "]")
        if special and esc_v is None:
            rec("escape-consulted|%s" % ch, False, "the arm for %r does not consult the escape state: an escaped bracket / doubled backslash is mis-tracked" % ch, loc)
            continue
        if special and esc_v is False:
            rec("escape-consulted|%s" % ch, True, "", loc)
            # unescaped special
            if not pushes:
                rec("special-kept|%s" % ch, False, "an unescaped %r is dropped" % ch, loc)
            if ch == "\\":
                rec("backslash-sets-escaped", env.get(esc_l) == T, "an unescaped backslash must set the escape state", loc)
            else:
                nl = [l for l, v in env.items() if isinstance(v, tuple) and v[0] in ("add", "sub") and ("uninit", l) in v]
                want = ("add", ("const", "int", 1), None) if ch == "[" else None
                okn = False
                for l in nl:
                    v = env[l]
                    if ch == "[" and v[0] == "add" and ("const", "int", 1) in v:
                        okn = True
                    if ch == "]" and v[0] == "sub" and v[2] == ("const", "int", 1):
                        okn = True
                    if ch == "]" and v[0] == "add" and ("const", "int", -1) in v:
                        okn = True
                rec("bracket-nesting|%s" % ch, okn, "an unescaped %r must change the class nesting by %s" % (ch, "+1" if ch == "[" else "-1"), loc)
        else:
            # ordinary character (or escaped special)
            if pushes:
                if esc_l is not None or True:
                    cleared = [l for l, v in env.items() if v == F and b.locals[l]["ty"] == "bool"]
                    rec("kept-clears-escaped", bool(cleared), "a kept ordinary character must clear the escape state", loc)
            else:
                mut = [l for l, v in env.items() if b.locals[l]["ty"] in ("bool", "i32", "usize", "isize") and v != ("uninit", l) and b.locals[l].get("name") and isinstance(v, tuple) and v[0] in ("add", "sub", "const")]
                rec("dropped-changes-nothing", not mut, "dropping a whitespace character changes the tracker state (%s)" % [b.locals[l].get("name") for l in mut], loc)
    res = []
    for k, (good, msg, loc) in sorted(out.items()):
        res.append(ok(k) if good else bad(k, msg, loc))
    return res


def _x_flag_readers(ctx):
    """who asks for flag x: only compile() (the pre-pass that strips the pattern).  The parser itself never knows the
    flag - inside a class, in an escape, between the braces of \\p{..} white space is what it is without x."""
    out = []
    sites = ctx.cg.sites.get("re_flags::ReFlags::is_allow_whitespace", [])
    callers = sorted({c.path.split("::{closure")[0] for c, bb in sites})
    extra = [c for c in callers if c != COMPILE]
    if extra:
        c0 = next((c, bb) for c, bb in sites if c.path.split("::{closure")[0] == extra[0])
        out.append(bad("x-read-only-by-the-pre-pass", "flag x is consulted in %s: white space is removed (or treated specially) somewhere else than in the pre-pass of compile(), which deliberately leaves the inside of character classes alone" % extra, c0[0].loc(c0[1])))
    elif callers:
        out.append(ok("x-read-only-by-the-pre-pass"))
    else:
        out.append(bad("x-read-only-by-the-pre-pass", "nobody consults flag x", None))
    return out


@rule("X-STRIP-GATE", ["C14", "C13", "C03", "C07", "C16", "C05"], floor=5)
def x_strip_gate(ctx):
    """The stripping loop runs iff flag x is set and flag q is not, before the parser; its output replaces
    self.pattern together with self.len and is what ReProgram receives."""
    b = ctx.body(COMPILE)
    if b is None:
        return [missing(COMPILE)]
    h, _ = _strip_loop(ctx, b)
    if h is None:
        return [missing("whitespace stripping loop in compile()")]
    out = _x_flag_readers(ctx)
    s_off = sccp(ctx, b, {"ReFlags::is_allow_whitespace": F, "ReFlags::is_literal": F})
    s_on = sccp(ctx, b, {"ReFlags::is_allow_whitespace": T, "ReFlags::is_literal": F})
    s_q = sccp(ctx, b, {"ReFlags::is_allow_whitespace": T, "ReFlags::is_literal": T})
    out.append(ok("off-without-x") if not s_off.executable(h) else bad("off-without-x", "the whitespace stripper runs without flag x", b.loc(h)))
    out.append(ok("on-with-x") if s_on.executable(h) else bad("on-with-x", "the whitespace stripper does not run with flag x", b.loc(h)))
    out.append(ok("off-with-q") if not s_q.executable(h) else bad("off-with-q", "the whitespace stripper runs on a literal (flag q) pattern", b.loc(h)))
    # before the parser: every path to parse_expr passes the loop header or the !x edge
    pe = call_sites(b, lambda r: r == "re_compiler::ReCompiler::parse_expr")
    if len(pe) != 1:
        out.append(bad("before-parser", "expected one parse_expr call in compile()", b.loc()))
    else:
        pb = pe[0][0]
        r = None
        for sw in range(len(b.blocks)):
            t = b.blocks[sw]["term"]
            if t["k"] == "switch" and not b.blocks[sw]["cleanup"] and strip_ver(render(ctx.senv(b).switch_expr(sw))) == "ReFlags::is_allow_whitespace(a1.re_flags)":
                false_t = [tt for v, tt in t["targets"] if v == 0] or [t["otherwise"]]
                r = b.reach_from(0, avoid_blocks={h}, avoid_edges={(sw, false_t[0])})
        if r is None:
            out.append(bad("before-parser", "compile() does not test is_allow_whitespace()", b.loc()))
        elif pb in r:
            out.append(bad("before-parser", "the parser can be reached under flag x without passing the whitespace stripper", b.loc(pb)))
        else:
            out.append(ok("before-parser"))
    # the stripped text is stored to self.pattern with self.len = its length, and ReProgram::new receives self.pattern
    w = ctx.walk(b, start_bb=h)
    n_store = n_prog = 0
    bad_store = bad_prog = None
    for p in w.paths:
        if p.end.startswith("loop"):
            continue
        st = [(strip_ver(show(e[1])), strip_ver(render(e[2]))) for e in p.effects if e[0] == "store"]
        sd = dict(st)
        n_store += 1
        if not ("a1.pattern" in sd and sd.get("a1.len") == "len(%s)" % sd["a1.pattern"] and sd["a1.pattern"].startswith("uninit(")):
            bad_store = sd
            continue
        for e in p.effects:
            if e[0] == "call" and e[1] == "ReProgram::new":
                n_prog += 1
                if strip_ver(render(e[2][0])) != sd["a1.pattern"]:
                    bad_prog = strip_ver(render(e[2][0]))
    out.append(ok("stores-pattern-and-len") if n_store and bad_store is None else bad("stores-pattern-and-len", "after stripping, self.pattern and self.len must both be replaced (len = new pattern length); stores %s" % bad_store, b.loc(h)))
    out.append(ok("program-gets-stripped-pattern") if n_prog and bad_prog is None else bad("program-gets-stripped-pattern", "ReProgram::new must receive the stripped pattern (analyze rebuilds the group nesting from program.pattern); it receives %s" % bad_prog, b.loc(h)))
    for o in out:
        # what analyze's nesting scanner reads is program.pattern: that it is the text the parser accepted is what keeps
        # the scanner's unchecked stack arithmetic in range (C05, audited in PANIC-INVENTORY); the other clauses are
        # about when the stripper runs
        if o.props is None:
            o.props = ["C14", "C13", "C03", "C07", "C16"] + (["C05"] if o.key in ("program-gets-stripped-pattern", "stores-pattern-and-len") else [])
    return out


# ------------------------------------------------------------------ C17 XSD


RC = "re_compiler::ReCompiler::"
LANG = "ReFlags::language"


def _xsd_xpath(ctx, b, extra=None):
    a = {LANG: XSD}
    c = {LANG: XPATH}
    if extra:
        a.update(extra)
        c.update(extra)
    return sccp(ctx, b, a), sccp(ctx, b, c)


@rule("GATE-XSD", ["C17"], floor=8)
def gate_xsd(ctx):
    """Under the XSD dialect the XPath extensions are unreachable or rejected: ^ / $ operators, back-references,
    the escape \\$, reluctant quantifiers, non-capturing groups, flag q; ^ and $ are literal atom characters."""
    out = []

    def site(key, good, msg, loc):
        out.append(ok(key) if good else bad(key, msg, loc))

    # parse_terminal: Bol/Eol constructions
    b = ctx.body(RC + "parse_terminal")
    if b is None:
        out.append(missing(RC + "parse_terminal"))
    else:
        sx, sp = _xsd_xpath(ctx, b)
        for nm in ("Bol", "Eol"):
            sites = [bb for bb, t, r in call_sites(b, lambda r: r.endswith("::from")) if ("op_%s::%s" % (nm.lower(), nm)) in " ".join(callee(t)[2].get("targs", []))]
            if not sites:
                out.append(bad("anchor-op|%s" % nm, "parse_terminal no longer builds %s" % nm, b.loc()))
                continue
            site("anchor-op|%s" % nm, all(not sx.executable(x) for x in sites) and all(sp.executable(x) for x in sites), "the %s operator is %s" % (nm, "reachable under XSD" if any(sx.executable(x) for x in sites) else "unreachable under XPath"), b.loc(sites[0]))
        brs = [bb for bb, t, r in call_sites(b, lambda r: r == "op_back_reference::BackReference::new")]
        # back-reference construction depends on escape() returning BackReference: gate is in escape
    b = ctx.body(RC + "escape")
    if b is None:
        out.append(missing(RC + "escape"))
    else:
        sx, sp = _xsd_xpath(ctx, b)
        ags = []
        for bi, blk in enumerate(b.blocks):
            if blk["cleanup"]:
                continue
            for st in blk["stmts"]:
                if st["k"] == "assign" and st["rv"]["k"] == "agg" and st["rv"].get("variant") == "BackReference" and "CharacterClassOrBackReference" in st["rv"].get("adt", ""):
                    ags.append(bi)
        if not ags:
            out.append(bad("backref", "escape() no longer builds BackReference", b.loc()))
        else:
            site("backref", all(not sx.executable(x) for x in ags) and all(sp.executable(x) for x in ags), "a back-reference is %s" % ("constructible under XSD" if any(sx.executable(x) for x in ags) else "not constructible under XPath"), b.loc(ags[0]))
        # \$ : all executable returns of the '$' arm under XSD are Err
        from .tables import escape_arms, _arm_outcome

        ea = escape_arms(ctx)
        if ea:
            _, arms, _ = ea
            ps = arms.get("$", [])
            xs = [p for p in ps if all(sx.executable(x) for x in p.blocks)]
            xp = [p for p in ps if all(sp.executable(x) for x in p.blocks)]
            site("dollar-escape", bool(xs) and all(_arm_outcome(ctx, b, p) == ("err", "Syntax") for p in xs) and any(_arm_outcome(ctx, b, p)[0] == "char" for p in xp), "\\$ under XSD yields %s" % [_arm_outcome(ctx, b, p) for p in xs], b.loc())
    # piece: greedy=false store
    b = ctx.body(RC + "piece")
    if b is None:
        out.append(missing(RC + "piece"))
    else:
        sx, sp = _xsd_xpath(ctx, b)
        rel = [bb for bb, t, r in call_sites(b, lambda r: r == "op_reluctant_fixed::ReluctantFixed::new")]
        se = ctx.senv(b)
        rel += [bb for bb, t, r in call_sites(b, lambda r: r == "op_repeat::Repeat::new") if show(se.operand(t["args"][3])) == "false"]
        if not rel:
            out.append(bad("reluctant", "piece() no longer builds reluctant operators", b.loc()))
        else:
            # constant propagation cannot see greedy==false through the merge; use dominance: sites dominated by the marker edge, which under XSD is dead
            mark = []
            for bi, blk in enumerate(b.blocks):
                for st in blk["stmts"]:
                    if st["k"] == "assign" and not st["place"]["p"] and st["rv"]["k"] == "use" and st["rv"]["op"].get("bool") is False and b.locals[st["place"]["l"]].get("name"):
                        mark.append((bi, st["place"]["l"]))
            dead = [bi for bi, l in mark if not sx.executable(bi) and sp.executable(bi)]
            from .quant import piece_paths

            pps = piece_paths(ctx)
            # the store `greedy = false` is dead under XSD - or, when the flag is no named variable any more (a helper
            # returning it was inlined), the path table below decides alone
            site("reluctant", len(dead) >= 1 or bool(pps), "the store that makes a quantifier reluctant is reachable under XSD (or gone)", b.loc(rel[0]))
            if pps:
                acc = [pp for pp in pps[1] if pp.marker and pp.xsd is not False and pp.kind != "Err"]
                site("reluctant-marker-rejected", not acc, "a path accepts the reluctant marker '?' without having excluded the XSD dialect (%d paths): e.g. outcome %s" % (len(acc), acc[0].kind if acc else ""), b.loc())
    # parse_expr: non-capturing group
    b = ctx.body(RC + "parse_expr")
    if b is None:
        out.append(missing(RC + "parse_expr"))
    else:
        sx, sp = _xsd_xpath(ctx, b)
        # the block that consumes "(?:" (idx += 3)
        w = None
        cons = []
        for bi, blk in enumerate(b.blocks):
            if blk["cleanup"]:
                continue
            for st in blk["stmts"]:
                if st["k"] == "assign" and st["rv"]["k"] == "bin" and st["rv"]["op"].startswith("Add") and st["rv"]["b"].get("int") == 3:
                    cons.append(bi)
        if not cons:
            out.append(bad("non-capturing", "parse_expr no longer consumes '(?:' (idx += 3)", b.loc()))
        else:
            site("non-capturing", all(not sx.executable(x) for x in cons) and all(sp.executable(x) for x in cons), "the non-capturing group path is %s" % ("reachable under XSD" if any(sx.executable(x) for x in cons) else "dead under XPath"), b.loc(cons[0]))
    # parse_atom: ^ and $ are literals under XSD: the loop-exit taken on '^'/'$' must be dead under XSD
    b = ctx.body(RC + "parse_atom")
    if b is None:
        out.append(missing(RC + "parse_atom"))
    else:
        sx, sp = _xsd_xpath(ctx, b)
        lang_sites = [bb for bb, t, r in call_sites(b, lambda r: r == "re_flags::ReFlags::language")]
        good = False
        msg = "parse_atom does not consult the dialect for '^' / '$'"
        for ls in lang_sites:
            gs = ctx.walk(b, start_bb=ls)
            # under XSD the successor that breaks out must be dead; the push must stay executable
            pass
        pushes = [bb for bb, t, r in call_sites(b, lambda r: r.endswith("::push"))]
        if lang_sites:
            # blocks executable under XPath only
            only_xpath = [x for x in range(len(b.blocks)) if sp.executable(x) and not sx.executable(x) and not b.blocks[x]["cleanup"]]
            only_xsd = [x for x in range(len(b.blocks)) if sx.executable(x) and not sp.executable(x) and not b.blocks[x]["cleanup"]]
            good = bool(only_xpath) and all(sx.executable(x) for x in pushes)
            if good:
                # every '^'/'$' test must be conjoined with the dialect: the language() call is dominated by a test of the char against '^' or '$'
                ok_dom = True
                for ls in lang_sites:
                    g = guard_strings(b, ls, ctx.senv(b))
                    from ..dom import or_guarded

                    if not or_guarded(b, ls, lambda s, o: (o is True and re.match(r"^eq\('[\^\$]', ", s) is not None) or (isinstance(o, tuple) and o[0] == "char" and chr(o[1]) in "^$"), ctx.senv(b)):
                        ok_dom = False
                good = ok_dom
                msg = "the dialect test in parse_atom is not tied to the characters '^' and '$'"
        site("anchors-literal-in-atom", good, msg, b.loc(lang_sites[0]) if lang_sites else b.loc())
    return out


@rule("XSD-ANCHOR-LITERAL", ["C17", "C05"], floor=2)
def xsd_anchor_literal(ctx):
    """Under XSD '^' and '$' reach the literal branch of parse_atom: parse_atom's arms that stop an atom are exactly
    ] . [ ( ) | (and quantifiers / } / escapes); '^' and '$' stop it only under XPath, so an atom is never empty
    for them (Error::Internal unreachable)."""
    P = RC + "parse_atom"
    b = ctx.body(P)
    if b is None:
        return [missing(P)]
    out = []
    # dispatch table of the current-char switch inside the loop
    loops = b.natural_loops()
    if not loops:
        return [bad("loop", "parse_atom has no loop", b.loc())]
    h = max(loops, key=lambda x: len(loops[x]))
    w = ctx.walk(b, start_bb=h)
    stop_always = set()
    pushes_self = set()
    lang_dep = set()
    for p in w.paths:
        gs, r = summarize(p)
        cur = None
        for g in gs:
            m = re.match(r"^a1(′*)\.pattern\[a1\1\.idx\]='(.)'$", g)
            if m:
                cur = m.group(2)
            if re.match(r"^a1(′*)\.pattern\[a1\1\.idx\]=other$", g):
                cur = "other"
        if cur is None:
            continue
        if cur == "other":
            # default arm: which characters consult the dialect?
            for g in gs:
                m = re.match(r"^!?eq\('([\^\$])', a1(′*)\.pattern\[a1\2\.idx\]\)$", g)
                if m and any("ReFlags::language(" in x for x in gs):
                    lang_dep.add(m.group(1))
            continue
        pushed = [e for e in p.effects if e[0] == "call" and e[1].endswith("::push")]
        lang = [g for g in gs if "ReFlags::language(" in g]
        if lang:
            lang_dep.add(cur)
        if p.end.startswith("loop") and pushed:
            pushes_self.add(cur)
        elif not pushed and not lang and p.end != "loop":
            stop_always.add(cur)
    want_stop = set("].[()|")
    got_stop = {c for c in stop_always if c in "].[()|^$"}
    out.append(ok("atom-terminators") if got_stop == want_stop else bad("atom-terminators", "parse_atom must stop an atom (without consulting the dialect) exactly at ] . [ ( ) | ; found %s" % sorted(got_stop), b.loc()))
    out.append(ok("anchors-dialect-dependent") if {"^", "$"} <= lang_dep else bad("anchors-dialect-dependent", "'^' and '$' must consult the dialect in parse_atom (literal under XSD, operator under XPath); dialect consulted for %s" % sorted(lang_dep), b.loc()))
    return out


@rule("DIALECT-READERS", ["C17"], floor=7)
def dialect_readers(ctx):
    """The dialect is read only at the parser gates (ReCompiler::{escape, parse_atom, parse_terminal, piece,
    parse_expr}) and in ReFlags::new; nothing in the matcher or the operations reads it."""
    allowed = {RC + "escape", RC + "parse_atom", RC + "parse_terminal", RC + "piece", RC + "parse_expr"}
    out = []
    n = 0
    for b in ctx.f.bodies:
        if b.from_expansion:
            continue
        for bb, t, r in call_sites(b, lambda r: r == "re_flags::ReFlags::language"):
            n += 1
            root = b.path.split("::{closure")[0]
            key = "%s#%d" % (root, n)
            if root in allowed:
                out.append(ok("reader|" + root + "|%d" % bb))
            else:
                out.append(bad("reader|" + root, "%s reads the dialect: behaviour after compilation must not depend on it" % root, b.loc(bb)))
        # direct field reads of ReFlags.language outside re_flags.rs
        if not b.path.startswith("re_flags::"):
            for bi, blk in enumerate(b.blocks):
                for st in blk["stmts"]:
                    if st["k"] == "assign":
                        for pl in _places(st["rv"]):
                            for e in pl["p"]:
                                if isinstance(e, dict) and e.get("f") == "language" and "ReFlags" in e.get("adt", ""):
                                    out.append(bad("field-read|" + b.path, "%s reads ReFlags.language directly" % b.path, b.loc(bi)))
    return out


def _places(rv):
    out = []
    for k in ("place",):
        if k in rv:
            out.append(rv[k])
    for k in ("op", "a", "b"):
        o = rv.get(k)
        if isinstance(o, dict) and "place" in o:
            out.append(o["place"])
    for o in rv.get("fields", []) or []:
        if isinstance(o, dict) and "place" in o:
            out.append(o["place"])
    return out
