from . import leaf  # noqa
from . import tables  # noqa
from . import classes  # noqa
from . import quant  # noqa
from . import panic  # noqa
from . import gates  # noqa
from . import opt  # noqa
from . import iters  # noqa
