from . import leaf  # noqa
