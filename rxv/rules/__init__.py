from . import leaf  # noqa
from . import tables  # noqa
