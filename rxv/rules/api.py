"""API-level rules: C16 (empty-match guard), C04/C02 (scan loops), C18 (purity, thread-safety)."""
import os, re, subprocess, json, shutil, tempfile
from ..engine import rule, ok, bad, missing, VERIF
from ..table import render, summarize, strip_ver
from ..sym import show
from ..facts import callee, strip_lt
from ..dom import call_sites, guard_strings
from ..callgraph import API_ROOTS


def _sh(s):
    return s.replace("ReMatcher::", "").replace("<Operation as OperationControl>::", "")


from ..engine import rec as _rec, emit as _emit, checked  # noqa: E402




GUARD_C = "variant(try(Regex::check_matches_empty_string(a1)))=Continue"
GUARD_B = "variant(try(Regex::check_matches_empty_string(a1)))=Break"
PROP = "propagate(try(Regex::check_matches_empty_string(a1)) as Break.0)"


ALL_PROPS = ["C%02d" % i for i in range(1, 21)]


@rule("API-GUARD", ALL_PROPS, floor=6)
def api_guard(ctx):
    """replace_all and analyze create a matcher only after check_matches_empty_string() succeeded; tokenize does so
    too except for the empty input, for which it yields the exhausted iterator (prev_end = None). A failed check is
    propagated as the error."""
    d = {}
    specs = {
        "regex::Regex::replace_all": "Result::map(replace(Regex::matcher(a1, a2), Iterator::collect(chars(a3))), closure Regex::replace_all::{closure#0}[])",
        "regex::Regex::analyze": "Result::Ok{0: AnalyzeIter::new(a1.re_program.pattern, Regex::matcher(a1, a2))}",
        "regex::Regex::tokenize": "Result::Ok{0: TokenIter::TokenIter{matcher: Regex::matcher(a1, a2), prev_end: Option::Some{0: 0}}}",
    }
    for P, want in specs.items():
        b = ctx.body(P)
        name = P.split("::")[-1]
        if b is None:
            d[name + "|missing"] = [False, "anchor not found: " + P, None]
            continue
        seen_ok = seen_err = False
        for p in ctx.walk(b).paths:
            gs, r = summarize(p)
            r = _sh(strip_ver(r))
            loc = b.loc(p.blocks[-1])
            cs = [e[1] for e in p.effects if e[0] == "call"]
            if name == "tokenize" and "eq(0, len(a2))" in gs:
                _rec(d, "tokenize|empty-input", r == "Result::Ok{0: TokenIter::TokenIter{matcher: Regex::matcher(a1, a2), prev_end: Option::None}}", "tokenize(\"\") must yield the exhausted iterator (prev_end = None) for every regex; found %s" % r[:120], loc)
                continue
            if GUARD_B in gs:
                seen_err = True
                if name == "tokenize":
                    _rec(d, "tokenize|error-only-for-non-empty-input", "!eq(0, len(a2))" in gs, "tokenize returns MatchesEmptyString on a path that has not established that the input is non-empty: tokenize(\"\") must yield no tokens for every regex", loc)
                _rec(d, name + "|error-propagated", r == PROP and "Regex::matcher" not in cs, "a regex that matches the empty string must make %s return that error (and create no matcher); found %s" % (name, r[:100]), loc)
            elif GUARD_C in gs:
                seen_ok = True
                alt = {"analyze": ("Result::Ok{0: AnalyzeIter::new(Regex::matcher(a1, a2))}",)}.get(name, ())  # the pattern taken from the matcher's program
                _rec(d, name + "|guarded-ok", r == want or r in alt, "%s must return %s; found %s" % (name, want[:90], r[:140]), loc)
            else:
                _rec(d, name + "|unguarded-path", False, "%s has a path that returns %s without consulting check_matches_empty_string() (guards %s): a nullable regex is then accepted" % (name, r[:80], gs[:2]), loc)
        if not seen_ok:
            _rec(d, name + "|guarded-ok", False, "%s has no successful path" % name, b.loc())
        if not seen_err:
            _rec(d, name + "|error-propagated", False, "%s never returns MatchesEmptyString" % name, b.loc())
    # the closure of replace_all only converts chars to a String
    out = _emit(d)
    for i in out:
        # what the three calls hand back is what the engine computed (every property is observed through them: a
        # fast path beside the matcher bypasses whatever the other rules establish); the guard itself is about the
        # refusal of regexes that match the empty string
        i.props = ALL_PROPS if i.key.endswith("|guarded-ok") else ["C16", "C04", "C06", "C15", "C02", "C03", "C13"]
    return out


@rule("API-FLAG-PROV", ["C16", "C18", "C17", "C01", "C02", "C03", "C04", "C05", "C06", "C07", "C08", "C09", "C10", "C11", "C12", "C13", "C14", "C15", "C19", "C20"], floor=6)
def api_flag_prov(ctx):
    """The public entry points are faithful wrappers of the engine (a necessary condition of every property, since
    every property is observed through them - a "fast path" in Regex::new or is_match bypasses whatever the other
    rules establish). Regex::new: flags parsed with the dialect, pattern converted by chars(), program compiled, and
    matches_empty_string = is_match of a fresh matcher of the *same* program on the empty string; xpath/xsd pass
    their dialect; a matcher is ReMatcher::new(&re_program, haystack) with a fresh State."""
    d = {}
    P = "regex::Regex::new"
    b = ctx.body(P)
    if b is None:
        return [missing(P)]
    FL = "try(ReFlags::new(a2, a3)) as Continue.0"
    PROG = "try(ReCompiler::compile(ReCompiler::new(Iterator::collect(chars(a1)), %s))) as Continue.0" % FL
    okp = 0
    for p in ctx.walk(b).paths:
        gs, r = summarize(p)
        r = _sh(strip_ver(r))
        loc = b.loc(p.blocks[-1])
        if r.startswith("propagate("):
            continue
        okp += 1
        want = "Result::Ok{0: Regex::Regex{re_program: %s, matches_empty_string: is_match(new(%s, \"\"))}}" % (PROG, PROG)
        _rec(d, "new|program", ("re_program: %s, " % PROG) in r or ("re_program: %s}" % PROG) in r, "Regex::new must compile (pattern.chars(), ReFlags::new(flags, dialect)) and keep that program; found %s" % r[:200], loc)
        _rec(d, "new", r == want, "Regex::new must compile (pattern.chars(), ReFlags::new(flags, dialect)) and set matches_empty_string = is_match of a fresh matcher of the same program on \"\"; found %s" % r[:260], loc)
    _rec(d, "new|ok-path", okp >= 1, "Regex::new has no successful path", b.loc())
    for nm, lang in (("xpath", "XPath"), ("xsd", "XSD")):
        x = ctx.body("regex::Regex::" + nm)
        if x is None:
            d[nm + "|missing"] = [False, "Regex::%s missing" % nm, None]
            continue
        rs = {strip_ver(render(p.ret)) for p in ctx.walk(x).paths}
        _rec(d, nm, rs == {"Regex::new(a1, a2, Language::%s)" % lang}, "Regex::%s must be Regex::new(re, flags, Language::%s); found %s" % (nm, lang, sorted(rs)), x.loc())
    m = ctx.body("regex::Regex::matcher")
    if m is not None:
        rs = {_sh(strip_ver(render(p.ret))) for p in ctx.walk(m).paths}
        _rec(d, "matcher", rs == {"new(a1.re_program, a2)"}, "Regex::matcher must be ReMatcher::new(&self.re_program, haystack); found %s" % sorted(rs), m.loc())
    im = ctx.body("regex::Regex::is_match")
    if im is not None:
        rs = {_sh(strip_ver(render(p.ret))) for p in ctx.walk(im).paths}
        _rec(d, "is_match", rs == {"is_match(Regex::matcher(a1, a2))"}, "Regex::is_match must run a fresh matcher; found %s" % sorted(rs), im.loc())
    mn = ctx.body("re_matcher::ReMatcher::new")
    if mn is not None:
        rs = {strip_ver(render(p.ret)) for p in ctx.walk(mn).paths}
        r0 = next(iter(rs))
        _rec(d, "ReMatcher::new", len(rs) == 1 and "program: a1" in r0 and "search: Iterator::collect(chars(a2))" in r0 and "state: RefCell::new(State::new())" in r0, "ReMatcher::new must hold the program, the haystack as a vector of chars (code points) and a fresh State; found %s" % r0[:200], mn.loc())
    mi = ctx.body("re_matcher::ReMatcher::is_match")
    if mi is not None:
        rs = {_sh(strip_ver(render(p.ret))) for p in ctx.walk(mi).paths}
        _rec(d, "ReMatcher::is_match", rs == {"matches(a1, 0)"}, "ReMatcher::is_match must search from position 0; found %s" % sorted(rs), mi.loc())
    sn = ctx.body("re_matcher::State::new")
    if sn is not None:
        rs = {strip_ver(render(p.ret)) for p in ctx.walk(sn).paths}
        r0 = next(iter(rs))
        _rec(d, "State::new", "anchored_match: false" in r0 and "history: History::new()" in r0 and "capture_state: CaptureState::new()" in r0, "State::new must start unanchored with an empty history and capture state; found %s" % r0[:200], sn.loc())
    out = _emit(d)
    NULLABLE = ["C16", "C06", "C04", "C15", "C13", "C02", "C03", "C18", "C17"]  # C17: the same results from every API under both dialects
    NOT_COMPILE_ONLY = [p_ for p_ in ("C%02d" % k for k in range(1, 21)) if p_ != "C07"]
    for i_ in out:
        if i_.key == "new":
            i_.props = NULLABLE  # the part of `new` beyond new|program is the nullable flag
        elif i_.key in ("matcher", "is_match", "ReMatcher::new", "ReMatcher::is_match", "State::new"):
            i_.props = NOT_COMPILE_ONLY
    return out


@rule("TOKEN-TABLE", ["C04", "C02", "C06", "C16"], floor=3)
def token_table(ctx):
    """TokenIter::next: exhausted (prev_end None) -> None; otherwise the matcher is asked from prev_end: a match
    yields search[prev_end..match start] and prev_end := match end; no match yields search[prev_end..] and
    prev_end := None."""
    N = "<regex::TokenIter as std::iter::Iterator>::next"
    b = ctx.body(N)
    if b is None:
        return [missing(N)]
    d = {}
    PE = "a1.prev_end as Some.0"
    for p in checked(d, "token-next", b, ctx.walk(b).paths):
        gs, r = summarize(p)
        gs = [_sh(strip_ver(g)) for g in gs]
        r = _sh(strip_ver(r))
        loc = b.loc(p.blocks[-1])
        st = dict((strip_ver(show(e[1])), _sh(strip_ver(render(e[2])))) for e in p.effects if e[0] == "store")
        if "variant(a1.prev_end)=None" in gs:
            _rec(d, "exhausted", r == "Option::None" and not st, "an exhausted token iterator must keep answering None", loc)
            continue
        if "matches(a1.matcher, %s)" % PE in gs:
            _rec(d, "match", r == "Option::Some{0: Iterator::collect(a1.matcher.search[Range::Range{start: %s, end: Option::unwrap(get_paren_start(a1.matcher, 0))}])}" % PE and st.get("a1.prev_end") == "get_paren_end(a1.matcher, 0)", "on a match the token is search[prev_end..match start] and prev_end := match end; found %s / %s" % (r[:140], st), loc)
        elif "!matches(a1.matcher, %s)" % PE in gs:
            _rec(d, "no-match", r == "Option::Some{0: Iterator::collect(a1.matcher.search[RangeFrom::RangeFrom{start: %s}])}" % PE and st.get("a1.prev_end") == "Option::None", "without a further match the last token is search[prev_end..] (also when empty) and the iterator becomes exhausted; found %s / %s" % (r[:120], st), loc)
        else:
            _rec(d, "consults-matcher", False, "a path of TokenIter::next with prev_end = Some does not ask the matcher from prev_end (guards %s): a match can be skipped" % gs[1:3], loc)
    for k in ("exhausted", "match", "no-match"):
        if k not in d:
            d[k] = [False, "TokenIter::next lost its %s path" % k, b.loc()]
    return _emit(d)


@rule("ANALYZE-TABLE", ["C04", "C02", "C06"], floor=6)
def analyze_table(ctx):
    """AnalyzeIter::next: a pending matching substring is delivered next (prev_end := match end); otherwise the
    matcher is asked from prev_end (+1 after a zero-length match): a match starting at prev_end is delivered at
    once, a later one is preceded by NonMatch(search[prev_end..start]) and kept pending; without a match the tail
    search[prev_end..] is a NonMatch iff non-empty; every None leaves prev_end = None."""
    N = "<analyze_string::AnalyzeIter as std::iter::Iterator>::next"
    b = ctx.body(N)
    if b is None:
        return [missing(N)]
    d = {}
    PE = "a1.prev_end as Some.0"
    S = "Option::unwrap(get_paren_start(a1.matcher, 0))"
    E = "Option::unwrap(get_paren_end(a1.matcher, 0))"
    for p in checked(d, "analyze-next", b, ctx.walk(b).paths):
        gs, r = summarize(p)
        gs = [_sh(strip_ver(g)) for g in gs]
        r = _sh(strip_ver(r))
        loc = b.loc(p.blocks[-1])
        st = {}
        for e in p.effects:
            if e[0] == "store":
                st[strip_ver(show(e[1]))] = _sh(strip_ver(render(e[2])))
        if "variant(a1.prev_end)=None" in gs:
            _rec(d, "exhausted", r == "Option::None" and not st, "an exhausted analyze iterator must keep answering None", loc)
            continue
        if r == "Option::None":
            _rec(d, "none-is-final", st.get("a1.prev_end") == "Option::None", "every None must leave the iterator exhausted (prev_end = None)", loc)
        if "variant(Option::take(a1.next_substring))=Some" in gs:
            _rec(d, "pending-delivered", r == "Option::Some{0: AnalyzeIter::analyze_entry(a1, Option::take(a1.next_substring) as Some.0)}" and st.get("a1.prev_end") == "get_paren_end(a1.matcher, 0)", "a pending matching substring must be delivered with prev_end := match end; found %s / %s" % (r[:100], st), loc)
            continue
        ms = [g for g in gs if g.lstrip("!").startswith("matches(a1.matcher, ")]
        skip = "a1.skip" in gs
        if not ms:
            if r != "Option::None":
                _rec(d, "consults-matcher", False, "a path delivers %s without asking the matcher" % r[:60], loc)
            continue
        arg = ms[0].lstrip("!")[len("matches(a1.matcher, "):-1]
        _rec(d, "search-start|skip=%s" % skip, arg == ("add(1, %s)" % PE if skip else PE), "the next search must start at prev_end (at prev_end+1 after a zero-length match); found %s" % arg, loc)
        if ms[0].startswith("!"):
            tail = [g for g in gs if g.lstrip("!") == "lt(%s, len(a1.matcher.search))" % PE]
            if tail and not tail[-1].startswith("!"):
                _rec(d, "tail-nonmatch", r == "Option::Some{0: AnalyzeEntry::NonMatch{0: Iterator::collect(a1.matcher.search[RangeFrom::RangeFrom{start: %s}])}}" % PE and st.get("a1.prev_end") == "Option::None", "a non-empty tail must be delivered as NonMatch(search[prev_end..]) and end the iteration; found %s" % r[:120], loc)
            elif tail:
                _rec(d, "empty-tail", r == "Option::None", "an empty tail delivers nothing", loc)
            else:
                _rec(d, "tail-test", False, "after the last match the tail is not compared with the input length", loc)
        else:
            if "eq(%s, %s)" % (S, PE) in gs or "eq(%s, %s)" % (PE, S) in gs:
                _rec(d, "adjacent-match", r == "Option::Some{0: AnalyzeIter::analyze_entry(a1, a1.matcher.search[Range::Range{start: %s, end: %s}])}" % (S, E) and st.get("a1.prev_end") == "Option::Some{0: %s}" % E and (st.get("a1.next_substring") == "Option::None" or ("a1.next_substring" not in st and any(re.match(r"^variant\((Option::take\()?a1\.next_substring\)?\)=None$", g) for g in gs))), "a match starting at prev_end must be delivered as search[start..end] with prev_end := end; found %s / %s" % (r[:120], st), loc)
            elif "!eq(%s, %s)" % (S, PE) in gs or "!eq(%s, %s)" % (PE, S) in gs:
                _rec(d, "gap-before-match", r == "Option::Some{0: AnalyzeIter::analyze_entry(a1, a1.matcher.search[Range::Range{start: %s, end: %s}])}" % (PE, S) and st.get("a1.next_substring") == "Option::Some{0: a1.matcher.search[Range::Range{start: %s, end: %s}]}" % (S, E) and "a1.prev_end" not in st, "a match after a gap must first deliver search[prev_end..start] and keep search[start..end] pending; found %s / %s" % (r[:120], st), loc)
            else:
                _rec(d, "start-compared", False, "a match is delivered without comparing its start with prev_end", loc)
            _rec(d, "skip-flag", st.get("a1.skip") in ("eq(%s, %s)" % (E, S), "eq(%s, %s)" % (S, E)), "skip must record whether the match was zero-length (start == end); found %s" % st.get("a1.skip"), loc)
    for k in ("pending-delivered", "adjacent-match", "gap-before-match", "tail-nonmatch", "empty-tail", "exhausted"):
        if k not in d:
            d[k] = [False, "AnalyzeIter::next lost its %s path" % k, b.loc()]
    # analyze_entry / is_matching
    ae = ctx.body("analyze_string::AnalyzeIter::analyze_entry")
    if ae is not None:
        for p in ctx.walk(ae).paths:
            gs, r = summarize(p)
            if "AnalyzeIter::is_matching(a1)" in gs:
                _rec(d, "entry|match", r == "AnalyzeEntry::Match{0: AnalyzeIter::process_matching_substring(a1, a2)}", "a matching substring must become Match(process_matching_substring(text)); found %s" % r[:100], ae.loc())
            else:
                _rec(d, "entry|nonmatch", r == "AnalyzeEntry::NonMatch{0: Iterator::collect(a2)}", "a non-matching substring must become NonMatch(text); found %s" % r[:100], ae.loc())
    im = ctx.body("analyze_string::AnalyzeIter::is_matching")
    if im is not None:
        rows = set()
        for p in ctx.walk(im).paths:
            gs, r = summarize(p)
            rows.add((tuple(sorted(gs)), r))
        want = {(("isSome(a1.next_substring)",), "false"), (("!isSome(a1.next_substring)",), "isSome(a1.prev_end)")}
        want2 = {(("!isSome(a1.next_substring)", "isSome(a1.prev_end)"), "true"), (("!isSome(a1.next_substring)", "!isSome(a1.prev_end)"), "false"), (("isSome(a1.next_substring)",), "false")}
        _rec(d, "is_matching", rows == want or rows == want2, "is_matching must be next_substring.is_none() && prev_end.is_some(); found %s" % sorted(rows), im.loc())
    return _emit(d)


@rule("REPLACE-SCAN", ["C04", "C02", "C15", "C06"], floor=6)
def replace_scan(ctx):
    """ReMatcher::replace: while pos < len and matches(pos): text before the match is search[pos..start]; the new
    position is the match end, +1 after an empty match; without any match the input is returned unchanged;
    otherwise the tail search[pos..len] is appended."""
    P = "re_matcher::ReMatcher::replace"
    b = ctx.body(P)
    if b is None:
        return [missing(P)]
    d = {}
    loops = b.natural_loops()
    hs = [h for h, blocks in loops.items() if any(callee(b.blocks[x]["term"])[1] == "re_matcher::ReMatcher::matches" for x in blocks if b.blocks[x]["term"]["k"] == "call")]
    if not hs:
        return [bad("loop", "replace() has no scan loop calling matches()", b.loc())]
    h = max(hs, key=lambda x: len(loops[x]))
    for p in ctx.walk(b, start_bb=h, max_visits=1).paths:
        gs, r = summarize(p)
        gs = [_sh(strip_ver(g)) for g in gs]
        r = _sh(strip_ver(r))
        loc = b.loc(p.blocks[-1])
        # loop condition pos < len, where len is the hoisted length of the input (a local, or resolved to len(search))
        cond = [g for g in gs if re.match(r"^!?lt\(uninit\(\d+\), (uninit\(\d+\)|len\(a1\.search\))\)$", g)]
        if not cond:
            continue
        m = re.match(r"^(!?)lt\(uninit\((\d+)\), (?:uninit\((\d+)\)|len\(a1\.search\))\)$", cond[0])
        pos, ln = int(m.group(2)), (int(m.group(3)) if m.group(3) else -1)
        POS = "uninit(%d)" % pos
        ms = [g for g in gs if g.lstrip("!").startswith("matches(a1, ")]
        if m.group(1) == "" and ms:
            _rec(d, "search-from-pos", ms[0].lstrip("!") == "matches(a1, %s)" % POS, "the scan must search from the current position; found %s" % ms[0], loc)
        if m.group(1) == "" and ms and not ms[0].startswith("!") and p.end == "loop:%d" % h:
            cs = [(e[1], [_sh(strip_ver(render(x))) for x in e[2]]) for e in p.effects if e[0] == "call"]
            ext = [c for c in cs if c[0].endswith("::extend") or "Extend" in c[0]]
            if "variant(get_paren_start(a1, 0))=Some" in gs:
              _rec(d, "copy-before-match", any(c[1][1] == "a1.search[Range::Range{start: %s, end: get_paren_start(a1, 0) as Some.0}]" % POS for c in ext), "text before a match must be copied as search[pos..match start]", loc)
            newpos = _sh(strip_ver(render(p.env.get(pos, ("uninit", pos)))))
            E = "Option::unwrap(get_paren_end(a1, 0))"
            if ("eq(%s, %s)" % (E, POS)) in gs or ("eq(%s, %s)" % (POS, E)) in gs:
                _rec(d, "bump-after-empty-match", newpos in ("add(1, %s)" % E, "add(%s, 1)" % E), "after an empty match the position must advance by one; new position %s" % newpos, loc)
            elif ("!eq(%s, %s)" % (E, POS)) in gs or ("!eq(%s, %s)" % (POS, E)) in gs:
                _rec(d, "resume-at-match-end", newpos == E, "the scan must resume at the end of the match; new position %s" % newpos, loc)
            else:
                _rec(d, "empty-match-test", False, "the new position is not compared with the old one (an empty match would not advance); guards %s" % [g for g in gs if "get_paren_end" in g][:3], loc)
        if p.end == "return" and r.startswith("Result::Ok"):
            first = [g for g in gs if re.match(r"^!?uninit\(\d+\)$", g)]
            if first and not first[-1].startswith("!"):
                _rec(d, "no-match-unchanged", r == "Result::Ok{0: to_vec(a1.search)}" or r == "Result::Ok{0: a1.search}", "without any match the input must be returned unchanged; found %s" % r[:80], loc)
            elif first:
                cs = [(e[1], [_sh(strip_ver(render(x))) for x in e[2]]) for e in p.effects if e[0] == "call"]
                ext = [c for c in cs if c[0].endswith("::extend") or "Extend" in c[0]]
                _rec(d, "tail-copied", any(c[1][1] in tuple(f % (POS, e_) for f in ("a1.search[Range::Range{start: %s, end: %s}]", "iter(a1.search[Range::Range{start: %s, end: %s}])") for e_ in ("uninit(%d)" % ln, "len(a1.search)")) for c in ext), "after the last match the tail search[pos..len] must be appended; extends %s" % [c[1][1][:60] for c in ext], loc)
    for k in ("search-from-pos", "copy-before-match", "bump-after-empty-match", "resume-at-match-end", "no-match-unchanged", "tail-copied"):
        if k not in d:
            d[k] = [False, "replace() lost its %s clause" % k, b.loc()]
    return _emit(d)


@rule("SCAN-SOURCE", ["C04", "C02"], floor=4)
def scan_source(ctx):
    """The only callers of ReMatcher::matches are is_match, replace, TokenIter::next and AnalyzeIter::next: all
    three scan APIs are driven by the same search."""
    allowed = {"re_matcher::ReMatcher::is_match", "re_matcher::ReMatcher::replace", "<regex::TokenIter as std::iter::Iterator>::next", "<analyze_string::AnalyzeIter as std::iter::Iterator>::next"}
    out = []
    seen = set()
    for caller, bb in ctx.cg.sites.get("re_matcher::ReMatcher::matches", []):
        seen.add(caller.path)
        if caller.path in allowed:
            out.append(ok("caller|%s" % caller.path))
        else:
            out.append(bad("caller|%s" % caller.path, "%s calls ReMatcher::matches: a fourth scan" % caller.path, caller.loc(bb)))
    for a in allowed - seen:
        out.append(bad("caller-gone|" + a, "%s no longer obtains matches from ReMatcher::matches" % a, None))
    return out


# ------------------------------------------------------------------ C18


@rule("API-STATICS", ["C18"], floor=2)
def api_statics(ctx):
    """Every static of the crate is an immutable, process-wide `OnceLock<T>` that memoises a constant: it is used only
    as `S.get_or_init(f)` where f takes nothing from its environment (a function without parameters, a closure
    without captures) and reads no other static but memos of the same kind - so what it holds cannot depend on
    earlier calls, other Regex objects or other threads.  (BLOCK_LOOKUP, initialised by BlockLookup::new from
    block::ALL_BLOCKS, is the one the reference tree has.)"""
    out = []
    st = ctx.f.statics
    names = sorted(s["path"] for s in st)
    # ... whose content has no interior mutability either: a memo holds a value, it is not a place to keep notes in
    INTERIOR = re.compile(r"\b(Mutex|RwLock|RefCell|Cell|OnceCell|UnsafeCell|Atomic\w+|Condvar|mpsc|Rc)\b")
    shape_bad = [s for s in st if s["mut"] or s["thread_local"] or not strip_lt(s["ty"]).startswith("std::sync::OnceLock<") or INTERIOR.search(strip_lt(s["ty"])[len("std::sync::OnceLock<"):])]
    if shape_bad:
        s = shape_bad[0]
        out.append(bad("statics", "static %s (%s) is not an immutable process-wide OnceLock of a plain value: process- or thread-wide state makes results depend on earlier calls, other Regex objects or other threads" % (s["path"], s["ty"]), "%s:%s" % (s["span"]["file"], s["span"]["line"])))
    elif "category::BLOCK_LOOKUP" in names or names:
        out.append(ok("statics"))
    else:
        out.append(ok("statics"))
    # every use is get_or_init with an initialiser that takes nothing from its environment
    short = {n: n.split("::")[-1] for n in names}
    users = {}
    bad_use = []
    for b in ctx.f.bodies:
        if b.from_expansion:
            continue
        for bi, blk in enumerate(b.blocks):
            if blk["cleanup"]:
                continue
            t = blk["term"]
            js = json.dumps([s_ for s_ in blk["stmts"] if s_["k"] == "assign"]) + (json.dumps(t.get("args", [])) if t["k"] == "call" else "")
            for n in names:
                if ('"static": "%s"' % n) in js or ('"static": "%s"' % n.replace("::", "::")) in js:
                    users.setdefault(n, set()).add(b.path)
        for bb, t in b.calls():
            d_, r_, fn_ = callee(t)
            hit = [a.get("static") for a in t["args"] if a.get("k") == "const" and a.get("static")]
            for a in t["args"]:
                if a.get("k") in ("copy", "move") and not a["place"]["p"]:
                    v = ctx.senv(b).operand(a)
                    if v and v[0] == "static":
                        hit.append(v[1])
            for n in hit:
                if not (r_ or "").endswith("OnceLock::<T>::get_or_init") and not (d_ or "").endswith("OnceLock::<T>::get_or_init"):
                    bad_use.append((n, b, bb, "used through %s" % (r_ or d_)))
                    continue
                ini = ctx.senv(b).operand(t["args"][1]) if len(t["args"]) > 1 else None
                okk = False
                if ini and ini[0] == "fn":
                    fb = ctx.body(strip_lt(ini[1])) or next((x for x in ctx.f.bodies if x.path == ini[1]), None)
                    okk = fb is not None and fb.argc == 0
                elif ini and ini[0] == "closure":
                    okk = len(ini[2]) == 0
                if not okk:
                    bad_use.append((n, b, bb, "initialised by %s, which takes values from its environment" % (show(ini)[:80] if ini else "?")))
    for n, b, bb, why in bad_use:
        out.append(bad("static-use|%s|%s" % (n.split("::")[-1], b.path), "static %s is %s: it must be a memo of a constant (S.get_or_init(f) with a parameterless, capture-free f)" % (n, why), b.loc(bb)))
    # BLOCK_LOOKUP, the memo the reference tree has: every use of it is a get_or_init (checked above for any static),
    # and what it memoises is BlockLookup::new - wherever the accessor lives (the memo normal form records the
    # sites it read through as (function, initialiser))
    bu = users.get("category::BLOCK_LOOKUP", set())
    misused = [x for x in bad_use if x[0] == "category::BLOCK_LOOKUP"]
    if "category::BLOCK_LOOKUP" not in names:
        # the same memo under another path (a static local to its accessor)
        alt = [n for n in names if n.endswith("::BLOCK_LOOKUP")]
        if alt:
            bu = users.get(alt[0], set())
            misused = [x for x in bad_use if x[0] == alt[0]]
    out.append(ok("static-users") if (bu and not misused) or not [n for n in names if n.endswith("BLOCK_LOOKUP")] else bad("static-users", "BLOCK_LOOKUP is not used, or is used other than as a memo (BLOCK_LOOKUP.get_or_init(..)); used in %s" % sorted(bu), None))
    bl = ctx.body("category::block_lookup")
    memo_sites = [m for m in getattr(ctx.f, "memos", []) if m[1] == "category::BlockLookup::new"]
    if bl is not None:
        rs = {strip_ver(render(p.ret)) for p in ctx.walk(bl).paths}
        out.append(ok("get_or_init") if rs == {"OnceLock::get_or_init(static BLOCK_LOOKUP, fn BlockLookup::new)"} else bad("get_or_init", "block_lookup must be BLOCK_LOOKUP.get_or_init(BlockLookup::new); found %s" % sorted(rs), bl.loc()))
    else:
        # (the static may live inside the accessor function: what matters is the memo of BlockLookup::new)
        out.append(ok("get_or_init") if memo_sites else bad("get_or_init", "no function reads the block table as a memo S.get_or_init(BlockLookup::new)", None))
    # thread_local / lazy statics hidden in consts (LocalKey)
    for b in ctx.f.bodies:
        if b.kind.startswith("Const") or b.kind.startswith("Static"):
            ty = strip_lt(b.locals[0]["ty"]) if b.locals else ""
            if "LocalKey" in ty or "thread::local" in ty:
                out.append(bad("thread-local|" + b.path, "thread-local state %s (%s): results would depend on which calls ran earlier on the same thread" % (b.path, ty), b.loc()))
    for a in ctx.f.adts.values():
        pass
    return out


@rule("API-PURE-TYPE", ["C18"], floor=4)
def api_pure_type(ctx):
    """Regex holds no interior mutability and no raw pointer (ADT walk through all field types and generic
    arguments); the iterators borrow it immutably; every public method of Regex takes &self; no user-written
    unsafe code in the crate."""
    out = []
    a = ctx.f.adts.get("regex::Regex")
    if a is None:
        return [missing("regex::Regex")]
    reach = a["reach"]
    badk = [x for x in reach if re.search(r"adt:(std|core)::cell::|adt:std::sync::(Mutex|RwLock|OnceLock|LazyLock|Condvar|mpsc)|adt:(std|core)::sync::atomic|adt:std::sync::poison|adt:std::rc::", x) or x.startswith("rawptr:") or x == "fnptr" or x.startswith("dyn:")]
    loc = "%s:%s" % (a["span"]["file"], a["span"]["line"])
    out.append(ok("no-interior-mutability") if not badk else bad("no-interior-mutability", "Regex (transitively) contains %s: calls on one Regex could observe each other" % badk[:4], loc))
    fields = [f["name"] for v in a["variants"] for f in v["fields"]]
    out.append(ok("fields") if sorted(fields) == ["matches_empty_string", "re_program"] else bad("fields", "Regex gained or lost state: fields are %s (audited: re_program, matches_empty_string)" % fields, loc))
    # &self receivers
    n = 0
    for b in ctx.f.bodies:
        if b.impl_adt == "regex::Regex" and b.impl_trait is None and b.kind == "AssocFn" and b.vis == "pub":
            n += 1
            sig = b.sig or ""
            if b.name in ("xpath", "xsd"):
                continue
            if "&mut regex::Regex" in sig or re.search(r"fn\(regex::Regex", sig):
                out.append(bad("self-ref|" + b.name, "Regex::%s does not take &self: %s" % (b.name, sig), b.loc()))
            else:
                out.append(ok("self-ref|" + b.name))
    users = [u for u in ctx.f.unsafe if u.get("user")]
    out.append(ok("unsafe-free") if not users else bad("unsafe-free", "user-written unsafe code: %s" % ["%s:%s %s" % (u["span"]["file"], u["span"]["line"], u["what"]) for u in users][:3], None))
    # ReProgram / Operation types likewise
    for t in ("re_program::ReProgram", "operation::Operation", "re_flags::ReFlags", "character_class::CharacterClass"):
        x = ctx.f.adts.get(t)
        if x is None:
            out.append(missing(t))
            continue
        bk = [y for y in x["reach"] if re.search(r"adt:(std|core)::cell::|adt:std::sync::(Mutex|RwLock|OnceLock|LazyLock)|adt:(std|core)::sync::atomic", y)]
        out.append(ok("pure|" + t) if not bk else bad("pure|" + t, "%s contains interior mutability: %s" % (t, bk[:3]), "%s:%s" % (x["span"]["file"], x["span"]["line"])))
    return out


@rule("API-FRESH", ["C18"], floor=4)
def api_fresh(ctx):
    """A fresh matcher (and state) per call: State::new only from ReMatcher::new; ReMatcher::new only from
    Regex::matcher and Regex::new; every API body obtains its matcher from Regex::matcher; no matcher or state is
    stored in Regex or in a static."""
    out = []
    want = {
        "re_matcher::State::new": {"re_matcher::ReMatcher::new"},
        "re_matcher::ReMatcher::new": {"regex::Regex::matcher", "regex::Regex::new"},
        "regex::Regex::matcher": {"regex::Regex::is_match", "regex::Regex::replace_all", "regex::Regex::tokenize", "regex::Regex::analyze"},
        "history::History::new": {"re_matcher::State::new", "re_matcher::ReMatcher::match_at"},
    }
    for callee_, allowed in want.items():
        callers = {c.path for c, bb in ctx.cg.sites.get(callee_, [])}
        if not callers:
            out.append(bad("callers|" + callee_, "%s is never called" % callee_, None))
        elif callers <= allowed:
            out.append(ok("callers|" + callee_))
        else:
            out.append(bad("callers|" + callee_, "%s is also called from %s: state may outlive or be shared between API calls" % (callee_, sorted(callers - allowed)), None))
    return out


NONDET = [r"std::time::", r"std::env::", r"rand::", r"std::thread::current", r"getrandom", r"std::process::id", r"RandomState::new", r"std::fs::", r"std::net::"]
HASH_ITER = re.compile(r"(HashMap|HashSet|hash_map|hash_set|hashbrown).*::(iter|iter_mut|keys|values|values_mut|drain|into_iter|retain|into_keys|into_values)$")


@rule("API-NONDET", ["C18"], floor=1)
def api_nondet(ctx):
    """No API-reachable call to a source of nondeterminism: iteration over hash containers (order is seeded per
    process), clocks, environment, randomness, thread identity, pointer-to-integer casts."""
    out = []
    reach = ctx.api_reachable()
    n = 0
    for b in ctx.f.bodies:
        if b.from_expansion or b.path not in reach:
            continue
        for bb, t in b.calls():
            d_, r_, fn = callee(t)
            if r_ is None:
                continue
            inst = strip_lt(fn.get("res_inst", r_))
            n += 1
            if any(re.search(x, r_) for x in NONDET):
                out.append(bad("nondet|%s|%s" % (b.path, r_.split("::")[-1]), "%s calls %s: the result would not be a function of (pattern, flags, dialect, arguments)" % (b.path, r_), b.loc(bb)))
            if HASH_ITER.search(inst) or HASH_ITER.search(r_):
                out.append(bad("hash-order|%s|%s" % (b.path, r_.split("::")[-1]), "%s iterates a hash container (%s): the order is seeded per process" % (b.path, r_), b.loc(bb)))
        for bi, blk in enumerate(b.blocks):
            for st in blk["stmts"]:
                if st["k"] == "assign" and st["rv"]["k"] == "cast" and st["rv"]["kind"] in ("PointerExposeProvenance", "PointerExposeAddress"):
                    out.append(bad("ptr-to-int|" + b.path, "%s casts a pointer to an integer" % b.path, b.loc(bi)))
    out.append(ok("scanned|%d-call-sites" % (1 if n else 0)))
    return out


@rule("API-SEND-SYNC", ["C18"], floor=2, tier="thorough")
def api_send_sync(ctx):
    """Compile witnesses (nothing is executed): `fn ok<T: Send + Sync>() {}` instantiated at regexml::Regex compiles;
    the twin instantiated at Rc<Regex> fails with E0277 (so the witness is live); a TokenIter and an AnalyzeIter of
    one Regex can be alive while is_match is called and &Regex is shared with scoped threads."""
    out = []
    wdir = os.path.join(VERIF, "witness")
    if not os.path.isdir(wdir):
        return [missing("witness crate")]
    tmp = tempfile.mkdtemp(prefix="rxv-witness-", dir="/tmp")
    try:
        dst = os.path.join(tmp, "witness")
        shutil.copytree(wdir, dst, ignore=shutil.ignore_patterns("target"))
        ct = open(os.path.join(dst, "Cargo.toml")).read().replace("/repo/regexml", os.path.join(ctx.repo, "regexml"))
        open(os.path.join(dst, "Cargo.toml"), "w").write(ct)
        shutil.copy(os.path.join(ctx.repo, "Cargo.lock"), os.path.join(dst, "Cargo.lock"))
        env = dict(os.environ, CARGO_NET_OFFLINE="true", CARGO_TARGET_DIR=os.path.join(VERIF, ".cache", "witness-target"))
        r = subprocess.run(["cargo", "+nightly", "test", "--doc", "--offline"], cwd=dst, env=env, stdout=subprocess.PIPE, stderr=subprocess.STDOUT, text=True)
        txt = r.stdout
        m = re.search(r"test result: (\w+)\. (\d+) passed; (\d+) failed", txt)
        if r.returncode == 0 and m and m.group(1) == "ok" and int(m.group(2)) >= 4:
            out.append(ok("send-sync-witness"))
            out.append(ok("compile-fail-twin-live"))
            out.append(ok("iterators-coexist-witness"))
        else:
            tail = "\n".join(l for l in txt.splitlines() if "error" in l or "FAILED" in l or "failed" in l)[:600]
            out.append(bad("send-sync-witness", "the Send+Sync / shared-borrow compile witnesses no longer hold: %s" % tail, None))
    finally:
        shutil.rmtree(tmp, ignore_errors=True)
    return out
