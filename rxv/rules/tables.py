"""Embedded tables versus independent data (C10, parts of C07/C09/C14)."""
import json, os, re
from ..engine import rule, ok, bad, missing, VERIF
from ..sym import show, StaticEnv
from ..table import render, summarize, strip_ver
from ..facts import callee, strip_lt
from .. import setexpr as SX
from ..dom import call_sites


def oracle(name):
    return json.load(open(os.path.join(VERIF, "oracles", name)))


# ------------------------------------------------------------------ C10: categories


@rule("TABLE-CATEGORY", ["C10", "C07"], floor=37)
def table_category(ctx):
    """get_category_group maps exactly the 36 XSD category names (29 two-letter without Cs, 7 one-letter) to the matching GeneralCategoryGroup
    constant; every other name is rejected with Error::Syntax."""
    P = "category::get_category_group"
    b = ctx.body(P)
    if b is None:
        return [missing(P)]
    want = oracle("gc_aliases.json")["map"]
    w = ctx.walk(b)
    out = []
    got = {}
    default = []
    for p in w.paths:
        pos = [show(a) for a, o in p.guards if o is True]
        r = render(p.ret) if p.end == "return" else "<%s>" % p.end
        if len(pos) == 1:
            m = re.match(r'^eq\(a1, "(.*)"\)$', pos[0])
            if not m:
                out.append(bad("arm|?", "unrecognised test %s in get_category_group" % pos[0], b.loc(p.blocks[-1])))
                continue
            got.setdefault(m.group(1), set()).add(r)
        elif not pos:
            default.append(r)
        else:
            out.append(bad("arm|multi", "a path passes several positive name tests: %s" % pos, b.loc()))
    # the private lookup answers Result (Err = unknown name) or Option (None = unknown name, its caller builds the error)
    as_option = bool(default) and all(x == "Option::None" for x in default)
    for name, long in sorted(want.items()):
        exp = ("Option::Some{0: GeneralCategoryGroup::%s}" if as_option else "Result::Ok{0: GeneralCategoryGroup::%s}") % long
        g = got.get(name)
        if g is None:
            out.append(bad("name|" + name, "category name %s is not accepted (the property requires \\p{%s} = General_Category %s)" % (name, name, long), b.loc()))
        elif g != {exp}:
            out.append(bad("name|" + name, "category name %s maps to %s, Unicode says %s" % (name, sorted(g), long), b.loc()))
        else:
            out.append(ok("name|" + name))
    for name in sorted(set(got) - set(want)):
        out.append(bad("extra|" + name, "category name %s is accepted but is not one of the 37 XSD category names (maps to %s)" % (name, sorted(got[name])), b.loc()))
    if len(default) == 1 and default[0].startswith("Result::Err{0: Error::syntax("):
        out.append(ok("default-rejects"))
    elif as_option and len(default) == 1 and _none_becomes_syntax(ctx, "category::category_group", r"get_category_group\(a1\)"):
        out.append(ok("default-rejects"))
    else:
        out.append(bad("default-rejects", "an unknown category name must be rejected with Error::Syntax; default arm yields %s" % default, b.loc()))
    return out


def _bisect_lookup(ctx, lb, w):
    """lookup over a vector of (key, block) sorted by key: binary_search_by(|e| e.0.cmp(name)) -> Ok(i): blocks[i].1,
    Err: Error::Syntax; or partition_point(|e| e.0 <= name), the last element before it accepted iff its key equals
    the name."""
    rows = [([strip_ver(g) for g in summarize(p)[0]], strip_ver(summarize(p)[1])) for p in w.paths]
    cl = [c for c in ctx.f.bodies if c.path.startswith(lb.path + "::{closure")]
    crets = set()
    for c in cl:
        for p in ctx.walk(c).paths:
            crets.add(strip_ver(render(p.ret)))
    BS = r"binary_search_by\(a1\.blocks, closure [^\[]*\[a2\]\)"
    if crets <= {"cmp(String::as_str(a2.0), ^a2)", "cmp(a2.0, ^a2)", "Ord::cmp(String::as_str(a2.0), ^a2)"} and crets:
        okr = [r for gs, r in rows if len(gs) == 1 and re.match(r"^variant\(%s\)=Ok$" % BS, gs[0]) and re.match(r"^Result::Ok\{0: a1\.blocks\[%s as Ok\.0\]\.1\}$" % BS, r)]
        err = [r for gs, r in rows if len(gs) == 1 and re.match(r"^variant\(%s\)=Err$" % BS, gs[0]) and r.startswith("Result::Err{0: Error::syntax(")]
        return len(rows) == 2 and len(okr) == 1 and len(err) == 1
    PP = r"last\(a1\.blocks\[RangeTo::RangeTo\{end: partition_point\(a1\.blocks, closure [^\[]*\[a2\]\)\}\]\)"
    if crets == {"!lt(^a2, String::as_str(a2.0))"}:
        good = True
        seen_ok = False
        for gs, r in rows:
            found = any(re.match(r"^eq\(a2, %s as Some\.0\.0\)$" % PP, g) for g in gs)
            if found and any(re.match(r"^variant\(%s\)=Some$" % PP, g) for g in gs):
                seen_ok = seen_ok or re.match(r"^Result::Ok\{0: %s as Some\.0\.1\}$" % PP, r) is not None
                good = good and re.match(r"^Result::Ok\{0: %s as Some\.0\.1\}$" % PP, r) is not None
            else:
                good = good and r.startswith("Result::Err{0: Error::syntax(")
        return good and seen_ok
    return False


def _none_becomes_syntax(ctx, caller, call):
    """in `caller`, every path on which `call` (a regular expression over the rendered call) answered None returns
    Err(Error::Syntax)"""
    b = ctx.body(caller)
    if b is None:
        return False
    seen = False
    for p in ctx.walk(b).paths:
        gs, r = summarize(p)
        gs = [strip_ver(g) for g in gs]
        r = strip_ver(r)
        if any(re.match(r"^variant\((?:%s)\)=None$" % call, g) for g in gs):
            seen = True
            if not r.startswith("Result::Err{0: Error::syntax("):
                return False
    return seen


@rule("TABLE-CATEGORY-USE", ["C10"], floor=3)
def table_category_use(ctx):
    """category_group(s) = builder holding exactly the set of get_category_group(s); builder_for_group(g) = GC(g)."""
    out = []
    r = SX.eval_fn(ctx, "category::builder_for_group")
    if r == ("sym", "GC(a1)"):
        out.append(ok("builder_for_group"))
    else:
        out.append(bad("builder_for_group", "builder_for_group(g) must hold exactly sets::for_general_category_group(g); found %s" % (SX.fmt(r) if r else r), _loc(ctx, "category::builder_for_group")))
    b = ctx.body("category::category_group")
    if b is None:
        return out + [missing("category::category_group")]
    w = ctx.walk(b)
    rs = sorted(render(p.ret) for p in w.paths)
    exp = sorted(["Result::Ok{0: builder_for_group(try(get_category_group(a1)) as Continue.0)}", "propagate(try(get_category_group(a1)) as Break.0)"])
    rows = sorted((tuple(strip_ver(g) for g in summarize(p)[0]), strip_ver(summarize(p)[1])) for p in w.paths)
    G = "get_category_group(a1)"
    opt_form = len(rows) == 2 and rows[0][0] == ("variant(%s)=None" % G,) and rows[0][1].startswith("Result::Err{0: Error::syntax(") and rows[1] == (("variant(%s)=Some" % G,), "Result::Ok{0: builder_for_group(%s as Some.0)}" % G)
    # `get_category_group(s).map(builder_for_group)`: Ok is mapped through the function, Err passed on as it is
    map_form = [strip_ver(x) for x in rs] == ["Result::map(%s, fn builder_for_group)" % G]
    # the builder handed out already wrapped as a CharacterClassBuilder: `Ok(builder_for_group(g).into())`, where the
    # conversion is the crate's own From impl that puts the list into the CodePointInversionListBuilder variant
    wrapped = False
    if "CharacterClassBuilder" in strip_lt(b.locals[0]["ty"]) and _from_wraps(ctx):
        unw = sorted(re.sub(r"conv<[^()]*>\((builder_for_group\(.*\))\)\}$", r"\1}", x) for x in rs)
        wrapped = unw == exp
    if rs == exp or opt_form or map_form or wrapped:
        out.append(ok("category_group|ok"))
        out.append(ok("category_group|err-propagated"))
    else:
        out.append(bad("category_group", "category_group must be builder_for_group(get_category_group(s)?) ; found %s" % rs, b.loc()))
    return out


def _from_wraps(ctx):
    """Every `From<..> for CharacterClassBuilder` of the crate puts its argument into the inversion-list variant."""
    bodies = [x for x in ctx.f.bodies if x.path.startswith("<character_class::CharacterClassBuilder as std::convert::From<")]
    return bool(bodies) and all([strip_ver(render(w.ret)) for w in ctx.walk(x).paths] == ["CharacterClassBuilder::CodePointInversionListBuilder{0: a1}"] for x in bodies)


def _loc(ctx, path):
    b = ctx.f.body(path)
    return b.loc() if b else None


# ------------------------------------------------------------------ C10: blocks


def parse_blocks_txt(path):
    out = []
    for line in open(path, encoding="utf-8"):
        line = line.rstrip("\n")
        if not line.strip() or line.startswith("#"):
            continue
        rng, name = line.split(";", 1)
        a, b = rng.strip().split("..")
        out.append((name.strip(), int(a, 16), int(b, 16)))
    return out


def block_consts(ctx):
    """{const path: (name, start, end)} from the const bodies, and the ordered list referenced by ALL_BLOCKS."""
    consts = {}
    for b in ctx.f.bodies:
        if not b.path.startswith("block::") or not b.kind.startswith("Const"):
            continue
        if b.path == "block::ALL_BLOCKS":
            continue
        se = StaticEnv(b, ctx.f)
        v = se.local_value(0)
        if v[0] == "agg" and v[1] == "block::Block":
            d = dict(zip(v[3], v[4]))
            try:
                consts[b.path] = (d["name"][2], d["start"] if d["start"][0] == "field" else d["start"][2], d["end"] if d["end"][0] == "field" else d["end"][2])
            except Exception:
                consts[b.path] = None
    # a field written as a reference to another constant's field (an alias that takes its extent from the block it
    # stands for) is read through; anything else that is not a literal leaves the constant undetermined
    for k, v in list(consts.items()):
        if v is None:
            continue
        r = list(v)
        for j in (1, 2):
            seen = 0
            while isinstance(r[j], tuple) and r[j][0] == "field" and r[j][1][0] == "named" and seen < 4:
                o_ = consts.get(r[j][1][1])
                r[j] = (o_[{"start": 1, "end": 2}[r[j][2]]] if (o_ and r[j][2] in ("start", "end")) else None)
                seen += 1
        consts[k] = tuple(r) if all(isinstance(x, int) for x in r[1:]) and isinstance(r[0], str) else None
    allb = ctx.body("block::ALL_BLOCKS")
    order = None
    if allb is not None and allb.promoted:
        se = StaticEnv(allb.promoted[0], ctx.f)
        v = se.local_value(0)
        if v[0] == "aggother" and v[1] == "array":
            order = [x[1] if x[0] == "named" else None for x in v[2]]
    return consts, order


@rule("TABLE-BLOCKS", ["C10", "C09"], floor=330)
def table_blocks(ctx):
    """ALL_BLOCKS = the data lines of Blocks.txt followed by CompatBlocks.txt (name, start, end), same order,
    and no Block constant exists outside ALL_BLOCKS."""
    consts, order = block_consts(ctx)
    if order is None:
        return [missing("block::ALL_BLOCKS array of Block constants")]
    src = os.path.join(ctx.repo, "regexml-ucd-blocks", "src")
    try:
        want = parse_blocks_txt(os.path.join(src, "Blocks.txt")) + parse_blocks_txt(os.path.join(src, "CompatBlocks.txt"))
    except OSError as e:
        return [missing("Blocks.txt / CompatBlocks.txt: %s" % e)]
    out = []
    b = ctx.f.body("block::ALL_BLOCKS")
    for i, w in enumerate(want):
        key = "block|%s" % w[0]
        if i >= len(order):
            out.append(bad(key, "block %r (%X..%X) of the shipped list is missing from ALL_BLOCKS" % w, b.loc()))
            continue
        c = order[i]
        got = consts.get(c) if c else None
        if got is None:
            out.append(bad(key, "entry %d of ALL_BLOCKS (%s) is not a Block constant with literal fields" % (i, c), b.loc()))
        elif tuple(got) != tuple(w):
            cb = ctx.f.body(c)
            out.append(bad(key, "entry %d of ALL_BLOCKS is %s = %r %X..%X, the shipped list has %r %X..%X" % (i, c, got[0], got[1], got[2], w[0], w[1], w[2]), cb.loc() if cb else b.loc()))
        else:
            out.append(ok(key))
    if len(order) > len(want):
        out.append(bad("extra-entries", "ALL_BLOCKS has %d entries, the shipped lists have %d" % (len(order), len(want)), b.loc()))
    unused = sorted(set(consts) - set(x for x in order if x))
    if unused:
        out.append(bad("unlisted-const", "Block constants not in ALL_BLOCKS: %s" % unused[:5], b.loc()))
    else:
        out.append(ok("no-unlisted-const"))
    return out


@rule("BLOCK-KEY", ["C10", "C07"], floor=5)
def block_key(ctx):
    """Lookup key = block name with spaces (and at most '_') removed; keys pairwise distinct; block() adds
    start..=end of the looked-up block; an unknown name is rejected with Error::Syntax."""
    out = []
    P = "category::BlockLookup::new"
    b = ctx.body(P)
    if b is None:
        return [missing(P)]
    se = ctx.senv(b)
    sites = call_sites(b, lambda r: r.endswith("::replace") and "str" in r)
    collected = None
    if not sites:
        # `ALL_BLOCKS.iter().map(|block| (key, block)).collect()`: the pair is made in the closure, the table is
        # everything the closure yields, in order (a later pair of the same key replaces an earlier one, as with
        # insert) - nothing may stand between the walk and collect
        rets = set(strip_ver(render(w.ret)) for w in ctx.walk(b).paths)
        m = re.match(r"^BlockLookup::BlockLookup\{blocks: Iterator::collect\(Iterator::map\((?:iter\()?ALL_BLOCKS\)?, closure (BlockLookup::new::\{closure#\d+\})\[\]\)\)\}$", next(iter(rets))) if len(rets) == 1 else None
        cb = ctx.body("category::" + m.group(1)) if m else None
        if cb is not None:
            crow = [summarize(w) for w in ctx.walk(cb).paths]
            csites = call_sites(cb, lambda r: r.endswith("::replace") and "str" in r)
            if len(crow) == 1 and not crow[0][0] and len(csites) == 1:
                collected = (cb, strip_ver(crow[0][1]))
                b_main, b, se, sites = b, cb, ctx.senv(cb), csites
    if len(sites) != 1:
        out.append(bad("strip-call", "BlockLookup::new must derive the key by one str::replace; found %d" % len(sites), b.loc()))
    else:
        bb, t, r = sites[0]
        args = [se.operand(a) for a in t["args"]]
        pat = args[1]
        chars = None
        if pat[0] == "aggother" and pat[1] == "array":
            chars = sorted(x[2] for x in pat[2] if x[0] == "const")
        elif pat[0] == "const" and pat[1] == "char":
            chars = [pat[2]]
        elif pat[0] == "const" and pat[1] == "str":
            chars = None
        repl = args[2]
        okset = chars is not None and 32 in chars and set(chars) <= {32, 95}
        if okset and repl == ("const", "str", "") and "name" in show(args[0]):
            out.append(ok("strip-set"))
        else:
            out.append(bad("strip-set", "the lookup key must be block.name with ' ' (and at most '_') removed; found replace(%s, %s, %s)" % (show(args[0]), show(pat), show(repl)), b.loc(bb)))
        # the inserted key is the result of that replace and the value the same block
        ins = call_sites(b, lambda r: "HashMap" in r and r.endswith("::insert"))
        pushes = [s for s in call_sites(b, lambda r: r.endswith("::push") and "Vec" in r) if show(se.operand(s[1]["args"][1])).startswith("(")]
        if collected is not None:
            pair = re.match(r"^\((replace\(.*\)), (a\d)\)$", collected[1])
            if pair and show(args[0]).startswith(pair.group(2) + "."):
                out.append(ok("insert-pair"))
            else:
                out.append(bad("insert-pair", "the closure must pair the stripped name of a block with that block; found %s" % collected[1][:120], b.loc()))
        elif not ins and len(pushes) == 1:
            # the table kept as a vector of (key, block) pairs, sorted by key and searched by bisection
            pa = se.operand(pushes[0][1]["args"][1])
            items = pa[1] if pa[0] == "tuple" else ()
            sorts = call_sites(b, lambda r: re.search(r"::(sort|sort_by|sort_unstable|sort_unstable_by|sort_by_key|sort_unstable_by_key|sort_by_cached_key)$", r) is not None)
            pair_ok = len(items) == 2 and "replace(" in show(items[0]) and show(args[0]).startswith(show(items[1]))
            if pair_ok and len(sorts) >= 1:
                out.append(ok("insert-pair"))
            else:
                out.append(bad("insert-pair", "the (key, block) pairs must pair the stripped name of a block with that block, and the vector must be sorted before it is searched; pushes %s, sorts %d" % (show(pa)[:120], len(sorts)), b.loc(pushes[0][0])))
        elif len(ins) == 1:
            ia = [se.operand(a) for a in ins[0][1]["args"]]
            if "replace(" in show(ia[1]) and show(args[0]).startswith(show(ia[2])):
                out.append(ok("insert-pair"))
            else:
                out.append(bad("insert-pair", "insert(key, block) must pair the stripped name of a block with that block; found insert(%s, %s)" % (show(ia[1]), show(ia[2])), b.loc(ins[0][0])))
        else:
            out.append(bad("insert-pair", "expected exactly one HashMap::insert in BlockLookup::new", b.loc()))
        # the loop ranges over ALL_BLOCKS
        if collected is not None or any("ALL_BLOCKS" in show(se.operand(a)) for bb2, t2 in b.calls() for a in t2["args"]):
            out.append(ok("iterates-all-blocks"))
        else:
            out.append(bad("iterates-all-blocks", "BlockLookup::new must iterate block::ALL_BLOCKS", b.loc()))
    # key collisions
    consts, order = block_consts(ctx)
    if order:
        keys = {}
        for c in order:
            if c and consts.get(c):
                k = consts[c][0].replace(" ", "").replace("_", "")
                keys.setdefault(k, []).append(c)
        dup = {k: v for k, v in keys.items() if len(set(consts[x] for x in v)) > 1}
        if dup:
            out.append(bad("key-collision", "block lookup keys collide (a block is silently dropped): %s" % dup, _loc(ctx, "block::ALL_BLOCKS")))
        else:
            out.append(ok("keys-distinct"))
    # lookup
    Pl = "category::BlockLookup::lookup"
    lb = ctx.body(Pl)
    if lb is None:
        out.append(missing(Pl))
    else:
        w = ctx.walk(lb)
        rs = {}
        for p in w.paths:
            g = [(render(a), o) for a, o in p.guards]
            rs[str(g)] = render(p.ret)
        exp_ok = "Result::Ok{0: HashMap::get(a1.blocks, a2) as Some.0}"
        vals = sorted(rs.values())
        LOOKUP = r"BlockLookup::lookup\((?:block_lookup\(\)|BlockLookup::new\(\)|BlockLookup::global\(\)), a1\)"
        if len(vals) == 2 and exp_ok in vals and any(v.startswith("Result::Err{0: Error::syntax(") for v in vals):
            out.append(ok("lookup"))
        elif vals == ["HashMap::get(a1.blocks, a2)"] and _none_becomes_syntax(ctx, "category::block", LOOKUP):
            out.append(ok("lookup"))  # the lookup answers Option, block() words the rejection
        elif _bisect_lookup(ctx, lb, w):
            out.append(ok("lookup"))  # bisection of the sorted (key, block) vector on the key
        else:
            out.append(bad("lookup", "lookup must return the block stored under the given name or Error::Syntax; found %s" % vals, lb.loc()))
    return out


@rule("TABLE-BLOCK-USE", ["C10", "C09"], floor=3)
def table_block_use(ctx):
    """block(name): 'PrivateUse' adds exactly the three XSD compatibility ranges; any other name adds
    start..=end (inclusive) of the block found by the lookup; lookup failure is propagated."""
    P = "category::block"
    b = ctx.body(P)
    if b is None:
        return [missing(P)]
    out = []
    w = ctx.walk(b)
    pu = oracle("xsd_regex.json")["private_use_compat"]
    seen = set()
    for p in w.paths:
        g = {render(a): o for a, o in p.guards}
        is_pu = g.get('eq(a1, "PrivateUse")')
        if is_pu is None:
            out.append(bad("shape", "block() no longer tests the name against \"PrivateUse\" on path %s" % p.describe()[:200], b.loc()))
            continue
        it = SX.SetInterp(ctx, b).run(p.blocks)
        retlocal = _ret_builder(ctx, b, p, it)
        if is_pu:
            seen.add("pu")
            exp = SX.lit(pu)
            if retlocal == exp and not it.unknown:
                out.append(ok("PrivateUse"))
            else:
                out.append(bad("PrivateUse", "\\p{IsPrivateUse} must be %s; found %s %s" % (SX.fmt(exp), SX.fmt(retlocal) if retlocal else retlocal, it.unknown), b.loc()))
        else:
            r = render(p.ret)
            LK = r"BlockLookup::lookup\((?:block_lookup\(\)|BlockLookup::new\(\)|BlockLookup::global\(\)), a1\)"
            none_here = any(re.match(r"^variant\(%s\)$" % LK, strip_ver(a)) and o == ("variant", "None") for a, o in [(render(a_), o_) for a_, o_ in p.guards])
            if r.startswith("propagate(") or (none_here and strip_ver(r).startswith("Result::Err{0: Error::syntax(")):
                seen.add("err")
                out.append(ok("lookup-error-propagated"))
                continue
            seen.add("blk")
            got = retlocal[1] if retlocal is not None and retlocal[0] == "sym" else ""
            mm = re.match(r"^\[(.*)\.start\.\.=(.*)\.end\]$", got)
            blk_ok = bool(mm) and mm.group(1) == mm.group(2) and re.match(r"^(?:try\(%s\) as Continue\.0|%s as Some\.0|try\(Option::ok_or(?:_else)?\(%s, closure [^()]*\)\) as Continue\.0)$" % (LK, LK, LK), mm.group(1)) is not None
            if blk_ok and not it.unknown:
                out.append(ok("block-range"))
            else:
                out.append(bad("block-range", "\\p{IsB} must add exactly B.start..=B.end of the looked-up block; found %s %s" % (SX.fmt(retlocal) if retlocal else retlocal, [m for _, m in it.unknown]), b.loc()))
    for k in ("pu", "err", "blk"):
        if k not in seen:
            out.append(bad("missing-path|" + k, "block() lost its %s path" % k, b.loc()))
    return out


def _ret_builder(ctx, body, p, it):
    """the set held by the builder wrapped in the Ok(..) returned on this path."""
    # find the aggregate Result::Ok assigned to _0 on the path
    for bb in reversed(p.blocks):
        for st in reversed(body.blocks[bb]["stmts"]):
            if st["k"] == "assign" and st["place"]["l"] == 0 and not st["place"]["p"] and st["rv"]["k"] == "agg" and st["rv"].get("variant") == "Ok":
                f = st["rv"]["fields"][0]
                rl = it.root_local(f)
                return it.sets.get(rl)
    return None


# ------------------------------------------------------------------ C10: name chars, \d \w


@rule("TABLE-NAMECHAR", ["C10"], floor=2)
def table_namechar(ctx):
    """name_start_char() = XML NameStartChar, name_char() = XML NameChar (interval lists, normalised)."""
    o = oracle("xml_names.json")
    out = []
    for fn, exp in (("category::name_start_char", SX.lit(o["NameStartChar"])), ("category::name_char", SX.lit(o["NameStartChar"] + o["NameCharExtra"]))):
        r = SX.eval_fn(ctx, fn)
        if r is None:
            out.append(missing(fn + " (not straight-line any more)"))
        elif r == exp:
            out.append(ok(fn))
        else:
            only_code = SX.fmt(SX.lit_diff(r, exp)) if r[0] == "lit" else SX.fmt(r)
            only_spec = SX.fmt(SX.lit_diff(exp, r)) if r[0] == "lit" else ""
            out.append(bad(fn, "%s differs from the XML production: only in code %s, only in XML %s" % (fn, only_code, only_spec), _loc(ctx, fn)))
    return out


@rule("TABLE-DW", ["C10"], floor=2)
def table_dw(ctx):
    """\\d = Nd ; \\w = everything outside P, Z and C."""
    out = []
    r = SX.eval_fn(ctx, "category::decimal_number")
    if r == ("sym", "GCV(GeneralCategory::DecimalNumber)") or r == ("sym", "GC(GeneralCategoryGroup::DecimalNumber)"):
        out.append(ok("decimal_number"))
    else:
        out.append(bad("decimal_number", "\\d must be General_Category Nd; found %s" % (SX.fmt(r) if r else r), _loc(ctx, "category::decimal_number")))
    r = SX.eval_fn(ctx, "category::word_char")
    exp = SX.diff(SX.ALL, SX.union(("sym", "GC(GeneralCategoryGroup::Punctuation)"), ("sym", "GC(GeneralCategoryGroup::Separator)"), ("sym", "GC(GeneralCategoryGroup::Other)")))
    if r == exp:
        out.append(ok("word_char"))
    else:
        out.append(bad("word_char", "\\w must be all code points minus P, Z and C; found %s" % (SX.fmt(r) if r else r), _loc(ctx, "category::word_char")))
    return out


# ------------------------------------------------------------------ escape table (C07, C09, C10)

ESCAPE = "re_compiler::ReCompiler::escape"
ESC_CH = "a1.pattern[add(1, a1.idx)]"
ESC_CH2 = "a1.pattern[sub(add(a1.idx, 2), 1)]"


def escape_arms(ctx):
    """{char or 'default': [(guards, path, interp)]} for ReCompiler::escape."""

    def build():
        b = ctx.body(ESCAPE)
        if b is None:
            return None
        w = ctx.walk(b)
        arms = {}
        for p in w.paths:
            ch = None
            for a, o in p.guards:
                s = render(a)
                if isinstance(o, tuple) and o[0] == "char" and s in (ESC_CH, ESC_CH2):
                    ch = chr(o[1])
                elif isinstance(o, tuple) and o[0] == "other" and s in (ESC_CH, ESC_CH2):
                    ch = "default"
            # a range pattern ('1'..='9') is tested by comparisons, not by a switch: the path belongs to every
            # character of the (small) range the comparisons confine the escape character to
            lo, hi = None, None
            for a, o in p.guards:
                if isinstance(a, tuple) and a[0] == "lt" and o in (True, False):
                    l_, r_ = a[1], a[2]
                    ls, rs_ = render(l_), render(r_)
                    cv = lambda x: x[2] if (isinstance(x, tuple) and x[0] == "const" and x[1] in ("char", "int") and isinstance(x[2], int)) else None
                    if ls in (ESC_CH, ESC_CH2) and cv(r_) is not None:      # c < K  /  !(c < K)
                        if o:
                            hi = cv(r_) - 1 if hi is None else min(hi, cv(r_) - 1)
                        else:
                            lo = cv(r_) if lo is None else max(lo, cv(r_))
                    elif rs_ in (ESC_CH, ESC_CH2) and cv(l_) is not None:   # K < c  /  !(K < c)
                        if o:
                            lo = cv(l_) + 1 if lo is None else max(lo, cv(l_) + 1)
                        else:
                            hi = cv(l_) if hi is None else min(hi, cv(l_))
            if ch in (None, "default") and lo is not None and hi is not None and 0 <= hi - lo < 64:
                for cp in range(lo, hi + 1):
                    arms.setdefault(chr(cp), []).append(p)
                continue
            arms.setdefault(ch, []).append(p)
        return b, arms, w

    return ctx.cached("escape_arms", build)


def set_of_tree(ctx, e):
    """Set denoted by a builder-valued expression tree (None when not understood)."""
    from ..sym import SHORT2FULL

    if e[0] == "conv":
        return set_of_tree(ctx, e[2])
    if e[0] == "agg" and e[1].endswith("CharacterClassBuilder"):
        if e[2] == "Char":
            return ("char", e[4][0])
        return set_of_tree(ctx, e[4][0])
    if e[0] == "call":
        name = e[1]
        if name == "CharacterClassBuilder::complement":
            x = set_of_tree(ctx, e[2][0])
            if x is None or x[0] == "char":
                return None if x is None else ("sym", "compl-of-char")
            return SX.compl(x)
        if name == "CharacterClassBuilder::from_char":
            return ("char", e[2][0])
        if name == "CharacterClassBuilder::from_str":
            a = e[2][0]
            if a[0] == "const" and a[1] == "str":
                return SX.lit([(ord(c), ord(c)) for c in a[2]])
            return None
        full = SHORT2FULL.get(name)
        if full and ctx.f.body(full) is not None and not e[2]:
            return SX.eval_fn(ctx, full)
    return None


def _arm_outcome(ctx, b, p):
    """('char', cp|'same') | ('set', setexpr) | ('err', which) | ('backref',) | ('other', text)"""
    if p.end != "return":
        return ("other", "<%s>" % p.end)
    e = p.ret
    r = render(e)
    if e[0] == "propagate":
        return ("err", "propagated")
    if e[0] == "agg" and e[2] == "Err":
        if r.startswith("Result::Err{0: Error::syntax("):
            return ("err", "Syntax")
        return ("err", r[:60])
    if e[0] == "agg" and e[2] == "Ok":
        v = e[4][0]
        if v[0] == "agg" and v[2] == "BackReference":
            return ("backref",)
        s = set_of_tree(ctx, v)
        if s is None:
            return ("other", r[:200])
        if s[0] == "char":
            c = s[1]
            if render(c) in (ESC_CH, ESC_CH2):
                return ("char", "same")
            if c[0] == "const" and c[1] == "char":
                return ("char", c[2])
            return ("other", r[:200])
        return ("set", s)
    return ("other", r[:200])


def expected_escape_sets():
    o = oracle("xsd_regex.json")
    xn = oracle("xml_names.json")
    S = SX.lit([(c, c) for c in o["escape_s"]])
    I = SX.lit(xn["NameStartChar"])
    C = SX.lit(xn["NameStartChar"] + xn["NameCharExtra"])
    D = ("sym", "GCV(GeneralCategory::DecimalNumber)")
    W = SX.diff(SX.ALL, SX.union(("sym", "GC(GeneralCategoryGroup::Punctuation)"), ("sym", "GC(GeneralCategoryGroup::Separator)"), ("sym", "GC(GeneralCategoryGroup::Other)")))
    return {"s": S, "S": SX.compl(S), "i": I, "I": SX.compl(I), "c": C, "C": SX.compl(C), "d": D, "D": SX.compl(D), "w": W, "W": SX.compl(W)}


@rule("ESC-TABLE", ["C07", "C09", "C10", "C17"], floor=39)
def esc_table(ctx):
    """ReCompiler::escape maps exactly the grammar's escapes: n r t -> the control char; the 14 self escapes ->
    themselves; $ -> itself (XPath) / error (XSD); s S i I c C d D w W -> the prescribed sets (upper case =
    complement); 0 -> error; any other letter -> Error::Syntax."""
    ea = escape_arms(ctx)
    if ea is None:
        return [missing(ESCAPE)]
    b, arms, w = ea
    o = oracle("xsd_regex.json")
    out = []
    if None in arms and any(p.end == "return" and render(p.ret).startswith("Result::Ok") for p in arms[None]):
        out.append(bad("ok-without-dispatch", "escape() returns Ok on a path that never dispatches on the escaped character", b.loc()))
    sce = dict(o["single_char_escapes"])
    exp_sets = expected_escape_sets()
    for ch, cp in sorted(sce.items()):
        ps = arms.get(ch, [])
        outs = {_arm_outcome(ctx, b, p) for p in ps}
        want = {("char", cp)} if ch in "nrt" else {("char", "same"), ("char", cp)}
        if outs and outs <= want:
            out.append(ok("single|%s" % ch))
        else:
            out.append(bad("single|%s" % ch, "\\%s must denote U+%04X; escape() yields %s" % (ch, cp, sorted(map(str, outs))), b.loc()))
    for ch, s in sorted(exp_sets.items()):
        ps = arms.get(ch, [])
        outs = {_arm_outcome(ctx, b, p) for p in ps}
        if outs == {("set", s)}:
            out.append(ok("multi|%s" % ch))
        else:
            out.append(bad("multi|%s" % ch, "\\%s must denote %s; escape() yields %s" % (ch, SX.fmt(s), sorted(SX.fmt(x[1]) if x[0] == "set" else str(x) for x in outs)), b.loc()))
    # '$'
    ps = arms.get("$", [])
    ok_dollar = True
    seen_lang = set()
    for p in ps:
        oc = _arm_outcome(ctx, b, p)
        lang = None
        for a, ov in p.guards:
            if "ReFlags::language(a1.re_flags)" in render(a) and isinstance(ov, tuple) and ov[0] == "variant":
                lang = ov[1]
        seen_lang.add(lang)
        if lang == "XPath" and oc not in (("char", 36), ("char", "same")):
            ok_dollar = False
        if lang == "XSD" and oc != ("err", "Syntax"):
            ok_dollar = False
        if lang is None:
            ok_dollar = False
    if ok_dollar and seen_lang == {"XPath", "XSD"}:
        out.append(ok("single|$"))
    else:
        out.append(bad("single|$", "\\$ must denote '$' in XPath and be rejected in XSD; found %s" % [(_arm_outcome(ctx, b, p)) for p in ps], b.loc()))
    # '0'
    outs = {_arm_outcome(ctx, b, p) for p in arms.get("0", [])}
    if outs == {("err", "Syntax")}:
        out.append(ok("octal-rejected"))
    else:
        out.append(bad("octal-rejected", "\\0 must be rejected with Error::Syntax; found %s" % sorted(map(str, outs)), b.loc()))
    # digits 1-9: every Ok is a BackReference
    for dgt in "123456789":
        outs = {_arm_outcome(ctx, b, p) for p in arms.get(dgt, []) if p.end == "return"}
        if outs and outs <= {("backref",), ("err", "Syntax")} and ("backref",) in outs:
            out.append(ok("digit|%s" % dgt))
        else:
            out.append(bad("digit|%s" % dgt, "\\%s must be a back-reference or Error::Syntax; found %s" % (dgt, sorted(map(str, outs))), b.loc()))
    # p / P handled by ESC-CATEGORY; default
    outs = {_arm_outcome(ctx, b, p) for p in arms.get("default", [])}
    if outs == {("err", "Syntax")}:
        out.append(ok("default-rejects"))
    else:
        out.append(bad("default-rejects", "an unknown escape letter must be rejected with Error::Syntax; found %s" % sorted(map(str, outs)), b.loc()))
    known = set(sce) | set(exp_sets) | {"$", "0", "p", "P", "default", None} | set("123456789")
    for ch in sorted(k for k in arms if k not in known):
        outs = {_arm_outcome(ctx, b, p) for p in arms[ch]}
        if outs - {("err", "Syntax")}:
            out.append(bad("extra|%s" % ch, "escape \\%s is accepted (%s) but is not an XSD/XPath escape" % (ch, sorted(map(str, outs))), b.loc()))
    return out


@rule("ESC-CATEGORY", ["C10", "C09", "C07"], floor=9)
def esc_category(ctx):
    """\\p{X}: names of length 1-2 -> category_group(X); 'Is'+B -> block(B); anything else -> Error::Syntax;
    \\P{..} is the complement of \\p{..} (one complement() on the not-'p' side); missing '{' or '}' -> Error::Syntax."""
    ea = escape_arms(ctx)
    if ea is None:
        return [missing(ESCAPE)]
    b, arms, w = ea
    out = []
    pp = arms.get("p", [])
    PP = arms.get("P", [])
    if not pp or not PP:
        return [bad("arms", "escape() has no 'p'/'P' arm", b.loc())]
    if {id(x) for x in pp} != {id(x) for x in PP}:
        # same blocks must serve p and P (a shared arm), otherwise compare outcome multisets
        pass
    cat_ok = blk_ok = 0
    compl_ok = True
    kinds = set()
    for p, is_p in [(x, True) for x in pp] + [(x, False) for x in PP]:
        r = render(p.ret) if p.end == "return" else "<%s>" % p.end
        calls = [c[1] for c in p.effects if c[0] == "call"]
        if r.startswith("Result::Ok"):
            has_c = any(c.endswith("CharacterClassBuilder::complement") for c in calls)
            src = "category" if "category_group" in calls else "block" if "block" in calls else "?"
            kinds.add(src)
            if src == "?":
                out.append(bad("source", "\\p{..} returns Ok without consulting category_group or block: %s" % r[:200], b.loc(p.blocks[-1])))
            if is_p is None:
                compl_ok = False
            elif is_p and has_c:
                compl_ok = False
            elif (not is_p) and not has_c:
                compl_ok = False
    if kinds >= {"category", "block"}:
        out.append(ok("category-source"))
        out.append(ok("block-source"))
    else:
        out.append(bad("sources", "\\p{..} must reach both category_group (1-2 letters) and block ('Is' prefix); found %s" % sorted(kinds), b.loc()))
    if compl_ok:
        out.append(ok("P-is-complement-of-p"))
    else:
        out.append(bad("P-is-complement-of-p", "every Ok of \\P{..} must apply exactly one complement() that \\p{..} does not", b.loc()))
    # what \\p{..} hands back is a *class* term, never the single-character term: parse_character_class takes a Char
    # term for a possible range end point ('[!-\\p{Zl}]' would become a range, '[\\p{Zl}-z]' an error) and
    # parse_terminal sends a Char back to parse_atom.  Two sites establish it: the value is built as the inversion-list
    # variant (here or in the function it comes from), and the From conversion never picks the Char variant.
    VAR = "CharacterClassBuilder::CodePointInversionListBuilder{"
    fb = [x for x in ctx.f.bodies if x.path.startswith("<character_class::CharacterClassBuilder as std::convert::From<") and "CodePointInversionListBuilder" in x.path]
    conv_ok = True
    for x in fb:
        rets = [strip_ver(render(w_.ret)) for w_ in ctx.walk(x).paths if w_.end == "return"]
        if rets and all(r_.startswith(VAR) for r_ in rets):
            out.append(ok("from-builder-is-class"))
        else:
            conv_ok = False
            out.append(bad("from-builder-is-class", "From<CodePointInversionListBuilder> for CharacterClassBuilder must yield the inversion-list variant on every path (a Char term is a range end point to parse_character_class); returns %s" % sorted({r_[:60] for r_ in rets}), x.loc()))

    def _classy(r_, depth=0):
        r_ = strip_ver(r_)
        while True:
            m_ = re.match(r"^conv<[^(]*>\((.*)\)$", r_)
            if m_:
                if not conv_ok:
                    return False
                r_ = m_.group(1)
                if not r_.startswith("CharacterClassBuilder::") and not r_.startswith("try("):
                    return True      # conversion from the plain builder: decided by from-builder-is-class
                continue
            m_ = re.match(r"^CharacterClassBuilder::complement\((.*)\)$", r_)
            if m_:
                r_ = m_.group(1)
                continue
            break
        if r_.startswith(VAR):
            return True
        m_ = re.match(r"^try\(((?:\w+::)*)(\w+)\(", r_)
        if m_ and depth < 3:
            cands = [x for x in ctx.f.bodies if x.kind != "Closure" and x.path.split("::")[-1] == m_.group(2) and "CharacterClassBuilder" in strip_lt(x.locals[0]["ty"])]
            if len(cands) != 1:
                return False
            rs = []
            for w_ in ctx.walk(cands[0]).paths:
                q = strip_ver(render(w_.ret))
                if w_.end != "return" or q.startswith("propagate(") or q.startswith("Result::Err{"):
                    continue
                mm = re.match(r"^Result::Ok\{0: (.*)\}$", q)
                rs.append(mm.group(1) if mm else q)
            return bool(rs) and all(_classy(q, depth + 1) for q in rs)
        return False
    for nm, lst in (("p", pp), ("P", PP)):
        vals = []
        for p in lst:
            r = render(p.ret) if p.end == "return" else ""
            m_ = re.match(r"^Result::Ok\{0: (.*)\}$", strip_ver(r))
            if m_:
                vals.append(m_.group(1))
        if vals and all(_classy(v_) for v_ in vals):
            out.append(ok("yields-class|" + nm))
        else:
            worst = [v_ for v_ in vals if not _classy(v_)]
            out.append(bad("yields-class|" + nm, "\\%s{..} must hand back a class term (inversion-list variant) on every Ok path, never a term that can be CharacterClassBuilder::Char; found %s" % (nm, (worst or ["<no Ok path>"])[0][:120]), b.loc()))
    # argument provenance: category_group(name) where name = pattern[idx..close] (len 1|2), block(name[2..])
    se = ctx.senv(b)
    for bb, t, r in call_sites(b, lambda r: r == "category::category_group"):
        g = _guards(ctx, b, bb)
        from ..dom import or_guarded
        if or_guarded(b, bb, lambda s, o: o is True and (re.match(r"^eq\((1|2), len\(", s) is not None or re.match(r"^eq\(len\(.*\), (1|2)\)$", s) is not None), ctx.senv(b)):
            out.append(ok("category-len-guard"))
        else:
            out.append(bad("category-len-guard", "category_group must be reached only for names of length 1 or 2; dominating guards: %s" % sorted(g)[:6], b.loc(bb)))
    for bb, t, r in call_sites(b, lambda r: r == "category::block"):
        g = _guards(ctx, b, bb)
        if any("starts_with" in x and not x.startswith("!") for x in g):
            a = show(se.operand(t["args"][0]))
            if "RangeFrom{start: 2}" in a:
                out.append(ok("block-prefix"))
            else:
                out.append(bad("block-prefix", "block() must receive the name after the 2-character 'Is' prefix; receives %s" % a[:200], b.loc(bb)))
        elif any(re.search(r"\]\[0\]='I'$", x) for x in g) and any(re.search(r"\]\[1\]='s'$", x) for x in g):
            # the same test written as a slice pattern ['I', 's', name @ ..]: the first two characters compared, the
            # rest (the sub-slice from 2) handed on
            a = show(se.operand(t["args"][0]))
            if "'sub_from': 2" in a and "'sub_to': 0" in a:
                out.append(ok("block-prefix"))
                out.append(ok("is-prefix-literal"))
            else:
                out.append(bad("block-prefix", "block() must receive the name after the 2-character 'Is' prefix; receives %s" % a[-200:], b.loc(bb)))
        else:
            out.append(bad("block-prefix", "block() must be reached only under starts_with(['I','s'])", b.loc(bb)))
    # starts_with argument is ['I','s']
    for bb, t, r in call_sites(b, lambda r: "starts_with" in r):
        a = se.operand(t["args"][1])
        s = show(a)
        if s == "array['I', 's']":
            out.append(ok("is-prefix-literal"))
        else:
            out.append(bad("is-prefix-literal", "block names must be introduced by the literal prefix 'Is'; found %s" % s, b.loc(bb)))
    # error exits
    errs = len({render(p.ret) for p in pp if p.end == "return" and _arm_outcome(ctx, b, p)[0] == "err"})
    if errs >= 5:
        out.append(ok("p-error-exits"))
    else:
        out.append(bad("p-error-exits", "\\p must reject: end of pattern, missing '{', missing '}', unknown name (>=5 distinct error exits incl. propagated lookup errors); found %d" % errs, b.loc()))
    return out


def _guards(ctx, b, bb):
    from ..dom import guard_strings

    return guard_strings(b, bb, ctx.senv(b))


def _len12(g):
    return False


@rule("CLASS-RANGE-INCLUSIVE", ["C09", "C10"], floor=23)
def class_range_inclusive(ctx):
    """Every add_range/add_range32 argument in the crate is an inclusive range."""
    out = []
    for b in ctx.f.bodies:
        if b.from_expansion:
            continue
        for bb, t, r in call_sites(b, lambda r: r.startswith(SX.CPB) and r.split("::")[-1] in ("add_range", "add_range32", "remove_range", "remove_range32")):
            ctx.body(b.path)
            d, rr, fn = callee(t)
            targs = " ".join(fn.get("targs", []))
            site = "%s|%s" % (b.path, show(ctx.senv(b).operand(t["args"][1]))[:80])
            if "RangeInclusive" in targs:
                out.append(ok(site))
            else:
                out.append(bad(site, "%s is called with a non-inclusive range type (%s): the upper bound is lost" % (rr.split("::")[-1], targs), b.loc(bb)))
    return out
