"""Search loop, iterator exhaustion and order, progress guards, loop variants, recursion: C01, C02, C06, C03."""
import re
from ..engine import rule, ok, bad, missing
from ..table import render, summarize, strip_ver
from ..sym import show, StaticEnv, subexprs
from ..facts import callee, strip_lt
from ..dom import call_sites, guard_strings, switch_outcomes
from ..callgraph import API_ROOTS

OC = "operation::OperationControl"
MATCHES = "re_matcher::ReMatcher::matches"


def _sh(s):
    return s.replace("<Operation as OperationControl>::", "").replace("ReMatcher::", "").replace("ReFlags::", "")


def _calls(p, name=None):
    return [(_sh(e[1]), [strip_ver(_sh(render(x))) for x in e[2]], e[3]) for e in p.effects if e[0] == "call" and (name is None or e[1] == name or e[1].endswith(name))]


from ..engine import rec as _rec, emit as _emit, checked  # noqa: E402




# ------------------------------------------------------------------ search loop


@rule("SEARCH-COVER", ["C01", "C02", "C08", "C12", "C13", "C20", "C09", "C10", "C11", "C16"], floor=8)
def search_cover(ctx):
    """ReMatcher::matches: each of the three scan loops tries match_at at every position of an ascending
    Range that starts at the given start and ends at len+1 (no shortcut), len+1-prefix.len() (prefix) or len
    (initial class); the answer is true iff some match_at is; the minimum-length cut compares the remaining length
    with program.minimum_length; with a leading '^' and no flag m only position 0 is tried."""
    b = ctx.body(MATCHES)
    if b is None:
        return [missing(MATCHES)]
    d = {}
    LEN = "len(a1.search)"
    want_end = {"none": "add(1, %s)" % LEN, "prefix": "sub(add(1, %s), len(a1.program.prefix as Some.0))" % LEN, "class": LEN}
    seen = set()
    from ..lockstep import first_turn
    for p in ctx.walk(b).paths:
        # each scan loop is met in its first turn, with the start position the first element its iterator yields
        # (a range of indices and an enumerate/skip chain over the input read alike)
        gs, r = summarize(first_turn(p))
        gs = [_sh(strip_ver(g)) for g in gs]
        r = _sh(strip_ver(r))
        loc = b.loc(p.blocks[-1])
        hasbol = "eq(bitand(2, a1.program.optimization_flags), 2)" in gs
        if hasbol:
            if "!is_multi_line(a1.program.flags)" in gs:
                seen.add("bol")
                if "!eq(a2, 0)" in gs:
                    _rec(d, "bol|not-at-0", r == "false", "leading '^' without flag m: a start other than 0 must answer false", loc)
                elif "eq(a2, 0)" in gs and "check_preconditions(a1, a2)" in gs:
                    _rec(d, "bol|at-0", r == "match_at(a1, a2, false)", "leading '^' without flag m: must try exactly position 0; found %s" % r[:80], loc)
            continue
        if "lt(sub(%s, a2), a1.program.minimum_length)" % LEN in gs:
            seen.add("minlen")
            _rec(d, "minlen-cut", r == "false", "minimum-length cut", loc)
            continue
        if "!lt(sub(%s, a2), a1.program.minimum_length)" % LEN not in gs:
            _rec(d, "minlen-test", False, "the scan is entered without the test remaining length >= program.minimum_length (guards %s)" % gs[:3], loc)
            continue
        kind = "prefix" if "variant(a1.program.prefix)=Some" in gs else "class" if "variant(a1.program.initial_char_class)=Some" in gs else "none"
        rng = [g for g in gs if g.startswith("variant(next(<")]
        if kind == "none" and "!check_preconditions(a1, a2)" in gs:
            _rec(d, "precondition-fail", r == "false", "failed preconditions must answer false", loc)
            continue
        if not rng:
            _rec(d, "loop|" + kind, False, "the %s scan is not an iteration over a Range of start positions" % kind, loc)
            continue
        m = re.match(r"^variant\(next\(<(.*?)\.\.(.*)>\)\)=(Some|None)$", rng[0])
        seen.add(kind)
        _rec(d, "range|" + kind, m is not None and m.group(1) == "a2" and m.group(2) == want_end[kind], "the %s scan must range over start..%s; found %s" % (kind, want_end[kind], rng[0][13:120]), loc)
        if m and m.group(3) == "None":
            _rec(d, "exhausted|" + kind, r == "false", "exhausting the start positions must answer false", loc)
            continue
        J = "a2"  # the position tried in the first turn is the first of the range
        ma = [g for g in gs if g.lstrip("!").startswith("match_at(")]
        for g in ma:
            _rec(d, "match_at-arg|" + kind, g.lstrip("!") == "match_at(a1, %s, false)" % J, "match_at must be tried at the iterated position itself; found %s" % g[:120], loc)
        if ma and not ma[-1].startswith("!"):
            _rec(d, "true-on-match|" + kind, r == "true", "a successful match_at must answer true", loc)
        if p.end == "return" and r == "true":
            # ... and nothing else does: match_at is what runs the program, counts the groups and records the span
            _rec(d, "true-only-from-match_at|" + kind, bool(ma) and not ma[-1].startswith("!"), "matches() answers true on a path on which match_at did not succeed (guards %s): a shortcut beside the program leaves the group count and the captures as they were" % gs[-3:], loc)
        if ma and ma[-1].startswith("!"):
            _rec(d, "continue-on-failure|" + kind, p.end.startswith("loop"), "after a failed match_at the scan must go on with the next position; found %s" % (r if p.end == "return" else p.end), loc)
        if kind == "class":
            cg = [g for g in gs if "CharacterClass::contains(" in g]
            _rec(d, "class-filter", bool(cg) and all(g.lstrip("!") == "CharacterClass::contains(a1.program.initial_char_class as Some.0, a1.search[%s])" % J for g in cg), "the first-character filter must test search[j] against program.initial_char_class", loc)
            if cg and cg[-1].startswith("!"):
                _rec(d, "class-skip", p.end.startswith("loop") and not ma, "a position whose character is outside the initial class is skipped (and only skipped)", loc)
    for k in ("none", "prefix", "class", "bol", "minlen"):
        if k not in seen:
            d["missing|" + k] = [False, "ReMatcher::matches lost its %s path" % k, b.loc()]
    # prefix comparison: same comparator as Atom (equal_case_blind under flag i, == otherwise), on search[k+j] vs prefix[k]
    se = ctx.senv(b)
    eqb = call_sites(b, lambda r: r == "re_matcher::ReMatcher::equal_case_blind")
    g_ok = all("ReFlags::is_case_independent(a1.program.flags)" in guard_strings(b, bb, se) for bb, t, r in eqb)
    _rec(d, "prefix-comparator", len(eqb) == 1 and g_ok, "the prefix scan must compare with equal_case_blind exactly under flag i (as Atom does)", b.loc(eqb[0][0]) if eqb else b.loc())
    return _emit(d)


def _strip_conv(e):
    """integer conversions erased (usize <-> isize round trips of a cursor)"""
    if not isinstance(e, tuple):
        return e
    if e and e[0] == "call" and len(e) > 2 and isinstance(e[1], str) and e[1].split("::")[-1] == "unwrap" and len(e[2]) == 1:
        x = e[2][0]
        if isinstance(x, tuple) and x and x[0] == "call" and x[1].split("::")[-1] in ("try_into", "try_from") and len(x[2]) == 1:
            return _strip_conv(x[2][0])
    if e and e[0] == "cast" and len(e) > 2 and isinstance(e[-1], tuple):
        return _strip_conv(e[-1])
    return tuple(_strip_conv(x) if isinstance(x, tuple) else x for x in e)


def _sum_terms(e, cur, ind):
    """a sum as the sorted list of its terms, with the cursor local written CUR and the turn number k"""
    e = _strip_conv(e)
    out = []

    def go(x):
        if isinstance(x, tuple) and x and x[0] == "add" and len(x) == 3:
            go(x[1])
            go(x[2])
        elif isinstance(x, tuple) and x and x[0] in ("var", "uninit", "argvar") and len(x) > 1 and x[1] == cur:
            out.append("CUR")
        elif isinstance(x, tuple) and x and ((x[0] == "named" and x[1] == "k") or (x[0] in ("var", "uninit") and x[1] in ind)):
            out.append("k")
        else:
            out.append(strip_ver(show(x)))
    go(e)
    return sorted(out)


@rule("LINE-SEEK", ["C12", "C01", "C02", "C04", "C08", "C20"], floor=4)
def line_seek(ctx):
    """Multi-line '^' fast path: after trying the given start, every position that follows a U+000A and lies before
    the end of the input is tried, in order, and no other.  Stated over the scan itself, in turn-indexed form
    (rxv/lockstep.py): a loop that walks the input forward from a cursor (however it is spelt: `find` / `position`
    over `iter().enumerate().skip(cursor)` or over the sub-slice from the cursor, a hand-written loop; a signed
    cursor with -1 for "no newline" or an unsigned one with Option); turn k looks at search[cursor + k]; a newline
    there makes NL = cursor + k + 1 the candidate: beyond or at the end of the input the search ends with false,
    otherwise match_at(NL) is tried - true ends it with true, false moves the cursor to NL exactly and the scan goes
    on; running out of input ends it with false."""
    from ..lockstep import Lockstep
    b = ctx.body(MATCHES)
    if b is None:
        return [missing(MATCHES)]
    d = {}
    NLC = ("const", "char", 10)
    SEARCH = ("field", ("arg", 1), "search")
    found = None
    for h in sorted(b.natural_loops()):
        ls = Lockstep(ctx, b, h)
        paths = ls.paths(ctx)
        for p in paths:
            for a, o in p.guards:
                a = _strip_conv(a)
                if isinstance(a, tuple) and a and a[0] == "eq" and NLC in a[1:]:
                    other = [x for x in a[1:] if x != NLC]
                    x = other[0] if other else None
                    while isinstance(x, tuple) and x and x[0] in ("ref", "deref"):
                        x = x[1]
                    if isinstance(x, tuple) and x and x[0] == "index" and x[1] == SEARCH:
                        found = (h, ls, paths, x[2])
                        break
            if found:
                break
        if found:
            break
    if not found:
        return [bad("shape", "no loop of ReMatcher::matches scans the input for U+000A (the multi-line '^' seek was not recognised)", b.loc())]
    h, ls, paths, idx0 = found
    ind = set(getattr(ls, "induction", {}) or {})
    # the cursor: the local in the index cursor + k
    cur = None
    def locals_in(x, acc):
        if isinstance(x, tuple):
            if x and x[0] in ("var", "uninit") and len(x) > 1 and isinstance(x[1], int) and x[1] not in ind:
                acc.append(x[1])
            for y in x:
                locals_in(y, acc)
        return acc
    cands = locals_in(_strip_conv(idx0), [])
    if len(set(cands)) == 1:
        cur = cands[0]
    if cur is None:
        return [bad("shape", "the position looked at by the newline scan is not cursor + turn (%s)" % strip_ver(show(idx0))[:100], b.loc(h))]
    IDX = ["CUR", "k"]
    NL = ["1", "CUR", "k"]
    LEN = ("len", SEARCH)
    for p in paths:
        loc = b.loc(p.blocks[-1])
        gs = [(_strip_conv(a), o) for a, o in p.guards]
        r = strip_ver(render(p.ret)) if p.ret is not None else None
        drv = [a for a, o in gs if a[0] == "variant" and isinstance(a[1], tuple) and a[1][0] == "call" and a[1][1] == "next" and a[1][2] and a[1][2][0][0] == "named"]
        dvo = [o for a, o in gs if a[0] == "variant" and isinstance(a[1], tuple) and a[1][0] == "call" and a[1][1] == "next" and a[1][2] and a[1][2][0][0] == "named"]
        if not drv:
            _rec(d, "skip-from-line-start", False, "a turn of the newline scan does not begin with its iterator's next()", loc)
            continue
        seq = drv[0][1][2][0][1]
        seqn = re.sub(r"Result::unwrap\(<T as TryInto<U>>::try_into\(([^()]*)\)\)", r"\1", seq)
        okd = re.match(r"^<0\.\.len\(a1\.search\) skip (?:v|uninit\()%d\)?>$" % cur, seqn) is not None or re.match(r"^<a1\.search\[(?:v|uninit\()%d\)?\.\.(?:len\(a1\.search\))?\]>$" % cur, seqn) is not None
        _rec(d, "skip-from-line-start", okd, "the newline scan must walk the input forward from the cursor (the previous line start); it walks %s" % seq[:100], loc)
        _rec(d, "find-forward", "rev" not in seq, "the newline scan must run forward", loc)
        ma = [(a, o) for a, o in gs if a[0] == "call" and a[1].split("::")[-1] == "match_at"]
        if dvo[0] == ("variant", "None"):
            _rec(d, "no-newline", r == "false" and not ma, "when no further newline exists the search must end with false", loc)
            continue
        hit = [(a, o) for a, o in gs if a[0] == "eq" and NLC in a[1:]]
        if not hit:
            _rec(d, "newline-tested", False, "a turn of the scan does not compare the character with U+000A", loc)
            continue
        if _sum_terms([x for x in hit[0][0][1:] if x != NLC][0][2] if [x for x in hit[0][0][1:] if x != NLC][0][0] == "index" else idx0, cur, ind) != IDX and _sum_terms(idx0, cur, ind) != IDX:
            _rec(d, "skip-from-line-start", False, "turn k of the scan must look at search[cursor + k]", loc)
        if hit[0][1] is False:
            # not a newline: the scan goes on with the next character, and nothing else happens
            _rec(d, "find-forward", p.end == "loop:%d" % h and not ma and cur not in p.env, "a character other than U+000A must only move the scan on by one", loc)
            continue
        bt = [(a, o) for a, o in gs if a[0] == "lt" and a[2] == LEN and _sum_terms(a[1], cur, ind) == NL]
        if not bt:
            other = [a for a, o in gs if a[0] == "lt" and a[2] == LEN]
            if other:
                _rec(d, "next-line-start", False, "the next line start must be (index of the newline) + 1; the bounds test is on %s" % _sum_terms(other[0][1], cur, ind), loc)
            else:
                _rec(d, "bounds-test", False, "the new line start is not compared with the input length", loc)
            continue
        _rec(d, "next-line-start", True, "", loc)
        if bt[0][1] is False:
            _rec(d, "at-or-past-end", r == "false" and not ma, "a line start at or beyond the end of input must end the search with false ('^' does not match after a final newline)", loc)
            continue
        neg = [(a, o) for a, o in gs if a[0] == "lt" and a[1] == ("const", "int", 0) and _sum_terms(a[2], cur, ind) == NL]
        if neg and neg[0][1] is False:
            _rec(d, "no-newline", r == "false" and not ma, "when no further newline exists the search must end with false", loc)
            continue
        good_try = len(ma) == 1 and ma[0][0][2][0] == ("arg", 1) and _sum_terms(ma[0][0][2][1], cur, ind) == NL and ma[0][0][2][2] == ("const", "bool", False)
        _rec(d, "try-line-start", good_try, "match_at must be tried (once) at the new line start; found %s" % [strip_ver(show(a))[:100] for a, o in ma], loc)
        if ma and ma[-1][1] is True:
            _rec(d, "true-on-match", r == "true", "a match at a line start must answer true", loc)
        if ma and ma[-1][1] is False:
            nv = p.env.get(cur)
            _rec(d, "continue", p.end.startswith("loop") and nv is not None and _sum_terms(nv, cur, ind) == NL, "after a failed attempt the scan must go on from the line start just tried (cursor := that position); the cursor becomes %s" % (_sum_terms(nv, cur, ind) if nv is not None else None), loc)
    for k in ("skip-from-line-start", "find-forward", "next-line-start", "at-or-past-end", "no-newline", "try-line-start", "true-on-match", "continue"):
        if k not in d:
            d[k] = [False, "the multi-line '^' seek of ReMatcher::matches no longer shows clause %s (restructured; re-audit)" % k, b.loc()]
    return _emit(d)


# ------------------------------------------------------------------ match_at


@rule("MATCH-AT", ["C02", "C01", "C19", "C18", "C03", "C04"], floor=5)
def match_at(ctx):
    """match_at(i): paren count := 1, start of group 0 := i, back-reference arrays re-allocated with max_parens
    entries when the program has back-references, history reset; the first result of the top-level iterator at i
    decides: Some(end) -> end of group 0 := end, true; None -> false."""
    P = "re_matcher::ReMatcher::match_at"
    b = ctx.body(P)
    if b is None:
        return [missing(P)]
    d = {}
    for p in checked(d, "match_at", b, ctx.walk(b).paths):
        gs, r = summarize(p)
        gs = [_sh(strip_ver(g)) for g in gs]
        loc = b.loc(p.blocks[-1])
        cs = _calls(p)
        names = [c[0] for c in cs]
        mi = [i for i, c in enumerate(cs) if c[0].endswith("matches_iter")]
        if len(mi) != 1:
            _rec(d, "one-iterator", False, "match_at must create the top-level iterator exactly once", loc)
            continue
        m_i = mi[0]
        _rec(d, "iterator-args", cs[m_i][1] == ["a1.program.operation", "a1", "a2"], "the top-level iterator must be program.operation.matches_iter(self, i); found %s" % cs[m_i][1], loc)
        nx = [i for i, c in enumerate(cs) if c[0] == "next" and i > m_i]
        _rec(d, "first-result-only", len(nx) == 1, "exactly the first result of the top-level iterator decides (next() called %d times)" % len(nx), loc)
        before = cs[:m_i]
        st0 = [(strip_ver(_sh(show(e[1]))), strip_ver(_sh(render(e[2]))), e[3]) for e in p.effects if e[0] == "store"]
        _rec(d, "paren-count-1", any(c[0] == "set_paren_count" and c[1][1] == "1" for c in before) or any(pl == "a1.state.capture_state.paren_count" and v == "1" and blk <= cs[m_i][2] for pl, v, blk in st0), "paren count must be set to 1 before matching", loc)
        _rec(d, "start-0", any(c[0] in ("set_paren_start", "CaptureState::set_paren_start") and c[1][1:] == ["0", "a2"] and c[1][0] in ("a1", "a1.state.capture_state") for c in before), "start of group 0 must be set to i before matching", loc)
        st = [(strip_ver(_sh(show(e[1]))), strip_ver(_sh(render(e[2]))), e[3]) for e in p.effects if e[0] == "store"]
        hasbr = "!eq(bitand(1, a1.program.optimization_flags), 0)" in gs
        if hasbr:
            allocs = [s for s in st if s[0].endswith(".start_backref") or s[0].endswith(".end_backref")]
            good = len(allocs) == 2 and all("from_elem(Option::None, Option::unwrap(a1.program.max_parens))" in s[1] for s in allocs) and all(s[2] <= cs[m_i][2] or b.dominates(s[2], cs[m_i][2]) for s in allocs)
            if not good and not allocs:
                # the same fresh state with the storage kept: clear(), then resize(max_parens, None), per array
                def refilled(arr):
                    ci = [i for i, c in enumerate(before) if c[0].endswith("clear") and c[1] and c[1][0].endswith("." + arr)]
                    ri = [i for i, c in enumerate(before) if c[0].endswith("resize") and len(c[1]) == 3 and c[1][0].endswith("." + arr) and c[1][1] == "Option::unwrap(a1.program.max_parens)" and c[1][2] == "Option::None"]
                    return bool(ci) and bool(ri) and ci[0] < ri[0]
                good = refilled("start_backref") and refilled("end_backref")
            _rec(d, "backref-alloc", good, "with back-references both arrays must be re-allocated (None; max_parens) for every attempt before matching; stores %s" % [(s[0][-20:], s[1][:60]) for s in allocs], loc)
        hist = [s for s in st if s[0].endswith(".history")]
        _rec(d, "history-reset", any("History::new()" in s[1] for s in hist) and all(b.dominates(s[2], cs[m_i][2]) for s in hist), "the zero-length-match memo must be reset for every attempt (an attempt at the same position after a failed one is otherwise denied the zero-iteration alternative): (x?)(?:aa|b)*c\\1 on 'xc'", loc)
        some = [g for g in gs if g.startswith("variant(next(")]
        if some and some[-1].endswith("=Some"):
            after = cs[nx[0]:] if nx else []
            _rec(d, "end-0", any(c[0] == "set_paren_end" and c[1][1] == "0" and c[1][2].endswith(" as Some.0") for c in after) and r == "true", "a result must set the end of group 0 to that result and answer true", loc)
        elif some:
            _rec(d, "no-result", r == "false", "no result must answer false", loc)
    if "backref-alloc" not in d:
        _rec(d, "backref-alloc", False, "match_at has no path guarded by the has-back-references flag that re-allocates start_backref/end_backref: the arrays must be fresh for every attempted start position", b.loc(0))
    return _emit(d)


# ------------------------------------------------------------------ iterator exhaustion / order


@rule("EXH-CHOICE", ["C01", "C02", "C03", "C19", "C15", "C04"], floor=5)
def exh_choice(ctx):
    """ChoiceIterator: results are those of the current branch iterator; exhaustion is reported only after
    branches_iter is exhausted; branches are taken in source order; before a branch is entered the groups beyond
    the position are cleared, then the branch iterator is created at the same position."""
    d = {}
    N = "<op_choice::ChoiceIterator as std::iter::Iterator>::next"
    b = ctx.body(N)
    if b is None:
        return [missing(N)]
    # next() with its helper next_branch read into it (rxv/vocabulary_thin.json): whether "is there another branch"
    # travels as a bool, as Option<()> or as the iterator just installed is then no longer a difference
    CUR = r"(?:a1\.current_iter as Some\.0|Option::insert\(a1\.current_iter, (?:<Operation as OperationControl>::)?matches_iter\(.*\)\))"
    for p in checked(d, "choice-next", b, ctx.walk(b, max_visits=1).paths, only=lambda p: p.end == "return" or p.end.startswith("loop")):
        gs, r = summarize(p)
        gs = [strip_ver(g) for g in gs]
        r = strip_ver(r)
        loc = b.loc(p.blocks[-1])
        cs = _calls(p)
        st = [(strip_ver(show(e[1])), strip_ver(render(e[2]))) for e in p.effects if e[0] == "store"]
        br = [g for g in gs if re.match(r"^variant\((?:<.*?>::)?next\(a1\.branches_iter\)\)=(Some|None)$", g)]
        entered = bool(br) and br[-1].endswith("=Some")
        work = [c for c in cs if c[0] == "clear_captured_groups_beyond" or c[0].endswith("matches_iter")]
        if p.end == "return" and r == "Option::None":
            _rec(d, "none-after-branches-exhausted", bool(br) and br[-1].endswith("=None"), "ChoiceIterator reports exhaustion although branches remain (guards %s)" % gs[-2:], loc)
        if bool(br) and br[-1].endswith("=None"):
            _rec(d, "no-branch", not work and not any(pl == "a1.current_iter" and v.startswith("Option::Some") for pl, v in st), "without a further branch nothing is entered", loc)
        if entered:
            ci = [i for i, c in enumerate(cs) if c[0] == "clear_captured_groups_beyond"]
            mi = [i for i, c in enumerate(cs) if c[0].endswith("matches_iter")]
            good = len(ci) == 1 and len(mi) == 1 and ci[0] < mi[0] and cs[ci[0]][1] == ["a1.matcher", "a1.position"] and cs[mi[0]][1][1:] == ["a1.matcher", "a1.position"] and re.match(r"^(?:<.*?>::)?next\(a1\.branches_iter\) as Some\.0$", cs[mi[0]][1][0]) is not None
            _rec(d, "branch-entry", good, "entering a branch: clear_captured_groups_beyond(position) first, then branch.matches_iter(matcher, position) (an eager branch iterator would otherwise have its captures wiped); calls %s" % [(c[0], c[1][-1][:30]) for c in cs if c[0].split("::")[-1] != "next"], loc)
            stored = any(pl == "a1.current_iter" and re.match(r"^Option::Some\{0: (?:<Operation as OperationControl>::)?matches_iter\(", v) for pl, v in st) or any(c[0].split("::")[-1] == "insert" and c[1] and c[1][0] == "a1.current_iter" and "matches_iter(" in c[1][1] for c in cs)
            _rec(d, "branch-stored", stored, "the new branch iterator must become current_iter", loc)
        elif work:
            _rec(d, "branch-entry", False, "a branch is entered on a path that did not take it from branches_iter", loc)
        if p.end == "return" and r != "Option::None":
            m = re.match(r"^Option::Some\{0: next\((%s)\) as Some\.0\}$" % CUR, r) or re.match(r"^next\((%s)\)$" % CUR, r)
            delivered = [g for g in gs if re.match(r"^(?:variant\(next\(%s\)\)=Some|isSome\(next\(%s\)\))$" % (CUR, CUR), g)]
            _rec(d, "some-from-current", m is not None and bool(delivered), "results must come from the current branch iterator (and be results: Some); found %s" % r[:100], loc)
        if p.end.startswith("loop") and not entered:
            _rec(d, "branch-entry", False, "a turn ends without a result and without entering another branch (guards %s)" % gs[-2:], loc)
    for k in ("none-after-branches-exhausted", "some-from-current", "branch-entry", "branch-stored", "no-branch"):
        if k not in d:
            d[k] = [False, "ChoiceIterator::next no longer shows clause %s (restructured; re-audit)" % k, b.loc()]
    # source order: branches_iter = branches.iter() (no reversing adaptor)
    NW = "op_choice::ChoiceIterator::new"
    nw = ctx.body(NW)
    if nw is None:
        d["new|missing"] = [False, "ChoiceIterator::new missing", None]
    else:
        rs = {strip_ver(render(p.ret)) for p in ctx.walk(nw).paths}
        r0 = next(iter(rs))
        _rec(d, "source-order", len(rs) == 1 and "branches_iter: a3," in r0.replace("branches_iter: a3}", "branches_iter: a3,}") and "current_iter: Option::None" in r0 and "position: a2" in r0, "ChoiceIterator::new must iterate the branches slice as given (forward) with no current iterator; found %s" % r0[:200], nw.loc())
        rev = call_sites(nw, lambda r: r.endswith("::rev") or "Rev<" in r)
        _rec(d, "no-rev", not rev, "branches are iterated in reverse", nw.loc())
    return _emit(d)


@rule("EXH-SEQ", ["C01", "C02", "C03", "C05"], floor=6)
def exh_seq(ctx):
    """SequenceIterator: a stack of iterators, one per operation; Some(x) from the top either completes the
    sequence (stack height = number of operations) or pushes operations[height].matches_iter(matcher, x) after
    clearing the groups beyond x; the top is popped only when exhausted; None only when the stack is empty, after
    restoring the saved capture state."""
    N = "<op_sequence::SequenceIterator as std::iter::Iterator>::next"
    b = ctx.body(N)
    if b is None:
        return [missing(N)]
    d = {}
    loops = b.natural_loops()
    if not loops:
        return [bad("loop", "SequenceIterator::next has no loop", b.loc())]
    outer = max(loops, key=lambda x: len(loops[x]))
    TOP = "next(Option::unwrap(last_mut(a1.iterators)))"
    X = TOP + " as Some.0"
    for p in checked(d, "sequence-next", b, ctx.walk(b, start_bb=outer, max_visits=1).paths, only=lambda p: p.end in ("return",) or p.end.startswith("loop")):
        gs, r = summarize(p)

        def canon(x):
            # `while let Some(top) = self.iterators.last_mut()`: the stack is empty exactly when it has no top
            return x.replace("last_mut(a1.iterators) as Some.0", "Option::unwrap(last_mut(a1.iterators))")
        gs = [canon(strip_ver(g)) for g in gs]
        gs = ["eq(0, len(a1.iterators))" if g == "variant(last_mut(a1.iterators))=None" else "!eq(0, len(a1.iterators))" if g == "variant(last_mut(a1.iterators))=Some" else g for g in gs]
        r = canon(strip_ver(r))
        loc = b.loc(p.blocks[-1])
        cs = [(c[0], [canon(a) for a in c[1]]) for c in _calls(p)]
        if "eq(0, len(a1.iterators))" in gs:
            good = r == "Option::None"
            _rec(d, "none-when-empty", good, "with an empty stack next() must answer None", loc)
            if "variant(a1.saved_state)=Some" in gs:
                _rec(d, "restore-saved-state", any(c[0] == "reset_state" and c[1] == ["a1.matcher", "a1.saved_state as Some.0"] for c in cs), "total failure of a sequence with capturing sub-expressions must restore the capture state saved at its creation", loc)
            continue
        if p.end == "return" and r == "Option::None":
            _rec(d, "none-only-when-empty", False, "SequenceIterator reports exhaustion while iterators remain on the stack", loc)
            continue
        tv = [g for g in gs if g.startswith("variant(%s)" % TOP)]
        if not tv:
            _rec(d, "top-consulted", False, "an iteration does not consult the top iterator", loc)
            continue
        if tv[0].endswith("=Some"):
            ci = [i for i, c in enumerate(cs) if c[0] == "clear_captured_groups_beyond"]
            _rec(d, "clear-beyond-result", bool(ci) and cs[ci[0]][1] == ["a1.matcher", X], "after a sub-match ending at x the groups beyond x must be cleared", loc)
            if "!lt(len(a1.iterators), len(a1.operations))" in gs:
                _rec(d, "complete", r == "Option::Some{0: %s}" % X, "a complete sequence must yield the position the last operation reached; found %s" % r[:80], loc)
            elif "lt(len(a1.iterators), len(a1.operations))" in gs:
                mi = [c for c in cs if c[0].endswith("matches_iter")]
                pu = [c for c in cs if c[0].endswith("::push")]
                good = len(mi) == 1 and mi[0][1] == ["a1.operations[len(a1.iterators)]", "a1.matcher", X] and len(pu) == 1 and p.end.startswith("loop")
                _rec(d, "push-next-operation", good, "an incomplete sequence must push operations[height].matches_iter(matcher, x); found %s" % [c[1] for c in mi], loc)
            else:
                _rec(d, "height-test", False, "the stack height is not compared with the number of operations", loc)
        else:
            po = [c for c in cs if c[0].endswith("::pop")]
            _rec(d, "pop-exhausted-top", len(po) == 1 and po[0][1][0].startswith("a1.iterators") and not [c for c in cs if c[0].endswith("::push")], "an exhausted top iterator must be popped (and nothing pushed)", loc)
    for k in ("none-when-empty", "restore-saved-state", "complete", "push-next-operation", "pop-exhausted-top"):
        if k not in d:
            d[k] = [False, "SequenceIterator::next lost its %s path" % k, b.loc()]
    # pops happen only on the exhausted path: every pop site is dominated by the None edge of top.next()
    NW = "op_sequence::SequenceIterator::new"
    nw = ctx.body(NW)
    if nw is None:
        return _emit(d) + [missing(NW)]
    for p in ctx.walk(nw).paths:
        gs, r = summarize(p)
        r = _sh(strip_ver(r))
        loc = nw.loc()
        # the constructor is handed the operations and the "contains capturing expressions" flag, or the sequence itself
        # (and asks it)
        gsn = [_sh(strip_ver(g)).replace("<Sequence as OperationControl>::", "") for g in gs]
        by_seq = any(g.lstrip("!") == "contains_capturing_expressions(a2)" for g in gsn)
        caps = ("a4" in gs) or ("contains_capturing_expressions(a2)" in gsn)
        OPS = "a2.operations" if by_seq else "a2"
        want_saved = "saved_state: Option::Some{0: capture_state(a1)}" if caps else "saved_state: Option::None"
        _rec(d, "new|saved-state|%s" % caps, want_saved in r, "SequenceIterator::new must snapshot the capture state iff the sequence contains capturing expressions; found %s" % r[:200], loc)
        _rec(d, "new|first-iterator", ("iterators: vec![matches_iter(Option::unwrap(first(%s)), a1, a3)]" % OPS) in r and ("operations: %s" % OPS) in r and "matcher: a1" in r, "the stack must start with operations[0].matches_iter(matcher, position)", loc)
        d.setdefault("__by_seq", [by_seq, "", None])
        if caps:
            # the snapshot is taken before the first term's iterator exists: the repeat operators match eagerly while
            # their iterator is built, and a snapshot taken afterwards already holds what they captured
            cs_ = _calls(p)
            si = [i for i, c in enumerate(cs_) if c[0] == "capture_state"]
            mi_ = [i for i, c in enumerate(cs_) if c[0].endswith("matches_iter")]
            _rec(d, "new|snapshot-before-first-term", bool(si) and bool(mi_) and si[0] < mi_[0], "SequenceIterator::new must save the capture state before it asks the first term for its iterator (order of calls: %s)" % [c[0] for c in cs_ if c[0] == "capture_state" or c[0].endswith("matches_iter")], loc)
    sm = ctx.body("<op_sequence::Sequence as %s>::matches_iter" % OC)
    if sm is None:
        d.pop("__by_seq", None)
    if sm is not None:
        rs = {_sh(strip_ver(render(p.ret))) for p in ctx.walk(sm).paths}
        by_seq = bool(d.pop("__by_seq", [False])[0])
        _rec(d, "seq-matches_iter", (by_seq and rs == {"SequenceIterator::new(a2, a1, a3)"}) or (not by_seq and (rs == {"SequenceIterator::new(a2, a1.operations, a3, contains_capturing_expressions(a1))"} or rs == {"SequenceIterator::new(a2, a1.operations, a3, <Sequence as OperationControl>::contains_capturing_expressions(a1))"})), "Sequence::matches_iter must build SequenceIterator::new(matcher, operations, position, self.contains_capturing_expressions()); found %s" % sorted(rs), sm.loc())
    return _emit(d)


@rule("CONTAINS-CAPTURING", ["C03", "C05", "C19", "C04"], floor=6)
def contains_capturing(ctx):
    """contains_capturing_expressions of every composite operation = some child is a Capture or itself contains
    capturing expressions (sibling agreement); leaves answer false (default)."""
    d = {}
    single = {"Repeat": "a1.operation", "GreedyFixed": "a1.operation", "ReluctantFixed": "a1.operation", "UnambiguousRepeat": "a1.operation"}
    multi = {"Sequence": "a1.operations", "Choice": "a1.branches"}
    seen = set()
    for b in [x for x in ctx.f.bodies if x.impl_trait == OC and x.name == "contains_capturing_expressions" and not x.from_expansion]:
        key = b.impl_self.split("::")[-1]
        if key == "Operation":
            continue
        ctx.body(b.path)
        seen.add(key)
        if key in single:
            child = single[key]
            good = True
            for p in ctx.walk(b).paths:
                gs, r = summarize(p)
                gs = [_sh(g) for g in gs]
                r = _sh(r)
                iscap = [g for g in gs if g.startswith("variant(%s)" % child)]
                if not iscap:
                    good = False
                elif iscap[-1] == "variant(%s)=Capture" % child:
                    good = good and r == "true"
                else:
                    good = good and r == "contains_capturing_expressions(%s)" % child
            _rec(d, key, good, "%s::contains_capturing_expressions must be `child is Capture || child.contains_capturing_expressions()`: a quantified group that is dropped here loses the save/restore of its captures" % key, b.loc())
        elif key in multi:
            loops = b.natural_loops()
            good = len(loops) == 1
            rs_any = {_sh(strip_ver(render(p.ret))) for p in ctx.walk(b).paths} if not loops else set()
            ma = [re.match(r"^(?:<Iter<T> as Iterator>|Iterator)::any\(%s, closure (.*)\[\]\)$" % re.escape(multi[key]), r) for r in rs_any]
            if not loops and len(ma) == 1 and ma[0]:
                # the same disjunction written as `elements.iter().any(|o| o is Capture || o.contains_capturing_expressions())`
                cb = ctx.body(b.path + "::{closure#0}")
                good = cb is not None
                if cb is not None:
                    for q in ctx.walk(cb).paths:
                        qg, qr = summarize(q)
                        qg = [_sh(strip_ver(g)) for g in qg]
                        qr = _sh(strip_ver(qr))
                        iscap = [g for g in qg if g.startswith("variant(a2)")]
                        if iscap and iscap[-1] == "variant(a2)=Capture":
                            good = good and qr == "true"
                        elif iscap:
                            good = good and qr == "contains_capturing_expressions(a2)"
                        else:
                            good = False
                _rec(d, key, good, "%s::contains_capturing_expressions must answer true iff some element is a Capture or contains capturing expressions" % key, b.loc())
                continue
            if good:
                h = next(iter(loops))
                n = 0
                for p in ctx.walk(b, start_bb=h).paths:
                    gs, r = summarize(p)
                    gs = [_sh(g) for g in gs]
                    r = _sh(r)
                    el = [g for g in gs if g.endswith("=Some") and "next(" in g]
                    if not el:
                        good = good and r == "false"
                        continue
                    O = el[0][len("variant("):-len(")=Some")] + " as Some.0"
                    n += 1
                    iscap = [g for g in gs if g.startswith("variant(%s)" % O)]
                    if not iscap:
                        good = False
                    elif iscap[-1] == "variant(%s)=Capture" % O:
                        good = good and r == "true"
                    elif ("contains_capturing_expressions(%s)" % O) in gs:
                        good = good and r == "true"
                    elif ("!contains_capturing_expressions(%s)" % O) in gs:
                        good = good and p.end.startswith("loop")
                    else:
                        good = False
            _rec(d, key, good, "%s::contains_capturing_expressions must answer true iff some element is a Capture or contains capturing expressions" % key, b.loc())
        elif key == "Capture":
            _rec(d, key, False, "Capture overrides contains_capturing_expressions (the default false is what the callers' `is Capture ||` test relies on)", b.loc())
        else:
            _rec(d, "unknown|" + key, False, "%s overrides contains_capturing_expressions; not in the sibling table" % key, b.loc())
    for k in list(single) + list(multi):
        if k not in seen:
            d[k + "|missing"] = [False, "%s lost its contains_capturing_expressions override (the default answers false)" % k, None]
    dflt = ctx.body("operation::OperationControl::contains_capturing_expressions")
    if dflt is not None:
        rs = {render(p.ret) for p in ctx.walk(dflt).paths}
        _rec(d, "default", rs == {"false"}, "default contains_capturing_expressions must be false", dflt.loc())
    return _emit(d)


@rule("CLEAR-BEYOND", ["C03", "C19", "C04", "C15", "C05", "C01"], floor=5)
def clear_beyond(ctx):
    """clear_captured_groups_beyond(pos): every group (and every back-reference slot) whose start is at or after
    pos gets end := start; both arrays are treated alike, on every call (no exit before both arrays were walked:
    the back-reference arrays are not part of the saved capture state, this function is what keeps start <= end in
    them - the subtraction end - start in BackReference::matches_iter is audited against that)."""
    P = "re_matcher::ReMatcher::clear_captured_groups_beyond"
    b = ctx.body(P)
    if b is None:
        return [missing(P)]
    d = {}
    loops = b.natural_loops()
    if len(loops) != 2:
        return [bad("loops", "clear_captured_groups_beyond must have one loop per array pair (found %d)" % len(loops), b.loc())]
    # the two array pairs, each reachable through its accessors or (the thin private ones are spliced in, and an edit
    # may read the fields under one borrow) directly
    pairs = {
        "capture_state_startn": {"start": "a1.state.capture_state.startn", "end": "a1.state.capture_state.endn", "get": "capture_state_startn", "set": "set_capture_state_endn", "len": "startn_len"},
        "start_backref": {"start": "a1.state.start_backref", "end": "a1.state.end_backref", "get": "start_backref", "set": "set_end_backref", "len": "start_backref_len"},
    }
    ranges = set()
    for p in ctx.walk(b).paths:
        if p.end == "return":
            skipped = [h for h in loops if h not in p.blocks]
            _rec(d, "every-call-walks-both-arrays", not skipped, "clear_captured_groups_beyond returns without walking %s (guards %s): stale entries at or after pos survive - in the back-reference arrays, which no state restore repairs, that leaves start > end" % ("both arrays" if len(skipped) == 2 else "one of the arrays", [_sh(strip_ver(g)) for g in summarize(p)[0]][:3]), b.loc(p.blocks[-1]))
        for a, o in p.guards:
            s = _sh(strip_ver(render(a)))
            m = re.match(r"^variant\((next\(Range::Range\{.*\}\))\)$", s)
            if m:
                ranges.add(m.group(1))
    seen = set()
    from ..lockstep import Lockstep
    for h in loops:
        # one turn of the loop in turn-indexed form: whatever drives the loop (a range of indices, the array itself,
        # enumerate), entry number k is `<array>[k]`
        for p in Lockstep(ctx, b, h).paths(ctx):
            gs, r = summarize(p)
            gs = [_sh(strip_ver(g)) for g in gs]
            el = [g for g in gs if g.endswith("=Some") and g.startswith("variant(next(")]
            if not el or not p.end.startswith("loop"):
                continue
            drv = el[0][len("variant(next("):-len("))=Some")]
            I = "k"
            cs = _calls(p)
            stores = [(_sh(strip_ver(render(e[1]))), _sh(strip_ver(render(e[2])))) for e in p.effects if e[0] == "store"]
            hit = None
            for g, pr in pairs.items():
                forms = ("%s(a1, %s)" % (pr["get"], I), "%s[%s]" % (pr["start"], I))
                st_ = [f for f in forms if any(f in x for x in gs)]
                if st_:
                    hit = (g, pr, st_[0])
            if hit is None:
                continue
            g, pr, START = hit
            seen.add(g)
            loc = b.loc(p.blocks[-1])
            cond_ge = "!lt(%s, Option::Some{0: a2})" % START
            cond_lt = "lt(%s, Option::Some{0: a2})" % START
            starts = ("%s(a1, %s)" % (pr["get"], I), "%s[%s]" % (pr["start"], I))
            sets = [c[1] for c in cs if c[0] == pr["set"]] + [["a1", I, v] for pl, v in stores if pl == "%s[%s]" % (pr["end"], I)]
            other = [pl for pl, v in stores if pl != "%s[%s]" % (pr["end"], I)]
            if cond_ge in gs:
                _rec(d, g + "|at-or-after", len(sets) == 1 and sets[0][:2] == ["a1", I] and sets[0][2] in starts and not other, "a group starting at or after pos must get end := start; found %s %s" % (sets, other), loc)
            elif cond_lt in gs:
                _rec(d, g + "|before", not sets and not other, "a group starting before pos must be left alone", loc)
            else:
                _rec(d, g + "|comparison", False, "the test must be start >= Some(pos) (groups starting exactly at pos are emptied too); guards %s" % [x for x in gs if "Option::Some{0: a2}" in x], loc)
            _rec(d, g + "|range", drv in ("<0..len(%s)>" % pr["start"], "<0..%s(a1)>" % pr["len"]), "must range over all %s entries from 0; the loop runs over %s" % (g, drv), loc)
    for g in pairs:
        if g not in seen:
            d[g + "|missing"] = [False, "clear_captured_groups_beyond no longer treats %s" % g, b.loc()]
    out = _emit(d)
    for o in out:
        # what a later \N compares against is what this function left in the back-reference arrays: the match
        # relation itself (C01) rests on those slots being emptied
        if o.key.startswith("start_backref|") or o.key.startswith("every-call"):
            o.props = ["C03", "C19", "C04", "C15", "C05", "C01"]
        else:
            o.props = ["C03", "C19", "C04", "C15", "C05"]
    return out


@rule("CAPTURE-WRITE", ["C03", "C19"], floor=5)
def capture_write(ctx):
    """CaptureGroupIterator::next: for each result x of the child: paren_count raised to group_nr+1 when lower,
    start := the group's start position, end := x, and under OPT_HASBACKREFS the back-reference arrays receive the
    same two values; x is yielded unchanged; exhaustion of the child is exhaustion."""
    N = "<op_capture::CaptureGroupIterator as std::iter::Iterator>::next"
    b = ctx.body(N)
    if b is None:
        return [missing(N)]
    d = {}
    X = "next(a1.basis) as Some.0"
    for p in checked(d, "capture-next", b, ctx.walk(b).paths):
        gs, r = summarize(p)
        gs = [_sh(strip_ver(g)) for g in gs]
        r = strip_ver(r)
        loc = b.loc(p.blocks[-1])
        cs = _calls(p)
        if any(g == "variant(next(a1.basis))=None" for g in gs):
            _rec(d, "exhaustion", r == "Option::None" and not [c for c in cs if c[0].startswith("set_")], "exhaustion of the child must be exhaustion, with no state written", loc)
            continue
        _rec(d, "yield", r == "Option::Some{0: %s}" % X, "the child's result must be yielded unchanged; found %s" % r[:80], loc)
        _rec(d, "start", any(c[0] == "set_paren_start" and c[1] == ["a1.matcher", "a1.group_nr", "a1.position"] for c in cs), "group start must be set to the position the group was entered at", loc)
        _rec(d, "end", any(c[0] == "set_paren_end" and c[1] == ["a1.matcher", "a1.group_nr", X] for c in cs), "group end must be set to the child's result", loc)
        low = "!lt(a1.group_nr, paren_count(a1.matcher))" in gs
        pc = [c for c in cs if c[0] == "set_paren_count"]
        if low:
            _rec(d, "paren-count", len(pc) == 1 and pc[0][1] == ["a1.matcher", "add(1, a1.group_nr)"], "paren_count must be raised to group_nr+1", loc)
        else:
            _rec(d, "paren-count-kept", not pc, "paren_count must not be lowered", loc)
        br = "!eq(bitand(1, a1.matcher.program.optimization_flags), 0)" in gs
        sb = [c for c in cs if c[0] in ("set_start_backref", "set_end_backref")]
        if br:
            good = any(c[0] == "set_start_backref" and c[1] == ["a1.matcher", "a1.group_nr", "Option::Some{0: a1.position}"] for c in sb) and any(c[0] == "set_end_backref" and c[1] == ["a1.matcher", "a1.group_nr", "Option::Some{0: %s}" % X] for c in sb)
            _rec(d, "backref-pair", good, "under OPT_HASBACKREFS the back-reference arrays must receive (position, result) like the group span; found %s" % [c[1][2][:40] for c in sb], loc)
        else:
            _rec(d, "backref-gated", not sb, "back-reference arrays are written without OPT_HASBACKREFS (they are not allocated then)", loc)
    M = "<op_capture::Capture as %s>::matches_iter" % OC
    m = ctx.body(M)
    if m is None:
        return _emit(d) + [missing(M)]
    for p in ctx.walk(m).paths:
        gs, r = summarize(p)
        r = _sh(strip_ver(r))
        _rec(d, "iterator-built", r == "CaptureGroupIterator::new(a2, matches_iter(a1.child_op, a2, a3), a1.group_nr, a3)", "Capture::matches_iter must wrap child.matches_iter(matcher, position) with (group_nr, position); found %s" % r[:120], m.loc())
    return _emit(d)


@rule("BACKREF-ORDERED", ["C05", "C19"], floor=4)
def backref_ordered(ctx):
    """start <= end in every slot of the back-reference arrays, at all times (BackReference::matches_iter subtracts
    end - start and indexes from start; the arrays are not part of the capture state a failed sequence restores, so
    nothing repairs a slot afterwards): the arrays are written only through set_start_backref / set_end_backref (and
    emptied as a whole by match_at); whoever writes a start writes, on the same path and for the same group, an end
    that is the same position or a position the group's iterator delivered from there; an end written alone is the
    slot's own start."""
    d = {}
    S = "re_matcher::ReMatcher::set_start_backref"
    E = "re_matcher::ReMatcher::set_end_backref"
    for P in (S, E):
        if ctx.body(P) is None:
            return [missing(P)]
    # who may write: index_mut / get_mut / iter_mut / last_mut .. on the two arrays only inside the two setters
    writers = set()
    for x in ctx.f.bodies:
        se = None
        for bb, t in x.calls():
            dd, r, fn = callee(t)
            if not r or not re.search(r"(index_mut|get_mut|iter_mut|last_mut|first_mut|swap|fill|as_mut_slice|deref_mut)$", r) or not t["args"]:
                continue
            se = se or ctx.senv(x)
            a0 = strip_ver(show(se.operand(t["args"][0])))
            if re.search(r"\.(start_backref|end_backref)\b", a0):
                writers.add(x.path)
    CL = "re_matcher::ReMatcher::clear_captured_groups_beyond"
    # (clear_captured_groups_beyond may write the arrays itself under one borrow: that what it writes is end := the
    # slot's own start is CLEAR-BEYOND's clause start_backref|at-or-after, which bears on the same properties)
    _rec(d, "writers", {S, E} <= writers | {S, E} and writers <= {S, E, CL}, "the back-reference arrays are written element-wise outside their two setters and clear_captured_groups_beyond: %s" % sorted(writers - {S, E, CL}), None)
    callers = {}
    for P in (S, E):
        for caller, bb in ctx.cg.sites.get(P, []):
            if caller.blocks[bb].get("cleanup"):
                continue
            callers.setdefault(caller.path, caller)
    _rec(d, "callers-known", bool(callers), "nobody writes the back-reference arrays", None)
    for path, c in sorted(callers.items()):
        ctx.body(path)
        n_ok = True
        why = ""
        for p in ctx.walk(c).paths:
            cs = [x for x in _calls(p) if x[0] in ("set_start_backref", "set_end_backref")]
            for i, x in enumerate(cs):
                grp = x[1][1]
                if x[0] == "set_start_backref":
                    later = [y for y in cs[i + 1:] if y[0] == "set_end_backref" and y[1][1] == grp]
                    v = x[1][2]
                    ok_ = bool(later) and (later[-1][1][2] == v or re.match(r"^Option::Some\{0: next\(a1\.\w+\) as Some\.0\}$", later[-1][1][2]) is not None and v == "Option::Some{0: a1.position}")
                    if not ok_:
                        n_ok = False
                        why = "writes the start of a back-reference slot (%s) without writing an end that is that position or one delivered from it (%s): an end left behind by an earlier attempt may lie before it, and BackReference::matches_iter subtracts end - start" % (v[:50], [y[1][2][:50] for y in later])
                else:
                    earlier = [y for y in cs[:i] if y[0] == "set_start_backref" and y[1][1] == grp]
                    v = x[1][2]
                    if not earlier and not re.match(r"^(?:ReMatcher::)?start_backref\(a1, %s\)$" % re.escape(grp), v):
                        n_ok = False
                        why = "writes the end of a back-reference slot alone, and not the slot's own start: %s" % v[:60]
        _rec(d, "pair|" + path, n_ok, "%s %s" % (path, why), c.loc())
    if CL not in callers:
        _rec(d, "pair|" + CL, CL in writers and ctx.body(CL) is not None, "clear_captured_groups_beyond neither calls the setters nor writes the arrays", None)
    return _emit(d)


@rule("CAPTURE-WRITERS", ["C05", "C03"], floor=3)
def capture_writers(ctx):
    """start <= end in every slot of the group arrays whenever both are set (ReMatcher::get_paren slices
    search[start..end], process_matching_substring subtracts): a group start is written only by
    CaptureGroupIterator::next, together with its end (CAPTURE-WRITE), and by match_at for group 0 after the state was
    emptied (MATCH-AT); an end alone only for group 0 (EndProgram, match_at) or as the slot's own start
    (clear_captured_groups_beyond, CLEAR-BEYOND); everything else that changes the arrays replaces the state as a
    whole (capture_state / reset_state, STATE-SAVE-RESTORE)."""
    d = {}
    S = "re_matcher::ReMatcher::set_paren_start"
    E = "re_matcher::ReMatcher::set_paren_end"
    CG = "<op_capture::CaptureGroupIterator as std::iter::Iterator>::next"
    MA = "re_matcher::ReMatcher::match_at"
    EP = "<op_end_program::EndProgram as %s>::matches_iter" % OC
    allowed = {S: {CG, MA}, E: {CG, MA, EP}}
    for P, okc in allowed.items():
        if ctx.body(P) is None:
            return [missing(P)]
        callers = set()
        for caller, bb in ctx.cg.sites.get(P, []):
            if caller.blocks[bb].get("cleanup"):
                continue
            callers.add(ctx.creator_root(caller.path) if "{closure" in caller.path else caller.path)
        nm = P.split("::")[-1]
        extra = sorted(callers - okc)
        _rec(d, "callers|" + nm, not extra, "%s is called from %s: a start written without its end (or an end without its start) can leave start > end in a slot that get_paren slices" % (nm, extra), ctx.body(extra[0]).loc() if extra and ctx.body(extra[0]) else None)
        _rec(d, "used|" + nm, CG in callers, "%s is no longer called by CaptureGroupIterator::next" % nm, None)
    # element-wise writes of the arrays themselves: the two inner setters, clear_captured_groups_beyond (end := the
    # slot's own start, CLEAR-BEYOND) and match_at (group 0 of a state it has just emptied, MATCH-AT)
    CS = "re_matcher::CaptureState::set_paren_start"
    CE = "re_matcher::CaptureState::set_paren_end"
    CL = "re_matcher::ReMatcher::clear_captured_groups_beyond"
    direct = set()
    for x in ctx.f.bodies:
        se_ = None
        for bb, t in x.calls():
            dd, r, fn = callee(t)
            if not r or not t["args"] or not re.search(r"(index_mut|get_mut|iter_mut|last_mut|first_mut|swap|fill|as_mut_slice|deref_mut|push|resize|clear|truncate|extend|insert|remove|pop)$", r):
                continue
            se_ = se_ or ctx.senv(x)
            a0 = strip_ver(show(se_.operand(t["args"][0])))
            if re.search(r"\.(startn|endn)\b", a0):
                direct.add(ctx.creator_root(x.path) if "{closure" in x.path else x.path)
    extra = sorted(direct - {CS, CE, CL, MA, S, E})
    _rec(d, "direct-writers", not extra, "the group arrays are changed element-wise in %s" % extra, ctx.body(extra[0]).loc() if extra and ctx.body(extra[0]) else None)
    # group 0 only, outside the group iterator
    optional = set()
    for path in (MA, EP):
        b = ctx.body(path)
        if b is None:
            continue
        se = ctx.senv(b)
        for bb, t in b.calls():
            dd, r, fn = callee(t)
            if r in (S, E):
                g0 = strip_ver(show(se.operand(t["args"][1])))
                optional.add("group-0|" + ("match_at" if path == MA else "EndProgram") + "|" + r.split("::")[-1])
                _rec(d, "group-0|" + ("match_at" if path == MA else "EndProgram") + "|" + r.split("::")[-1], g0 == "0", "%s writes the span of group %s; outside CaptureGroupIterator::next only group 0 (the whole match) is written" % (path, g0), b.loc(bb))
    out = _emit(d)
    for o in out:
        if o.key in optional:
            o.optional = True  # a site that writes the state directly instead is not a call to judge
    return out


# ------------------------------------------------------------------ repetition iterators


@rule("ORDER-GREEDY", ["C02", "C01", "C20", "C08", "C11", "C03"], floor=6)
def order_greedy(ctx):
    """GreedyFixed: at most max body matches are taken from position, stepping by len; fewer than min -> nothing;
    otherwise positions are yielded from the furthest down to position+len*min in steps of len. IntStepIterator
    yields current while it has not passed the limit and then moves by step. UnambiguousRepeat takes as many as
    possible (<= max) and yields that single position iff >= min."""
    d = {}
    G = "<op_greedy_fixed::GreedyFixed as %s>::matches_iter" % OC
    b = ctx.body(G)
    if b is None:
        return [missing(G)]
    for p in ctx.walk(b, max_visits=2).paths:
        if p.end != "return":
            continue
        gs, r = summarize(p)
        gs = [_sh(strip_ver(g)) for g in gs]
        r = _sh(strip_ver(r))
        loc = b.loc(p.blocks[-1])
        if r.startswith("IntStepIterator::new("):
            m = re.match(r"^IntStepIterator::new\((.*), (neg\(.*\)|-?\d+), (.*)\)$", r)
            good = m is not None and m.group(3) in ("add(a3, mul(a1.len, a1.min))", "add(a3, mul(a1.min, a1.len))") and "a1.len" in m.group(2) and m.group(2).startswith("neg(")
            _rec(d, "descending-from-furthest", good, "GreedyFixed must yield from the furthest position in steps of -len down to position + len*min; found %s" % r[:160], loc)
            _rec(d, "min-reached", any(re.match(r"^!lt\(.*, a1\.min\)$", g) for g in gs), "positions may be yielded only when at least min iterations matched", loc)
        elif r == "empty()":
            pass
        else:
            _rec(d, "result", False, "GreedyFixed::matches_iter returns %s" % r[:80], loc)
    # loop: body matched at p -> p += len, count+1, stop at max
    loops = b.natural_loops()
    if len(loops) == 1:
        h = next(iter(loops))
        for p in ctx.walk(b, start_bb=h).paths:
            gs, r = summarize(p)
            gs = [_sh(strip_ver(g)) for g in gs]
            mi = [c for c in _calls(p) if c[0].endswith("matches_iter")]
            if not mi:
                continue
            loc = b.loc(p.blocks[-1])
            _rec(d, "body-at-p", re.match(r"^a1\.operation$", mi[0][1][0]) is not None and mi[0][1][1] == "a2" and re.match(r"^uninit\(\d+\)$", mi[0][1][2]) is not None, "each iteration must match the body at the current position", loc)
            if p.end.startswith("loop"):
                newv = [strip_ver(render(v)) for l, v in p.env.items() if v != ("uninit", l) and isinstance(v, tuple) and v[0] == "add"]
                _rec(d, "step-by-len", any(re.match(r"^add\(a1\.len, uninit\(\d+\)\)$|^add\(uninit\(\d+\), a1\.len\)$", v) for v in newv) and any(re.match(r"^add\(1, uninit\(\d+\)\)$", v) for v in newv), "after a body match the position must advance by len and the count by 1; new values %s" % newv, loc)
    else:
        _rec(d, "loop", False, "GreedyFixed::matches_iter must have exactly one loop", b.loc())
    I = "<op_greedy_fixed::IntStepIterator as std::iter::Iterator>::next"
    ib = ctx.body(I)
    if ib is None:
        d["IntStepIterator|missing"] = [False, "IntStepIterator::next missing", None]
    else:
        for p in checked(d, "int-step", ib, ctx.walk(ib).paths):
            gs, r = summarize(p)
            loc = ib.loc(p.blocks[-1])
            down = "!lt(0, a1.step)" in gs
            up = "lt(0, a1.step)" in gs
            st = [(strip_ver(show(e[1])), strip_ver(render(e[2]))) for e in p.effects if e[0] == "store"]
            if down:
                if "lt(a1.current, a1.limit)" in gs:
                    _rec(d, "step|down-past-limit", r == "Option::None" and not st, "descending: below the limit the iterator must be exhausted", loc)
                elif "!lt(a1.current, a1.limit)" in gs:
                    _rec(d, "step|down-yield", r == "Option::Some{0: (a1.current as usize)}" and st == [("a1.current", "add(a1.current, a1.step)")], "descending: current >= limit must yield current and then move by step; found %s %s" % (r, st), loc)
                else:
                    _rec(d, "step|down-test", False, "descending step: the test must be current >= limit (inclusive); guards %s" % gs, loc)
            if up:
                if "lt(a1.limit, a1.current)" in gs:
                    _rec(d, "step|up-past-limit", r == "Option::None" and not st, "ascending: beyond the limit the iterator must be exhausted", loc)
                elif "!lt(a1.limit, a1.current)" in gs:
                    _rec(d, "step|up-yield", r == "Option::Some{0: (a1.current as usize)}" and st == [("a1.current", "add(a1.current, a1.step)")], "ascending: current <= limit must yield current and then move by step", loc)
    U = "<op_unambiguous_repeat::UnambiguousRepeat as %s>::matches_iter" % OC
    ub = ctx.body(U)
    if ub is None:
        d["Unambiguous|missing"] = [False, "UnambiguousRepeat::matches_iter missing", None]
    else:
        for p in ctx.walk(ub, max_visits=2).paths:
            if p.end != "return":
                continue
            gs, r = summarize(p)
            gs = [_sh(strip_ver(g)) for g in gs]
            r = _sh(strip_ver(r))
            loc = ub.loc(p.blocks[-1])
            ltmin = [g for g in gs if re.match(r"^!?lt\(.*, a1\.min\)$", g)]
            if not ltmin:
                _rec(d, "unamb|min-test", False, "UnambiguousRepeat must compare the number of matches with min", loc)
            elif ltmin[-1].startswith("!"):
                _rec(d, "unamb|once", r.startswith("once("), "with >= min matches exactly the furthest position is yielded; found %s" % r[:60], loc)
            else:
                _rec(d, "unamb|empty", r == "empty()", "with < min matches nothing is yielded", loc)
        loops = ub.natural_loops()
        if len(loops) == 1:
            h = next(iter(loops))
            for p in ctx.walk(ub, start_bb=h).paths:
                gs, r = summarize(p)
                gs = [_sh(strip_ver(g)) for g in gs]
                if p.end.startswith("loop"):
                    _rec(d, "unamb|bounded-by-max", any(re.match(r"^lt\(uninit\(\d+\), a1\.max\)$", g) for g in gs), "the loop must stop at max iterations", ub.loc(p.blocks[-1]))
                    newv = [strip_ver(_sh(render(v))) for l, v in p.env.items() if v != ("uninit", l) and isinstance(v, tuple)]
                    _rec(d, "unamb|advance", any(v.startswith("next(matches_iter(a1.operation, a2, uninit(") and v.endswith(" as Some.0") for v in newv) and any(re.match(r"^add\(1, uninit\(\d+\)\)$", v) for v in newv), "each match must move the position to the body's end and count 1", ub.loc(p.blocks[-1]))
    out = _emit(d)
    for o in out:
        # UnambiguousRepeat exists only as the product of an optimisation (C08), and what it takes per iteration is
        # what its operand matches - with the operand's own notion of equality under flag i (C11)
        # how often GreedyFixed evaluates its operand decides which iteration's text the operand's groups hold (C03)
        o.props = ["C02", "C01", "C20", "C08", "C11"] if o.key.startswith(("unamb|", "Unambiguous|")) else ["C02", "C01", "C20", "C03"]
    return out


@rule("ORDER-RELUCTANT", ["C02", "C01", "C20", "C06", "C19", "C03"], floor=6)
def order_reluctant(ctx):
    """ReluctantFixedIterator: the first call performs exactly min iterations (failing -> exhausted) and yields
    that position; each later call performs one more iteration while count < max (clearing the groups beyond the
    start first) and yields the new position, or is exhausted."""
    N = "<op_reluctant_fixed::ReluctantFixedIterator as std::iter::Iterator>::next"
    b = ctx.body(N)
    if b is None:
        return [missing(N)]
    d = {}
    BODY = "next(matches_iter(a1.op, a1.matcher, a1.pos))"
    for p in checked(d, "reluctant-fixed-next", b, ctx.walk(b, max_visits=1).paths):
        gs, r = summarize(p)
        gs = [_sh(strip_ver(g)) for g in gs]
        r = _sh(strip_ver(r))
        loc = b.loc(p.blocks[-1])
        st = dict((strip_ver(show(e[1])), strip_ver(_sh(render(e[2])))) for e in p.effects if e[0] == "store")
        cs = _calls(p)
        if "!a1.started" in gs:
            _rec(d, "first|marks-started", st.get("a1.started") == "true", "the first call must set started", loc)
            if "!lt(a1.count, a1.min)" in gs:
                _rec(d, "first|min-reached", r == "Option::Some{0: a1.pos}", "after min iterations the position reached is yielded; found %s" % r[:60], loc)
            elif "variant(%s)=Some" % BODY in gs:
                _rec(d, "first|iterate", p.end.startswith("loop") and st.get("a1.count") == "add(1, a1.count)" and st.get("a1.pos") == BODY + " as Some.0", "below min each body match must count 1 and move pos to its end; stores %s" % st, loc)
            elif "variant(%s)=None" % BODY in gs:
                _rec(d, "first|body-fails", r == "Option::None", "if the body fails below min the iterator is exhausted", loc)
        elif "a1.started" in gs:
            if "!lt(a1.count, a1.max)" in gs:
                _rec(d, "later|max-reached", r == "Option::None" and not [c for c in cs if c[0].endswith("matches_iter")], "at max iterations the iterator is exhausted", loc)
            elif "lt(a1.count, a1.max)" in gs:
                ci = [i for i, c in enumerate(cs) if c[0] == "clear_captured_groups_beyond"]
                mi = [i for i, c in enumerate(cs) if c[0].endswith("matches_iter")]
                _rec(d, "later|clear-then-match", bool(ci) and bool(mi) and ci[0] < mi[0] and cs[ci[0]][1] == ["a1.matcher", "a1.position"], "one more iteration: groups beyond the start are cleared, then the body is matched at pos", loc)
                if "variant(%s)=Some" % BODY in gs:
                    _rec(d, "later|one-more", r == "Option::Some{0: %s as Some.0}" % BODY and st.get("a1.count") == "add(1, a1.count)" and st.get("a1.pos") == BODY + " as Some.0", "one more body match must be yielded with count+1 and pos moved; found %s / %s" % (r[:60], st), loc)
                else:
                    _rec(d, "later|body-fails", r == "Option::None", "if the body fails the iterator is exhausted", loc)
    NW = "op_reluctant_fixed::ReluctantFixedIterator::new"
    nw = ctx.body(NW)
    if nw is not None:
        rs = {strip_ver(render(p.ret)) for p in ctx.walk(nw).paths}
        r0 = next(iter(rs))
        _rec(d, "new", all(x in r0 for x in ("count: 0", "started: false", "pos: a3", "position: a3", "min: a4", "max: a5", "op: a1", "matcher: a2")), "ReluctantFixedIterator::new initial state wrong: %s" % r0[:200], nw.loc())
    M = "<op_reluctant_fixed::ReluctantFixed as %s>::matches_iter" % OC
    mb = ctx.body(M)
    if mb is not None:
        rs = {_sh(strip_ver(render(p.ret))) for p in ctx.walk(mb).paths}
        if nw is None and len(rs) == 1 and next(iter(rs)).startswith("ReluctantFixedIterator::ReluctantFixedIterator{"):
            # the constructor written out at its only call site: the same initial state, stated on the literal
            r0 = next(iter(rs))
            good = all(x in r0 for x in ("count: 0", "started: false", "pos: a3", "position: a3", "min: a1.min", "max: a1.max", "op: a1.operation", "matcher: a2"))
            _rec(d, "new", good, "ReluctantFixedIterator initial state wrong: %s" % r0[:200], mb.loc())
            _rec(d, "matches_iter", good, "ReluctantFixed::matches_iter must start the iterator with (child, matcher, position, min, max); found %s" % r0[:200], mb.loc())
        else:
            _rec(d, "matches_iter", rs == {"ReluctantFixedIterator::new(a1.operation, a2, a3, a1.min, a1.max)"}, "ReluctantFixed::matches_iter must pass (child, matcher, position, min, max); found %s" % sorted(rs), mb.loc())
    return _emit(d)


def _stack_base_counted(b):
    """In Repeat::matches_iter: the Vec::len whose value is added to the iteration bound is taken of the iterator
    stack after the (conditional) push of the zero-occurrence entry and before the priming loop."""
    se = StaticEnv(b)
    loops = b.natural_loops()
    lens = [(bb, t) for bb, t in b.calls() if (callee(t)[1] or "").endswith("Vec::<T, A>::len") or (callee(t)[1] or "").endswith("Vec::len")]
    pushes = [bb for bb, t in b.calls() if (callee(t)[1] or "").endswith("::push") and "once(" in show(se.operand(t["args"][1]))]
    if not pushes or not loops:
        return False

    def reach(src):
        seen, st = set(), [src]
        while st:
            x = st.pop()
            for s in b.succs(x):
                if s not in seen and not b.blocks[s]["cleanup"]:
                    seen.add(s)
                    st.append(s)
        return seen

    good = []
    for bb, t in lens:
        if b.blocks[bb]["cleanup"] or "Vec::new()" not in show(se.operand(t["args"][0])):
            continue
        if any(bb in blocks for blocks in loops.values()):
            continue
        r = reach(bb)
        if any(p in r for p in pushes):
            continue  # the zero entry could be pushed after the count was taken
        if not all(h in r for h in loops) or not all(bb in reach(p) for p in pushes):
            continue
        good.append(bb)
    return len(good) == 1


def _greedy_stack_canon(s):
    """The greedy iterator's stack is two parallel vectors (iterators, positions) or one vector of entries
    {matches, position}; the clauses are stated over the former vocabulary, the latter is read into it."""
    if "a1.iterations" not in s and "GreedyIteration" not in s:
        return s
    s = re.sub(r"GreedyIteration::GreedyIteration\{matches: (.*), position: [^{}]*\}$", r"\1", s)
    s = s.replace("Option::unwrap(last_mut(a1.iterations)).matches", "Option::unwrap(last_mut(a1.iterations))")
    s = s.replace("last_mut(a1.iterations) as Some.0.matches", "last_mut(a1.iterations) as Some.0")
    s = re.sub(r"^Option::Some\{0: last\(a1\.iterations\) as Some\.0\.position\}$", "last(a1.positions)", s)
    return s.replace("a1.iterations", "a1.iterators")


@rule("REPEAT-ITER", ["C06", "C01", "C02", "C20", "C16", "C12", "C19"], floor=8)
def repeat_iter(ctx):
    """Repeat::matches_iter: the priming loop and the iterator stack are bounded by min(max, remaining+1) (the
    bound that makes the greedy repeat finite whatever its body matches); a greedy repeat is driven by
    GreedyRepeatIterator(matcher, child, ..., bound, min), a reluctant one by ReluctantRepeatIterator(matcher, child,
    position, min, max); the zero-iteration alternative (once(position), first on the stack) exists iff min == 0;
    greedy results come from the top of the position stack, exhaustion only with an empty stack, pops only after
    the top iterator is exhausted.  (The pruning devices wrapped around these iterators are the subject of
    CUT-FORCE-PROGRESS and CUT-HISTORY.)"""
    d = {}
    M = "<op_repeat::Repeat as %s>::matches_iter" % OC
    b = ctx.body(M)
    if b is None:
        return [missing(M)]
    for p in ctx.walk(b, max_visits=2).paths:
        if p.end != "return":
            continue
        gs, r = summarize(p)
        gs = [_greedy_stack_canon(_sh(strip_ver(g))) for g in gs]
        r = _greedy_stack_canon(_sh(strip_ver(r)))
        loc = b.loc(p.blocks[-1])
        if r == "empty()":
            continue
        inner = r[len("ForceProgressIterator::new("):-1] if r.startswith("ForceProgressIterator::new(") and r.endswith(")") else r
        greedy = "a1.greedy" in gs
        cs = [(c[0], [_greedy_stack_canon(x) for x in c[1]]) + tuple(c[2:]) for c in _calls(p)]
        if greedy or "!a1.greedy" in gs:
            # every repeat iterator is handed out behind the progress guard, whatever is known about the operand
            # statically (a back-reference is "not known" and matches nothing whenever its group is empty): without
            # it each level of the stack offers its zero-width alternatives again and the same position is delivered
            # once per combination - exponentially often in the remaining input
            _rec(d, "progress-guard|%s" % ("greedy" if greedy else "reluctant"), inner != r, "the repeat's iterator is handed out without ForceProgressIterator on a path (guards %s)" % [g for g in gs if "matches_empty_string" in g][:2], loc)
        if greedy:
            _rec(d, "greedy-iterator", inner.startswith("GreedyRepeatIterator::new(a2, a1.operation, "), "greedy repeat must be driven by GreedyRepeatIterator(matcher, child, ...); found %s" % r[:80], loc)
            mb = re.search(r", (Ord::m(?:ax|in)\(.*\)|[^,()]+), a1\.min\)$", inner)
            bnd = mb.group(1) if mb else "?"
            # the bound handed to the iterator is a bound on the *stack*: the bound on the iterations plus the
            # entries that are not iterations (the zero-occurrence entry), counted before the priming loop
            ms = re.search(r", add\((Ord::m(?:ax|in)\(.*\)|[^,()]+), len\(Vec::new\(\)\)\), a1\.min\)$", inner)
            if ms:
                bnd = ms.group(1)
            _rec(d, "greedy-stack-bound-counts-the-zero-entry", bool(ms) and _stack_base_counted(b), "the bound given to GreedyRepeatIterator limits the length of the iterator stack, which holds the zero-occurrence entry (min == 0) besides the iterations: it must be the iteration bound plus the number of entries on the stack before the priming loop, or backtracking allows one iteration fewer than priming ('^(?:a|ab){0,2}c' on 'abac'); found %s" % inner[-120:], loc)
            REM = "satsub(add(1, len(a2.search)), a3)"
            capped = "Ord::min(a1.max, %s)" % REM
            _rec(d, "greedy-bound-finite", bnd in (capped, "Ord::max(%s, a1.min)" % capped, "Ord::max(a1.min, %s)" % capped), "the iterator stack must be bounded by max(min, min(max, remaining input + 1)): anything larger lets iterations that match nothing pile up without end; found %s" % bnd[:120], loc)
            _rec(d, "greedy-bound-at-least-min", bnd in ("Ord::max(%s, a1.min)" % capped, "Ord::max(a1.min, %s)" % capped), "the bound on the number of iterations can be smaller than min (%s): a body that matches nothing at some position can then not be repeated min times, e.g. '(?:a|^){2}' on '' (and the empty-string guard of replace_all/tokenize, which asks the matcher, lets the pattern through)" % bnd[:100], loc)
            _rec(d, "greedy-bound-proportional-to-input", bnd == capped, "the bound on the number of iterations grows with the quantifier's minimum (%s): over a body that matches nothing at the position the repeat performs min zero-width iterations one by one - '(?:a|^){4000000000}' on 'a' runs for hours and allocates one iterator per iteration" % bnd[:100], loc)
            rng = [g for g in gs if g.startswith("variant(next(Range::Range{")]
            _rec(d, "priming-bounded", all(g.startswith("variant(next(Range::Range{start: 0, end: %s}))" % bnd) for g in rng), "the priming loop must run at most `bound` times", loc)
        elif "!a1.greedy" in gs:
            _rec(d, "reluctant-iterator", inner == "ReluctantRepeatIterator::new(a2, a1.operation, a3, a1.min, a1.max)", "reluctant repeat must be driven by ReluctantRepeatIterator(matcher, child, position, min, max); found %s" % r[:120], loc)
        z = [g for g in gs if "is_duplicate_zero_length_match" in g]
        once = [i for i, c in enumerate(cs) if c[0] == "Vec::push" and c[1][1:] == ["once(a3)"]]
        pushes = [i for i, c in enumerate(cs) if c[0] == "Vec::push" and c[1][:1] == [cs[once[0]][1][0]]] if once else []
        if greedy and "eq(0, a1.min)" in gs and not (z and not z[0].startswith("!")):
            _rec(d, "zero-iteration-offered", len(once) == 1 and pushes[0] == once[0], "with min == 0 the zero-iteration alternative once(position) must be the first (least preferred) entry of the iterator stack; pushes %s" % [c[1][1:] for c in cs if c[0] == "Vec::push"][:3], loc)
        if greedy and "!eq(0, a1.min)" in gs:
            _rec(d, "no-zero-iteration", not z and not once, "with min > 0 there is no zero-iteration alternative", loc)
    def unneeded_empty(gs):
        """the path saw the iteration end where it began (eq(next(matches_iter(.., P)) as Some.0, P)) and min reached"""
        stuck = False
        for g in gs:
            m_ = re.match(r"^eq\(next\((?:<Operation as OperationControl>::)?matches_iter\(a1\.operation, (?:a2|a1\.matcher), (uninit\(\d+\))\)\) as Some\.0, (uninit\(\d+\))\)$", g)
            if m_ and m_.group(1) == m_.group(2):
                stuck = True
        return stuck and any(re.match(r"^!lt\(.*, a1\.min\)$", g) for g in gs)
    # the priming loop goes on until the bound is reached or an iteration fails: nothing else ends it (an iteration
    # that matched nothing still counts towards min) - except that an iteration that consumed nothing needs no
    # successor once min is reached
    for h, blocks in b.natural_loops().items():
        hg = [_sh(strip_ver(g)) for g in guard_strings(b, h, ctx.senv(b))]
        if "a1.greedy" not in hg:
            continue
        for p in ctx.walk(b, start_bb=h).paths:
            if p.end.startswith("loop") or p.end != "return":
                continue
            gs = [_sh(strip_ver(g)) for g in summarize(p)[0]]
            stop = [g for g in gs if g.endswith("=None") and "next(" in g]
            _rec(d, "priming-stops-only-at-bound-or-failure", bool(stop) or unneeded_empty(gs), "the priming loop of the greedy repeat is left although the bound is not reached and the iteration matched (guards %s): iterations that are still owed to min are not made" % gs[:4], b.loc(p.blocks[-1]))
    # ... and an iteration that consumed nothing is not followed by another one once min is reached (it could only do
    # the same again: every level of the stack would offer the alternatives of the term at the same position once
    # more).  A turn that goes round again after a matched iteration must have seen progress or be below min.
    UNNEEDED = "greedy|no-iteration-after-unneeded-empty-one"

    def goes_on_blindly(gs):
        progress = any(re.match(r"^!eq\(.*next\(.*matches_iter\(.*\)\).*\)$", g) for g in gs)
        owed = any(re.match(r"^lt\(.*, a1\.min\)$", g) for g in gs)
        return not (progress or owed)
    for h, blocks in b.natural_loops().items():
        hg = [_sh(strip_ver(g)) for g in guard_strings(b, h, ctx.senv(b))]
        if "a1.greedy" not in hg:
            continue
        for p in ctx.walk(b, start_bb=h, max_visits=1).paths:
            if p.end != "loop:%d" % h:
                continue
            gs = [_sh(strip_ver(g)) for g in summarize(p)[0]]
            if any(g.endswith("=Some") and "matches_iter(" in g for g in gs):
                _rec(d, UNNEEDED, not goes_on_blindly(gs), "the priming loop of the greedy repeat starts a further iteration after one that may have consumed nothing although min is reached (no test of the position reached against the position started from): over a term that tries the empty match first the stack fills with zero-width iterations whose alternatives are all explored - '((|a)*|b)+b[b]' on 'aaaab' does not answer", b.loc(p.blocks[-1]))
    G = "<op_repeat::GreedyRepeatIterator as std::iter::Iterator>::next"
    gb = ctx.body(G)
    if gb is None:
        d["GreedyRepeat|missing"] = [False, "GreedyRepeatIterator::next missing", None]
    else:
        for h, blocks in gb.natural_loops().items():
            # the extension loop: the one whose turns begin with the test of the stack against the bound
            rp = [(p, [_greedy_stack_canon(strip_ver(g)) for g in summarize(p)[0]]) for p in ctx.walk(gb, start_bb=h, max_visits=1).paths]
            if not rp or not all(gs and gs[0].lstrip("!") == "lt(len(a1.iterators), a1.bound)" for _, gs in rp):
                continue
            for p, gs in rp:
                if p.end == "loop:%d" % h:
                    if any(g.endswith("=Some") and "matches_iter(" in g for g in gs):
                        _rec(d, UNNEEDED, not goes_on_blindly(gs), "after backtracking the greedy repeat starts a further iteration after one that may have consumed nothing although min is reached: '((|a)*|b)+b[b]' on 'aaaab' does not answer", gb.loc(p.blocks[-1]))
                    continue
                stop = gs[0].startswith("!") or (len(gs) > 1 and gs[1].endswith("=None") and "matches_iter(" in gs[1])
                _rec(d, "greedy|extension-stops-only-at-bound-or-failure", stop or unneeded_empty(gs), "after backtracking the greedy repeat stops adding iterations although the stack is below its bound and the iteration matched (guards %s)" % gs[:3], gb.loc(p.blocks[-1]))
        for p in checked(d, "greedy-repeat-next", gb, ctx.walk(gb, max_visits=1).paths, only=lambda p: p.end == "return"):
            gs, r = summarize(p)
            gs = [_greedy_stack_canon(strip_ver(g)) for g in gs]
            r = _greedy_stack_canon(strip_ver(r))
            loc = gb.loc(p.blocks[-1])
            if p.end != "return":
                continue
            if r == "Option::None":
                # the stack is known to be empty: by its length, or because its top does not exist
                _rec(d, "greedy|none-when-empty", any(g in ("eq(0, len(a1.iterators))", "variant(last_mut(a1.iterators))=None", "variant(last(a1.iterators))=None", "variant(Vec::pop(a1.iterators))=None") for g in gs), "GreedyRepeatIterator reports exhaustion while iterators remain (guards %s)" % gs[-2:], loc)
            else:
                _rec(d, "greedy|yield-top-position", r in ("Option::copied(last(a1.positions))", "last(a1.positions)"), "the greedy repeat must yield the top of its position stack; found %s" % r[:80], loc)
        # a further iteration is started only while the stack is below its bound, from the position just reached
        for bb, t_, rr in call_sites(gb, lambda r: r.endswith("::matches_iter")):
            g = [_greedy_stack_canon(strip_ver(x)) for x in guard_strings(gb, bb, ctx.senv(gb))]
            _rec(d, "greedy|extension-bounded", "lt(len(a1.iterators), a1.bound)" in g, "GreedyRepeatIterator::next starts a further iteration without testing the stack against its bound (guards %s)" % g[-3:], gb.loc(bb))
        # pops only after the top iterator is exhausted
        for bb, t, rr in call_sites(gb, lambda r: r.endswith("::pop")):
            g = guard_strings(gb, bb, ctx.senv(gb))
            if _greedy_stack_canon(strip_ver(show(ctx.senv(gb).operand(t["args"][0])))) == "a1.iterators":
                _rec(d, "greedy|pop-after-exhaustion", any(x.endswith("=None") and "next(" in x for x in g), "an iterator is popped from the greedy stack before it is exhausted", gb.loc(bb))
    out = _emit(d)
    for i_ in out:
        if i_.key in ("greedy-bound-proportional-to-input", "greedy|no-iteration-after-unneeded-empty-one") or i_.key.startswith("progress-guard|"):
            i_.props = ["C06"]
        elif i_.key in ("priming-stops-only-at-bound-or-failure", "greedy-bound-at-least-min", "greedy|extension-stops-only-at-bound-or-failure"):
            # a counted back-reference to an unset or empty group (`\1{2}`) matches by min iterations that consume
            # nothing: reaching the minimum whatever the iterations consume is part of "matches the empty string"
            i_.props = ["C06", "C01", "C02", "C20", "C16", "C12", "C19"]
    return out


# ------------------------------------------------------------------ loop variants (A10)


def _field_names(e):
    out = set()
    for x in subexprs(e):
        if x[0] == "field":
            out.add(x[2])
        if x[0] in ("var", "argvar"):
            out.add("local:%d" % x[1])
    return out


def stagnant_loops(ctx, b):
    """[(header, cycle blocks)] natural loops that have a cycle along which no exit condition can change."""
    se = ctx.senv(b)
    res = []
    loops = b.natural_loops()
    for h, blocks in loops.items():
        # exit edges and the places their conditions read
        reads = set()
        cond_calls = set()
        for s in blocks:
            t = b.blocks[s]["term"]
            if t["k"] != "switch":
                continue
            if all(x in blocks for x in b.succs(s)):
                # not an exit itself, but it may decide which exit is reached: include as well
                pass
            e = se.switch_expr(s)
            reads |= _field_names(e)
            for x in subexprs(e):
                if x[0] in ("call", "callv"):
                    cond_calls.add(x[1] if x[0] == "call" else "?")
        # blocks that change something the conditions read
        writers = set()
        for s in blocks:
            blk = b.blocks[s]
            for st in blk["stmts"]:
                if st["k"] != "assign":
                    continue
                pl = st["place"]
                if pl["p"]:
                    for e in pl["p"]:
                        if isinstance(e, dict) and "f" in e and e["f"] in reads:
                            writers.add(s)
                else:
                    if ("local:%d" % pl["l"]) in reads:
                        writers.add(s)
            t = blk["term"]
            if t["k"] == "call":
                d_, r_, fn = callee(t)
                # a call that takes &mut to something, or whose result feeds a condition: iterators advance, stacks change
                takes_mut = False
                for a in t["args"]:
                    if a["k"] in ("copy", "move") and not a["place"]["p"] and strip_lt(b.locals[a["place"]["l"]]["ty"]).startswith("&mut "):
                        # which object? the receiver's root field/local
                        v = se.operand(a)
                        names = _field_names(v)
                        if not names or names & reads or any(n.startswith("local:") for n in names):
                            takes_mut = True
                        # a local iterator created inside the loop body does not count
                        root = v
                        if v[0] == "call":
                            takes_mut = False
                if takes_mut:
                    writers.add(s)
                if not t["dest"]["p"] and ("local:%d" % t["dest"]["l"]) in reads:
                    writers.add(s)
                if r_ is not None and r_ in ctx.mutators() and any("RefCell" in x or True for x in [r_]):
                    # matcher state changes are not loop variants of these loops
                    pass
        # cycle through h avoiding writers?
        if h in writers:
            continue
        keep = blocks - writers
        # DFS from h's successors within keep back to h
        stack = [x for x in b.succs(h) if x in keep]
        seen = set()
        found = False
        while stack:
            x = stack.pop()
            if x == h:
                found = True
                break
            if x in seen:
                continue
            seen.add(x)
            for y in b.succs(x):
                if y in keep or y == h:
                    stack.append(y)
        if found and _confirm_stagnant(ctx, b, h, reads):
            res.append((h, sorted(seen)))
    return res


def _confirm_stagnant(ctx, b, h, reads):
    """Path-sensitive confirmation: some feasible single turn of the loop returns to the header having written
    nothing the conditions read and advanced no iterator/stack (opaque-atom refinement removes turns whose
    guards contradict each other)."""
    w = ctx.walk(b, start_bb=h, max_visits=1)
    for p in w.paths:
        if p.end != "loop:%d" % h:
            continue
        changed = False
        for e in p.effects:
            if e[0] == "store":
                names = _field_names(e[1])
                if names & reads or not names:
                    changed = True
            elif e[0] == "call":
                # any call handing out &mut access advances something (iterator, vector, matcher cursor)
                nm = e[1]
                if nm.endswith("::next") or nm == "next" or nm.endswith("::push") or nm.endswith("::pop") or nm.endswith("::insert") or nm.endswith("::remove"):
                    # an iterator created in this very turn does not count
                    a0 = e[2][0] if e[2] else None
                    if a0 is not None and a0[0] == "call" and ("matches_iter" in a0[1] or "iter" == a0[1]):
                        continue
                    changed = True
        for l, v in p.env.items():
            if ("local:%d" % l) in reads and v != ("uninit", l):
                changed = True
        if not changed:
            return True
    return False


@rule("LOOP-VARIANT", ["C06", "C01"], floor=25)
def loop_variant(ctx):
    """Every cycle of every loop in an API-reachable function writes something one of the loop's conditions
    reads (a counter, a cursor, an iterator, a stack): no cycle on which no exit condition can ever change."""
    out = []
    reach = ctx.api_reachable()
    for b in ctx.f.bodies:
        if b.from_expansion or b.path not in reach:
            continue
        loops = b.natural_loops()
        if not loops:
            continue
        ctx.body(b.path)
        bad_ = dict(stagnant_loops(ctx, b))
        for i, h in enumerate(sorted(loops)):
            key = "%s|loop#%d" % (b.path, i)
            if h in bad_:
                out.append(bad(key, "loop at %s has a cycle (blocks %s) along which nothing that its exit conditions read is written: it can spin forever without consuming input" % (b.loc(h), bad_[h][:8]), b.loc(h)))
            else:
                out.append(ok(key))
    return out


@rule("RECURSION-SCC", ["C06", "C05"], floor=8)
def recursion_scc(ctx):
    """The recursive strongly connected components of the call graph are exactly the audited ones (each with a
    measure); a new recursive cycle is reported. Recursion whose depth follows the nesting of the pattern carries
    no depth limit (known finding F18: stack overflow on ~20 000 nested parentheses)."""
    audited = {
        "parser": ({"re_compiler::ReCompiler::piece", "re_compiler::ReCompiler::parse_branch", "re_compiler::ReCompiler::parse_expr", "re_compiler::ReCompiler::parse_terminal"}, "a '(' is consumed between parse_expr entry and the recursive parse_branch call", True),
        "class": ({"re_compiler::ReCompiler::parse_character_class"}, "'-[' is consumed before the recursive call", True),
        "precondition": ({"re_program::ReProgram::add_precondition", "re_program::ReProgram::add_repeat_precondition"}, "structural on the operation tree", True),
        "group-alternatives": ({"re_compiler::ReCompiler::alternatives_set_groups"}, "every recursive call is on a member of children() of the argument (FIXED-SINGLE-WAY predicate clause): structural on the operation tree, as deep as the pattern nests", True),
        "builder-union": ({"character_class::CharacterClassBuilder::union"}, "(list, char) swaps to the non-recursive (char, list) arm", False),
        "builder-complement": ({"character_class::CharacterClassBuilder::complement"}, "Char arm recurses on a Char: unreachable, complement() is only called on inversion-list builders (CLASS-COMPLEMENT-RECEIVER)", False),
        "builder-build": ({"character_class::CharacterClassBuilder::build"}, "Char arm recurses on a Char: unreachable, build() is only called on inversion-list builders (CLASS-COMPLEMENT-RECEIVER)", False),
    }
    structural_methods = ("get_match_length", "get_minimum_match_length", "matches_empty_string", "get_initial_character_class", "optimize", "contains_capturing_expressions", "matches_iter", "children", "next", "next_branch", "new")
    out = []
    found = []
    for comp in ctx.cg.sccs():
        if len(comp) == 1 and comp[0] not in ctx.cg.edges.get(comp[0], ()):
            continue
        found.append(set(comp))
    for comp in found:
        names = {c.split("::{closure")[0] for c in comp}
        user = {n for n in names if ctx.f.body(n) is not None and not ctx.f.body(n).from_expansion}
        if not user:
            continue
        hit = None
        for k, (members, why, deep) in audited.items():
            if user == members:
                hit = k
        if hit:
            i_ = ok("scc|" + hit)
            i_.optional = True  # a recursion that was removed cannot harm termination
            out.append(i_)
            continue
        # structural recursion over the Operation tree through the trait (incl. the iterator web)
        if all(any(("::" + m) in n or n.endswith("::" + m) for m in structural_methods) for n in user) and all(("OperationControl" in n or "Iterator" in n or "Iterator::new" in n or n.split("::")[-2].endswith("Iterator")) for n in user):
            kind = sorted({n.split("::")[-1] for n in user})
            out.append(ok("scc|operation-tree|" + ",".join(kind)[:60]))
            continue
        out.append(bad("scc|new|" + sorted(user)[0], "new recursive cycle in the call graph, not in the audited set: %s" % sorted(user)[:4], ctx.f.body(sorted(user)[0]).loc()))
    # (an audited component that no longer exists is not reported: removing a recursion cannot harm termination or the
    # stack; a component that changed its members shows up above as a new one)
    # receiver check for the two unconditional self-recursions
    ILB = ("CharacterClassBuilder::CodePointInversionListBuilder{", "CharacterClassBuilder::from_str(", "CharacterClassBuilder::union(", "CharacterClassBuilder::complement(", "CharacterClassBuilder::difference(", "conv<", "try(ReCompiler::parse_character_class", "as CharacterClass.0")

    def returners():
        """Short names of the crate's functions that hand out a CharacterClassBuilder (or a Result of one) which on
        every path is the inversion-list representation - least fixpoint, a function that returns what another such
        function returned included."""
        cands = {}
        for x in ctx.f.bodies:
            if x.kind == "Closure" or "CharacterClassBuilder" not in strip_lt(x.locals[0]["ty"]) or x.path.startswith("character_class::CharacterClassBuilder::"):
                continue
            rets = []
            for w in ctx.walk(x).paths:
                r = strip_ver(render(w.ret))
                if r.startswith("propagate(") or r.startswith("Result::Err{"):
                    continue
                m_ = re.match(r"^Result::Ok\{0: (.*)\}$", r)
                rets.append(m_.group(1) if m_ else r)
            cands[x.path] = rets
        good = set()
        changed = True
        while changed:
            changed = False
            for pth, rets in cands.items():
                nm = pth.split("::")[-1]
                if nm in good or not rets:
                    continue
                if all(any(k in r for k in ILB) or any(re.match(r"^(try\()?(\w+::)*%s\(" % re.escape(g), r) for g in good) for r in rets):
                    good.add(nm)
                    changed = True
        return good
    ret_ilb = ctx.cached(("ilb-returners",), returners)
    for m in ("complement", "build"):
        P = "character_class::CharacterClassBuilder::" + m
        n_ok = n_all = 0
        for caller, bb in ctx.cg.sites.get(P, []):
            if caller.path == P:
                continue
            n_all += 1
            se = ctx.senv(caller if caller.parent is None else caller.parent)
            v = se.operand(caller.blocks[bb]["term"]["args"][0]) if caller.parent is None else None
            s = show(v) if v else ""
            if "CharacterClassBuilder::CodePointInversionListBuilder{" in s or "CharacterClassBuilder::from_str(" in s or "CharacterClassBuilder::union(" in s or "CharacterClassBuilder::complement(" in s or "CharacterClassBuilder::difference(" in s or "conv<" in s or "try(ReCompiler::parse_character_class" in s or "as CharacterClass.0" in s or "uninit" in s or "v" == s[:1] or any(re.match(r"^(try\()?(\w+::)*%s\(" % re.escape(g), s) for g in ret_ilb):
                n_ok += 1
            else:
                out.append(bad("receiver|%s|%s" % (m, caller.path), "%s() is called on %s, which may be the Char representation: unconditional self-recursion (stack overflow)" % (m, s[:80]), caller.loc(bb)))
        if n_all:
            out.append(ok("receiver|%s|%d-sites" % (m, n_all)) if n_ok == n_all else bad("receiver|%s" % m, "not all receivers of %s() are provably inversion-list builders" % m, None))
    return out


@rule("RECURSION-DEPTH", ["C05"], floor=1)
def recursion_depth(ctx):
    """Recursion whose depth is the nesting depth of the pattern (parser, optimize, matches_iter construction, drop)
    carries no depth counter: a deeply nested pattern overflows the stack."""
    P = "re_compiler::ReCompiler::parse_expr"
    b = ctx.body(P)
    if b is None:
        return [missing(P)]
    # a depth guard would be a comparison of a counter field/argument that dominates the recursive parse_branch call and leads to Err
    guards = set()
    for bb, t, r in call_sites(b, lambda r: r == "re_compiler::ReCompiler::parse_branch"):
        guards |= guard_strings(b, bb, ctx.senv(b))
    depthy = [g for g in guards if re.search(r"depth|nest|level", g)]
    if depthy:
        return [ok("parser-depth-guard")]
    return [bad("parser-depth-unbounded", "parse_expr -> parse_branch -> piece -> parse_terminal -> parse_expr recurses once per '(' with no depth limit: ~20 000 nested parentheses overflow the stack (abort, not an Err)", b.loc())]
