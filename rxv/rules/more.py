"""Further structural rules: matches_empty_string table, check_preconditions, parse_atom, parse_branch,
Sequence::optimize arms."""
import re
from ..engine import rule, ok, bad, missing
from ..table import render, summarize, strip_ver
from ..sym import show
from ..facts import callee, strip_lt
from ..dom import call_sites, guard_strings

OC = "operation::OperationControl"
RC = "re_compiler::ReCompiler::"


def _sh(s):
    s = s.replace("ReCompiler::", "").replace("<Operation as OperationControl>::", "").replace("ReMatcher::", "")
    return re.sub(r"conv<<Operation as From<op_[a-z_]*::[A-Za-z]*>>::from>", "op", s)


from ..engine import rec as _rec, emit as _emit, checked  # noqa: E402




@rule("MES-TABLE", ["C08", "C20", "C01", "C12", "C06"], floor=12)
def mes_table(ctx):
    """matches_empty_string(): NEVER (1024) must mean never and ANYWHERE (7) anywhere, because the quantifier
    lowering, the no-backtracking rewrite and the first-set cut rely on them: Bol AT_START(1), Eol AT_END(2),
    Nothing/EndProgram ANYWHERE, CharClass NEVER, Atom ANYWHERE iff empty else NEVER, BackReference unknown (0),
    repeat family ANYWHERE iff min == 0 else the child's, Capture the child's; Sequence NEVER only because of a
    NEVER operand and ANYWHERE only if all operands are; Choice never answers NEVER."""
    d = {}
    leaf = {"Bol": {"1"}, "Eol": {"2"}, "Nothing": {"7"}, "EndProgram": {"7"}, "CharClass": {"1024"}, "BackReference": {"0"}}
    seen = set()
    for b in [x for x in ctx.f.bodies if x.impl_trait == OC and x.name == "matches_empty_string" and not x.from_expansion]:
        key = b.impl_self.split("::")[-1]
        if key == "Operation":
            continue
        ctx.body(b.path)
        seen.add(key)
        rows = []
        for p in ctx.walk(b, max_visits=1).paths:
            gs, r = summarize(p)
            rows.append(([_sh(strip_ver(g)) for g in gs], _sh(strip_ver(r)), p))
        if key in leaf:
            rs = {r for _, r, _ in rows}
            _rec(d, key, rs == leaf[key], "%s::matches_empty_string must be %s; found %s" % (key, sorted(leaf[key]), sorted(rs)), b.loc())
        elif key == "Atom":
            good = True
            for gs, r, p in rows:
                if "eq(0, a1.len)" in gs or "eq(a1.len, 0)" in gs:
                    good = good and r == "7"
                else:
                    good = good and r == "1024"
            _rec(d, key, good and len(rows) == 2, "Atom::matches_empty_string must be ANYWHERE for the empty atom and NEVER otherwise", b.loc())
        elif key in ("Repeat", "GreedyFixed", "ReluctantFixed", "UnambiguousRepeat"):
            good = True
            for gs, r, p in rows:
                if "eq(0, a1.min)" in gs or "eq(a1.min, 0)" in gs:
                    good = good and r == "7"
                else:
                    good = good and r == "matches_empty_string(a1.operation)"
            _rec(d, key, good and len(rows) == 2, "%s::matches_empty_string must be ANYWHERE iff min == 0, otherwise the child's" % key, b.loc())
        elif key == "Capture":
            _rec(d, key, {r for _, r, _ in rows} == {"matches_empty_string(a1.child_op)"}, "Capture::matches_empty_string must be its child's", b.loc())
        elif key == "Choice":
            # an accumulation over the branches from 0: a branch that answers NEVER leaves the accumulator alone, any
            # other answer is OR-ed in (read as a loop, however it is spelt: a for loop, fold, filter + fold)
            from ..lockstep import accumulation
            A = accumulation(ctx, b)
            M = "matches_empty_string(a1.branches[k])"
            goodc = A is not None and A["seq"] == "0..len(a1.branches)" and A["init"] == "0" and bool(A["turns"])
            why = "" if goodc else "not an accumulation over all branches from 0: %s" % (A and {k_: A[k_] for k_ in ("seq", "init")})
            if goodc:
                for gs_, nv in A["turns"]:
                    gs_ = [_sh(g) for g in gs_]
                    nv = _sh(nv) if nv else nv
                    never = any(g in ("eq(%s, 1024)" % M, "eq(1024, %s)" % M) for g in gs_)
                    notnever = any(g in ("!eq(%s, 1024)" % M, "!eq(1024, %s)" % M) for g in gs_)
                    if never:
                        goodc = goodc and nv is None
                    elif notnever:
                        goodc = goodc and nv in ("bitor(%s, ACC)" % M, "bitor(ACC, %s)" % M)
                    else:
                        goodc = False
                    if not goodc and not why:
                        why = "a turn with guards %s leaves the accumulator %s" % (gs_, nv)
            _rec(d, key, goodc, "Choice::matches_empty_string must OR the non-NEVER answers of its branches from 0 (so it never claims NEVER): %s" % why, b.loc())
        elif key == "Sequence":
            # every return of NEVER is justified by an operand's NEVER on that path; ANYWHERE only after all were ANYWHERE
            w = ctx.walk(b, max_visits=2)
            good = True
            why = ""
            for p in w.paths:
                if p.end != "return":
                    continue
                gs, r = summarize(p)
                gs = [_sh(strip_ver(g)) for g in gs]
                r = _sh(strip_ver(r))
                if r == "1024":
                    if not any(re.match(r"^eq\(1024, matches_empty_string\(.* as Some\.0\)\)$|^eq\(matches_empty_string\(.* as Some\.0\), 1024\)$|^matches_empty_string\(.* as Some\.0\)=1024$", g) for g in gs):
                        good, why = False, "NEVER is answered without an operand that answers NEVER"
                elif r == "7":
                    if any(re.match(r"^!eq\(7, matches_empty_string\(", g) or re.match(r"^!eq\(matches_empty_string\(.*\), 7\)$", g) or re.match(r"^matches_empty_string\(.*\)=(?!7$)", g) for g in gs):
                        good, why = False, "ANYWHERE is answered although an operand is not ANYWHERE"
            _rec(d, key, good, "Sequence::matches_empty_string: %s" % why, b.loc())
        else:
            _rec(d, "unknown|" + key, False, "%s implements matches_empty_string; not in the table" % key, b.loc())
    for k in list(leaf) + ["Atom", "Repeat", "GreedyFixed", "ReluctantFixed", "UnambiguousRepeat", "Capture", "Choice", "Sequence"]:
        if k not in seen:
            d[k + "|missing"] = [False, "%s::matches_empty_string missing" % k, None]
    # the constants themselves
    for nm, val in (("MATCHES_ZLS_AT_START", 1), ("MATCHES_ZLS_AT_END", 2), ("MATCHES_ZLS_ANYWHERE", 7), ("MATCHES_ZLS_NEVER", 1024)):
        c = ctx.body("operation::" + nm)
        if c is None:
            d["const|" + nm] = [False, "constant %s missing" % nm, None]
        else:
            from ..sym import StaticEnv

            v = StaticEnv(c, ctx.f).local_value(0)
            _rec(d, "const|" + nm, v == ("const", "int", val), "%s must be %d (AT_START and AT_END are bits of ANYWHERE; NEVER is disjoint); found %s" % (nm, val, show(v)), c.loc())
    return _emit(d)


@rule("PRECOND-CHECK", ["C08", "C01", "C20", "C05", "C16", "C06", "C13", "C12", "C02"], floor=4)
def precond_check(ctx):
    """check_preconditions: a precondition with a fixed position must match exactly there; one without must match at
    some position from max(start, min_position) to the end of input; any failure answers false, all satisfied true."""
    P = "re_matcher::ReMatcher::check_preconditions"
    b = ctx.body(P)
    if b is None:
        return [missing(P)]
    d = {}
    loops = b.natural_loops()
    if not loops:
        return [bad("loop", "check_preconditions has no loop", b.loc())]
    outer = max(loops, key=lambda x: len(loops[x]))
    for p in checked(d, "check_preconditions", b, ctx.walk(b, start_bb=outer, max_visits=1).paths, only=lambda p: p.end == "return"):
        gs, r = summarize(p)
        gs = [_sh(strip_ver(g)) for g in gs]
        r = _sh(strip_ver(r))
        loc = b.loc(p.blocks[-1])
        nx = [g for g in gs if g.endswith("=Some") and g.startswith("variant(<Iter<T> as Iterator>::next(")]
        if not nx:
            if p.end == "return":
                _rec(d, "all-satisfied", r == "true", "when every precondition held the answer must be true", loc)
            continue
        PC = nx[0][len("variant("):-len(")=Some")] + " as Some.0"
        fixed = [g for g in gs if g.startswith("variant(%s.fixed_position)" % PC)]
        if not fixed:
            _rec(d, "fixed-test", False, "a precondition is evaluated without looking at its fixed position", loc)
            continue
        if fixed[0].endswith("=Some"):
            probe = "next(matches_iter(%s.operation, a1, %s.fixed_position as Some.0))" % (PC, PC)
            t = [g for g in gs if g.lstrip("!") in ("isSome(%s)" % probe, "variant(%s)" % probe) or g.lstrip("!").startswith("isSome(%s)" % probe) or g.startswith("variant(%s)=" % probe)]
            FX = "%s.fixed_position as Some.0" % PC
            beyond = [g for g in gs if g.lstrip("!") == "lt(len(a1.search), %s)" % FX]
            if beyond and not beyond[0].startswith("!"):
                # the position lies beyond the input: nothing can match there
                _rec(d, "fixed|beyond-input-false", p.end == "return" and r == "false" and not t, "a fixed position beyond the end of the input must answer false without probing", loc)
                continue
            if t:
                _rec(d, "fixed|position-within-input", bool(beyond) and beyond[0].startswith("!"), "the fixed position (a sum of match lengths, possibly saturated) is handed to matches_iter without a test against the input length: the operators assume position <= len(search) (e.g. Atom computes position + len: '^(?:a{9223372036854775808}|b{9223372036854775808}){2}c' panics with an overflow)", loc)
            if not t:
                _rec(d, "fixed|probe", False, "a fixed-position precondition must be probed at its fixed position; guards %s" % gs[2:3], loc)
            else:
                failed = t[0].startswith("!") or t[0].endswith("=None")
                if failed:
                    _rec(d, "fixed|failure-false", p.end == "return" and r == "false", "a precondition that fails at its fixed position must answer false", loc)
                else:
                    _rec(d, "fixed|success-continues", p.end.startswith("loop"), "a satisfied precondition must move on to the next one", loc)
        else:
            rng = [g for g in gs if g.startswith("variant(next(Range::Range{start: ")]
            anyf = [g for g in gs if g.lstrip("!").startswith("Iterator::any(Range::Range{start: ")]
            if not rng and anyf:
                # the search written as `(lo..len).any(|j| op.matches_iter(self, j).next().is_some())`
                ma = re.match(r"^(!?)Iterator::any\(Range::Range\{start: (.*), end: (.*)\}, closure ([^\[]*)\[(.*), a1\]\)$", anyf[0])
                lo = [g for g in gs if g.lstrip("!") == "lt(a2, %s.min_position)" % PC]
                want_start = ("%s.min_position" % PC) if (lo and not lo[0].startswith("!")) else ("a2" if lo else None)
                if ma is not None and ma.group(2) in ("Ord::max(a2, %s.min_position)" % PC, "Ord::max(%s.min_position, a2)" % PC):
                    want_start = ma.group(2)  # max(start, min_position) computed rather than branched on
                _rec(d, "floating|range-bounds", ma is not None and want_start is not None and ma.group(2) == want_start and ma.group(3) == "len(a1.search)" and ma.group(5) == PC, "the search for a floating precondition must range over max(start, min_position)..len; found %s" % anyf[0][:160], loc)
                cb = ctx.body("re_matcher::ReMatcher::check_preconditions::{closure#0}")
                crs = set()
                if cb is not None:
                    for q in ctx.walk(cb).paths:
                        qg, qr = summarize(q)
                        crs.add(_sh(strip_ver(qr)))
                probe = "isSome(next(matches_iter(a1.0.operation, a1.1, a2)))"
                _rec(d, "floating|probe-each-position", crs and crs <= {probe, "false"} and probe in crs, "each position of the range must be probed with the precondition's operation; the predicate returns %s" % sorted(crs), loc)
                if ma and ma.group(1) == "!":
                    _rec(d, "floating|not-found-false", p.end == "return" and r == "false", "a floating precondition found nowhere must answer false", loc)
                continue
            if not rng:
                _rec(d, "floating|range", False, "a floating precondition must be searched over a range of positions", loc)
                continue
            m = re.match(r"^variant\(next\(Range::Range\{start: (.*), end: (.*)\}\)\)=(Some|None)$", rng[0])
            lo = [g for g in gs if g.lstrip("!") == "lt(a2, %s.min_position)" % PC]
            want_start = None
            if lo and not lo[0].startswith("!"):
                want_start = "%s.min_position" % PC
            elif lo:
                want_start = "a2"
            if m is not None and m.group(1) in ("Ord::max(a2, %s.min_position)" % PC, "Ord::max(%s.min_position, a2)" % PC):
                want_start = m.group(1)
            _rec(d, "floating|range-bounds", m is not None and want_start is not None and m.group(1) == want_start and m.group(2) == "len(a1.search)", "the search for a floating precondition must range over max(start, min_position)..len; found %s" % rng[0][13:110], loc)
            if m and m.group(3) == "None":
                _rec(d, "floating|not-found-false", p.end == "return" and r == "false", "a floating precondition found nowhere must answer false", loc)
    for k in ("all-satisfied", "fixed|failure-false", "floating|range-bounds", "floating|not-found-false"):
        if k not in d:
            d[k] = [False, "check_preconditions lost its %s clause" % k, b.loc()]
    # An empty Atom (the literal program of pattern "" under flag q) can be a precondition; the floating search
    # ranges below len(search) and would miss it at the end of the input.  That is harmless only because literal
    # programs always carry a prefix and preconditions are not consulted on the prefix-driven scan.
    mb = ctx.body("re_matcher::ReMatcher::matches")
    ap = ctx.body("re_program::ReProgram::add_precondition")
    if mb is None or ap is None:
        _rec(d, "empty-atom-precondition-harmless", False, "ReMatcher::matches or ReProgram::add_precondition missing", None)
    else:
        from ..dom import call_sites, guard_strings
        sites = call_sites(mb, lambda r: r.endswith("::check_preconditions"))
        if not sites:
            _rec(d, "empty-atom-precondition-harmless", False, "matches() no longer consults the preconditions (re-audit)", mb.loc())
        for bb, t_, r_ in sites:
            g = [strip_ver(x) for x in guard_strings(mb, bb, ctx.senv(mb))]
            okk = "variant(a1.program.prefix)=None" in g or any(x.startswith("eq(bitand(2, a1.program.optimization_flags), 2)") for x in g)
            _rec(d, "empty-atom-precondition-harmless", okk, "check_preconditions is consulted on a path where the program may be a literal one (prefix present): the empty atom of pattern \"\" under flag q is then 'not found' on the empty input, the regex is taken for non-nullable and tokenize never ends (guards %s)" % g[:4], mb.loc(bb))
    return _emit(d)


@rule("PARSE-ATOM", ["C07", "C20", "C01"], floor=6)
def parse_atom(ctx):
    """parse_atom: characters are appended to the literal until a terminator ] . [ ( ) | or a quantifier; a character
    directly followed by a quantifier ends the atom *before* it when the atom is non-empty (the quantifier binds to
    that character only); a quantifier with an empty atom and a bare '}' are Error::Syntax; a single-character escape
    contributes its character, any other escape ends the atom."""
    b = ctx.body(RC + "parse_atom")
    if b is None:
        return [missing(RC + "parse_atom")]
    d = {}
    loops = b.natural_loops()
    if not loops:
        return [bad("loop", "parse_atom has no loop", b.loc())]
    h = max(loops, key=lambda x: len(loops[x]))
    P = "′"
    for p in ctx.walk(b, start_bb=h, max_visits=1).paths:
        gs, r = summarize(p)
        gs = [_sh(g) for g in gs]
        r = _sh(r)
        loc = b.loc(p.blocks[-1])
        pushes = [e for e in p.effects if e[0] == "call" and e[1].endswith("::push")]
        cur = None
        esc_la = any(g == "eq('\\', a1.pattern[a1.idx])" for g in gs)
        for g in gs:
            # the current character is pattern[idx] with idx at its value on entry of this turn (escape() look-ahead
            # moves idx and restores it; escape() never writes the pattern)
            m = re.match(r"(?s)^a1%s*\.pattern\[a1\.idx\]=(?:'(.)'|other)$" % P, g)
            if m:
                cur = m.group(1) or "other"
        if esc_la and cur is not None and cur != "\\":
            continue  # contradicts the established pattern[idx] == backslash (escape() does not modify the pattern)
        la = [g for g in gs if re.match(r"(?s)^a1%s*\.pattern\[add\(1, a1%s*\.idx\)\]=" % (P, P), g)]
        if esc_la:
            la = [g for g in gs if re.match(r"(?s)^a1%s+\.pattern\[a1%s+\.idx\]=" % (P, P), g)]
        lenatom = [g for g in gs if re.match(r"^!?eq\(0, uninit\(\d+\)\)$|^!?eq\(uninit\(\d+\), 0\)$", g)]
        # quantifier look-ahead binding
        if la and re.search(r"='[\{\?\*\+]'$", la[0]) and lenatom and lenatom[0].startswith("!"):
            _rec(d, "lookahead-quantifier-ends-atom", not pushes and not p.end.startswith("loop"), "a character followed by a quantifier must not be appended to a non-empty atom (the quantifier binds to that character alone)", loc)
            continue
        if cur is None:
            continue
        if cur in "].[()|":
            _rec(d, "terminator|%s" % cur, not pushes and not p.end.startswith("loop") and not r.startswith("Result::Err{0: Error::syntax("), "'%s' must end the atom" % cur, loc)
        elif cur in "{?*+":
            if lenatom and not lenatom[-1].startswith("!"):
                _rec(d, "quantifier-without-operand", r.startswith("Result::Err{0: Error::syntax("), "a quantifier with an empty atom must be Error::Syntax", loc)
            elif lenatom:
                _rec(d, "quantifier-ends-atom", not pushes and not p.end.startswith("loop"), "a quantifier must end the atom", loc)
        elif cur == "}":
            _rec(d, "bare-closing-brace", r.startswith("Result::Err{0: Error::syntax("), "an unescaped '}' must be Error::Syntax", loc)
        elif cur == "\\":
            v = [g for g in gs if g.startswith("variant(try(escape(a1")]
            if r.startswith("propagate("):
                continue
            if any(g.endswith("=Char") for g in gs):
                _rec(d, "escape|char-appended", len(pushes) == 1 and p.end.startswith("loop"), "a single-character escape must append its character", loc)
            elif p.end != "return" or not r.startswith("Result::Err"):
                st = dict((strip_ver(show(e[1])), strip_ver(render(e[2]))) for e in p.effects if e[0] == "store")
                _rec(d, "escape|other-ends-atom", not pushes and st.get("a1.idx") in ("a1.idx",) and not p.end.startswith("loop"), "a class escape / back-reference must end the atom with the cursor restored to the backslash; idx=%s" % st.get("a1.idx"), loc)
        elif cur == "other":
            if pushes:
                a = strip_ver(render(pushes[0][2][1]))
                _rec(d, "ordinary-char-appended", a == "a1.pattern[a1.idx]" and p.end.startswith("loop"), "an ordinary character must be appended as itself; pushed %s" % a, loc)
    # the atom returned is the collected characters; an empty collection is the (audited) Internal error
    for p in ctx.walk(b, max_visits=1).paths:
        gs, r = summarize(p)
        r = _sh(strip_ver(r))
        if p.end == "return" and r.startswith("Result::Ok"):
            _rec(d, "returns-atom", r.startswith("Result::Ok{0: op(Atom::new(Vec::new()"), "parse_atom must return Atom::new(collected characters); found %s" % r[:80], b.loc(p.blocks[-1]))
    for k in ("lookahead-quantifier-ends-atom", "quantifier-without-operand", "bare-closing-brace", "ordinary-char-appended", "escape|char-appended", "returns-atom"):
        if k not in d:
            d[k] = [False, "parse_atom lost its %s clause" % k, b.loc()]
    return _emit(d)


@rule("PARSE-BRANCH", ["C07", "C20", "C02", "C01"], floor=3)
def parse_branch(ctx):
    """parse_branch: pieces are parsed while the next character is neither '|' nor ')' and concatenated left to
    right (make_sequence(current, piece)); an empty branch is Nothing."""
    b = ctx.body(RC + "parse_branch")
    if b is None:
        return [missing(RC + "parse_branch")]
    d = {}
    loops = b.natural_loops()
    if len(loops) != 1:
        return [bad("loop", "parse_branch must have exactly one loop", b.loc())]
    h = next(iter(loops))
    for p in checked(d, "parse_branch", b, ctx.walk(b, start_bb=h, max_visits=1).paths, only=lambda p: p.end.startswith("loop") or (p.end == "return" and p.ret is not None and "Ok" in str(p.ret)[:40])):
        gs, r = summarize(p)
        gs = [_sh(strip_ver(g)) for g in gs]
        r = _sh(strip_ver(r))
        loc = b.loc(p.blocks[-1])
        cs = [(_sh(e[1]), [_sh(strip_ver(render(x))) for x in e[2]]) for e in p.effects if e[0] == "call"]
        if p.end.startswith("loop"):
            stop = [g for g in gs if re.match(r"^!eq\('[\|\)]', a1\.pattern\[a1\.idx\]\)$", g)]
            _rec(d, "continues-only-before-bar-or-paren", len(stop) == 2 and "lt(a1.idx, a1.len)" in gs, "a further piece may be parsed only when input remains and the next character is neither '|' nor ')'; guards %s" % gs[:3], loc)
            ms = [c for c in cs if c[0] == "make_sequence"]
            cur = [g for g in gs if re.match(r"^variant\(uninit\(\d+\)\)=", g)]
            if cur and cur[-1].endswith("=Some"):
                _rec(d, "concatenated-left-to-right", len(ms) == 1 and re.match(r"^uninit\(\d+\) as Some\.0$", ms[0][1][0]) is not None and ms[0][1][1].startswith("try(piece(a1"), "the new piece must be appended to the right of what was parsed so far; found make_sequence(%s)" % ", ".join(x[:40] for x in ms[0][1]) if ms else "no make_sequence", loc)
            elif cur:
                _rec(d, "first-piece-kept", not ms, "the first piece must be kept as it is", loc)
        elif p.end == "return" and r.startswith("Result::Ok"):
            cur = [g for g in gs if re.match(r"^variant\(uninit\(\d+\)\)=", g)]
            if cur and cur[-1].endswith("=None"):
                _rec(d, "empty-branch-nothing", r == "Result::Ok{0: op(Nothing::Nothing)}", "an empty branch must be Nothing; found %s" % r[:60], loc)
            elif cur:
                _rec(d, "returns-collected", re.match(r"^Result::Ok\{0: uninit\(\d+\) as Some\.0\}$", r) is not None, "a non-empty branch must return what was collected; found %s" % r[:60], loc)
    for k in ("continues-only-before-bar-or-paren", "concatenated-left-to-right", "empty-branch-nothing"):
        if k not in d:
            d[k] = [False, "parse_branch lost its %s clause" % k, b.loc()]
    return _emit(d)


@rule("SEQ-OPTIMIZE-ARMS", ["C20", "C08", "C05", "C01", "C07"], floor=3)
def seq_optimize_arms(ctx):
    """Sequence::optimize: an empty sequence is Nothing, a one-element sequence is that element, a longer one is
    rebuilt from the per-element closure in the same order."""
    P = "<op_sequence::Sequence as %s>::optimize" % OC
    b = ctx.body(P)
    if b is None:
        return [missing(P)]
    d = {}
    for p in ctx.walk(b).paths:
        gs, r = summarize(p)
        gs = [_sh(strip_ver(g)) for g in gs]
        r = _sh(strip_ver(r))
        loc = b.loc(p.blocks[-1])
        ln = [g for g in gs if g.startswith("len(a1.operations)=")]
        if not ln:
            continue
        v = ln[0].split("=", 1)[1]
        if v == "0":
            _rec(d, "empty", r == "op(Nothing::Nothing)", "an empty sequence must optimise to Nothing; found %s" % r[:60], loc)
        elif v == "1":
            _rec(d, "single", r == "Option::unwrap(<IntoIter<T, A> as Iterator>::next(a1.operations))", "a one-element sequence must optimise to its element; found %s" % r[:80], loc)
        else:
            # every operation is carried over, in order: nothing between the walk over a1.operations and the collected
            # vector drops, adds or reorders elements (a sequence that lost elements can end up empty, and
            # SequenceIterator::new takes its first element without asking)
            lossy = re.search(r"Iterator::(filter|filter_map|flat_map|flatten|skip|skip_while|take|take_while|step_by|chain|rev|dedup\w*|scan)\(", r)
            good = (r.startswith("op(Sequence::Sequence{operations: Iterator::collect(Iterator::map(Iterator::enumerate(Iterator::cloned(a1.operations))") or ("Iterator::map(Iterator::enumerate(" in r and "a1.operations" in r)) and not lossy
            if not good and p.end.startswith("loop"):
                # the loop form: every turn of a forward walk over a1.operations appends exactly one operation
                calls = [(e[1].split("::")[-1], [_sh(strip_ver(render(x))) for x in e[2]]) for e in p.effects if e[0] == "call"]
                pu = [c for c in calls if c[0] in ("push", "insert", "extend", "push_front", "append")]
                drv = [g for g in gs if re.match(r"^variant\((?:<[^()]*> as Iterator>::)?next\((?:Iterator::peekable\()?(?:[\w:<> ,]*into_iter\()?a1\.operations\)*\)\)=Some$", g)]
                turn_ok = len(pu) == 1 and pu[0][0] == "push" and re.match(r"^Vec::(with_capacity\(.*\)|new\(\))$", pu[0][1][0]) and bool(drv) and not any(c[0] in ("rev", "reverse", "swap", "sort", "sort_by") for c in calls)
                _rec(d, "many", bool(turn_ok), "in a turn of the loop that rebuilds a longer sequence exactly one operation must be appended, walking a1.operations forwards; calls %s" % [c[0] for c in calls][:8], loc)
                continue
            if not good and p.end == "return" and re.match(r"^op\(Sequence::Sequence\{operations: Vec::(with_capacity\(.*\)|new\(\))\}\)$", r):
                # the vector filled by the turns above, returned when the walk is exhausted - or in the turn of the
                # last element (nothing follows it), which appends that element first
                calls = [(e[1].split("::")[-1], [_sh(strip_ver(render(x))) for x in e[2]]) for e in p.effects if e[0] == "call"]
                pu = [c for c in calls if c[0] in ("push", "insert", "extend", "push_front", "append")]
                delivered = [g for g in gs if re.match(r"^variant\((?:<[^()]*> as Iterator>::)?next\(.*a1\.operations.*\)\)=Some$", g)]
                exhausted = any(re.match(r"^variant\(.*(?:next|peek)\(.*a1\.operations.*\)\)=None$", g) for g in gs)
                _rec(d, "many", exhausted and len(pu) == len(delivered) <= 1 and all(c[0] == "push" for c in pu), "the rebuilt sequence is returned before the walk over a1.operations is exhausted, or an element is not appended exactly once (appends %d, delivered %d)" % (len(pu), len(delivered)), loc)
                continue
            _rec(d, "many", good, "a longer sequence must be rebuilt from its operations in order; found %s" % r[:140], loc)
    for k in ("empty", "single", "many"):
        if k not in d:
            d[k] = [False, "Sequence::optimize lost its %s arm" % k, b.loc()]
    return _emit(d)
