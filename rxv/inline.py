"""Normalisation of the facts before any analysis: calls to *new* private helper functions are inlined.

A function of the crate that is not in the committed vocabulary (rxv/vocabulary.json: the functions of the reference
tree) was introduced by a later edit - typically "extract function".  Every rule is written over the functions of the
vocabulary, so a new helper is spliced into its callers (MIR-level inlining on the JSON facts: locals and blocks are
renumbered, arguments become assignments, `return` becomes an assignment to the call's destination and a goto).  The
analyses then see the code as if the statements had never been moved.  Not inlined: closures, generic instances,
recursive helpers, helpers above the size bound (those stay opaque calls, and a rule that needs to look inside
reports an unrecognised path)."""
import copy, json, os, re

MAX_BLOCKS = 120
MAX_ROUNDS = 4


def _callee_path(t, strip_lt):
    f = t.get("func", {})
    if f.get("k") == "const" and "fn" in f:
        fn = f["fn"]
        return strip_lt(fn.get("res", fn["def"])), fn
    return None, None


def _remap(node, lo, bo, po):
    """Deep copy of a callee fragment with locals shifted by lo, blocks by bo, promoted indices by po."""
    if isinstance(node, list):
        return [_remap(x, lo, bo, po) for x in node]
    if not isinstance(node, dict):
        return node
    out = {}
    for k, v in node.items():
        if k == "l" and isinstance(v, int):
            out[k] = v + lo
        elif k == "idx" and isinstance(v, int):
            out[k] = v + lo
        elif k in ("t", "unwind", "otherwise") and isinstance(v, int):
            out[k] = v + bo
        elif k == "targets" and isinstance(v, list):
            out[k] = [[a, b + bo] for a, b in v]
        elif k == "promoted" and isinstance(v, int):
            out[k] = v + po
        else:
            out[k] = _remap(v, lo, bo, po)
    return out


def _fn_items(x, strip_lt):
    """Paths of the functions named as values (fn items) anywhere inside a block's JSON."""
    out = []
    if isinstance(x, dict):
        f = x.get("fn")
        if x.get("k") == "const" and isinstance(f, dict) and f.get("def"):
            out.append(strip_lt(f.get("res", f["def"])))
        for v in x.values():
            out.extend(_fn_items(v, strip_lt))
    elif isinstance(x, list):
        for v in x:
            out.extend(_fn_items(v, strip_lt))
    return out


def inline_new_helpers(raw, vocabulary, strip_lt, log=None):
    bodies = raw["bodies"]
    by_path = {}
    for b in bodies:
        by_path.setdefault(strip_lt(b["path"]), b)
    voc = set(vocabulary)
    tp = os.path.join(os.path.dirname(os.path.abspath(__file__)), "vocabulary_thin.json")
    if os.path.exists(tp):
        voc -= set(json.load(open(tp)))  # thin private accessors are spliced into their caller on every tree

    def eligible(p):
        b = by_path.get(p)
        if b is None or p in voc:
            return False
        if b.get("kind") not in ("Fn", "AssocFn") or "{closure" in p or "{constant" in p:
            return False
        if len(b["blocks"]) > MAX_BLOCKS:
            return False
        m = re.match(r"^<(.+) as ([^<>]+)>::(\w+)$", p)
        if m and not m.group(2).startswith(("std::", "core::", "alloc::")) and m.group(2) + "::" + m.group(3) in voc_all:
            # a new override of a method of one of the crate's own traits is not a helper: it replaces the trait's
            # default for that type, and the per-implementation tables must see it as an implementation
            return False
        return True

    voc_all = set(vocabulary)
    new = {p for p in by_path if eligible(p)}
    if not new:
        return []
    # drop recursive helpers (a helper that can reach itself through new helpers)
    edges = {}
    for p in new:
        es = set()
        own = [by_path[p]] + [b for q, b in by_path.items() if q.startswith(p + "::{closure")]  # its closures call for it
        for ob in own:
            for blk in ob["blocks"]:
                t = blk["term"]
                if t["k"] == "call":
                    cp, fn = _callee_path(t, strip_lt)
                    if cp in new:
                        es.add(cp)
                # a function handed on as a value (`.any(Self::helper)`) is called by whoever receives it
                for cp in _fn_items(blk, strip_lt):
                    if cp in new:
                        es.add(cp)
        edges[p] = es
    def reaches_self(p):
        seen, st = set(), list(edges[p])
        while st:
            x = st.pop()
            if x == p:
                return True
            if x in seen:
                continue
            seen.add(x)
            st.extend(edges.get(x, ()))
        return False
    new = {p for p in new if not reaches_self(p)}
    done = []
    for _ in range(MAX_ROUNDS):
        changed = False
        for c in bodies:
            bi = 0
            while bi < len(c["blocks"]):
                blk = c["blocks"][bi]
                t = blk["term"]
                if t["k"] == "call":
                    cp, fn = _callee_path(t, strip_lt)
                    generic = [x for x in fn.get("targs", []) if not x.startswith("'")]
                    if generic and cp and cp.startswith("<") and fn.get("trait") and len(generic) == 1 and cp in new:
                        generic = []  # a method of a concrete impl: the one type argument is the trait's Self
                    if generic and len(generic) == 1 and fn.get("trait") and "Self" in (by_path.get(cp, {}).get("sig") or "") and cp in new:
                        # a default method of a trait of the crate that no impl overrides: its one body serves every
                        # receiver (its calls on Self stay calls of the trait's methods, as in the caller)
                        nm = cp.rsplit("::", 1)[1]
                        overridden = any(strip_lt(b2["path"]).startswith("<") and strip_lt(b2["path"]).endswith(" as %s>::%s" % (fn["trait"], nm)) for b2 in bodies)
                        if not overridden:
                            generic = []
                    if cp in new and strip_lt(c["path"]) != cp and not generic and len(t.get("args", [])) == by_path[cp]["argc"]:
                        f = by_path[cp]
                        lo, bo, po = len(c["locals"]), len(c["blocks"]), len(c.get("promoted", []))
                        c["locals"].extend(copy.deepcopy(f["locals"]))
                        c.setdefault("promoted", []).extend(copy.deepcopy(f.get("promoted", [])))
                        fb = _remap(f["blocks"], lo, bo, po)
                        self_ty = [x for x in fn.get("targs", []) if not x.startswith("'")]
                        if fn.get("trait") and len(self_ty) == 1 and not self_ty[0].startswith("dyn ") and "Self" in (f.get("sig") or ""):
                            # a default method spliced into a concrete receiver: its calls on Self are the calls of
                            # that type's impl
                            for nb in fb:
                                nt = nb["term"]
                                if nt["k"] == "call" and nt.get("func", {}).get("k") == "const":
                                    ifn = nt["func"]["fn"]
                                    if ifn.get("trait") == fn["trait"] and ifn.get("targs") == ["Self"]:
                                        target = "<%s as %s>::%s" % (strip_lt(self_ty[0]), fn["trait"], ifn["def"].rsplit("::", 1)[1])
                                        if target in by_path:
                                            ifn["res"] = target
                                            ifn["res_inst"] = target
                                            ifn["inst"] = target
                                            ifn["targs"] = [self_ty[0]]
                                            ifn["res_local"] = True
                                            ifn["res_kind"] = "item"
                        cleanup = blk.get("cleanup", False)
                        for nb in fb:
                            if cleanup:
                                nb["cleanup"] = True
                            nt = nb["term"]
                            if nt["k"] == "return":
                                dest = t.get("dest")
                                if dest is not None:
                                    nb["stmts"].append({"k": "assign", "place": copy.deepcopy(dest), "rv": {"k": "use", "op": {"k": "move", "place": {"l": lo, "p": []}}}, "line": t.get("line"), "exp": False})
                                if t.get("t") is not None:
                                    nb["term"] = {"k": "goto", "t": t["t"]}
                                else:
                                    nb["term"] = {"k": "unreachable"}
                            elif nt["k"] == "resume":
                                if t.get("unwind") is not None:
                                    nb["term"] = {"k": "goto", "t": t["unwind"]}
                        for k, a in enumerate(t.get("args", [])):
                            blk["stmts"].append({"k": "assign", "place": {"l": lo + 1 + k, "p": []}, "rv": {"k": "use", "op": copy.deepcopy(a)}, "line": t.get("line"), "exp": False})
                        blk["term"] = {"k": "goto", "t": bo}
                        c["blocks"].extend(fb)
                        done.append((strip_lt(c["path"]), cp))
                        changed = True
                bi += 1
        if not changed:
            break
    # a helper whose every call was inlined is no longer part of the program the rules look at
    if done:
        still = set()
        for c in bodies:
            for blk in c["blocks"]:
                t = blk["term"]
                if t["k"] == "call":
                    cp, fn = _callee_path(t, strip_lt)
                    if cp in new:
                        still.add(cp)
        gone = {d[1] for d in done} - still
        if gone:
            raw["bodies"] = [b for b in bodies if strip_lt(b["path"]) not in gone]
    if log and done:
        log("inlined %d call(s) to functions outside the vocabulary: %s" % (len(done), sorted({d[1] for d in done})))
    return done


def _succs(t):
    k = t["k"]
    if k == "goto":
        return [t["t"]]
    if k == "switch":
        return [x[1] for x in t["targets"]] + [t["otherwise"]]
    if k in ("call", "assert", "drop"):
        return [t["t"]] if t.get("t") is not None else []
    return []


def _closures_in_flow_order(b):
    blocks = b["blocks"]
    seen, post, stack = {0}, [], [(0, iter(_succs(blocks[0]["term"])))]
    while stack:
        v, it = stack[-1]
        for w in it:
            if w not in seen and not blocks[w].get("cleanup"):
                seen.add(w)
                stack.append((w, iter(_succs(blocks[w]["term"]))))
                break
        else:
            post.append(v)
            stack.pop()
    out = []
    for bi in post[::-1]:
        for st in blocks[bi]["stmts"]:
            if st["k"] == "assign" and st["rv"].get("k") == "agg" and st["rv"].get("agg") == "closure":
                d = st["rv"]["def"]
                if d not in out:
                    out.append(d)
    return out


def canonicalise_closures(raw, log=None):
    """Closures are named after the function whose (inlined) code creates them, numbered in control-flow order.
    On an unrefactored tree this is rustc's own numbering; after "extract function" the closures that moved with
    the statements get back the names they would have had."""
    ren = {}
    for b in raw["bodies"]:
        if "{closure" in b["path"]:
            continue
        for k, d in enumerate(_closures_in_flow_order(b)):
            want = "%s::{closure#%d}" % (b["path"], k)
            if d != want:
                ren[d] = want
    if not ren:
        return {}
    s = json.dumps(raw)
    tmp = {}
    for i, (o, n) in enumerate(sorted(ren.items(), key=lambda x: -len(x[0]))):
        ph = "\u0001CLOSURE%d\u0001" % i
        tmp[ph] = n
        s = s.replace(json.dumps(o)[1:-1], ph)
    for ph, n in tmp.items():
        s = s.replace(ph, json.dumps(n)[1:-1])
    new = json.loads(s)
    raw.clear()
    raw.update(new)
    if log:
        log("renamed %d closure(s) to their flow-order names" % len(ren))
    return ren


def canonicalise_modules(raw, vocabulary, vocab_fields, strip_lt, log=None):
    """Items moved to another module (file split / merge): a type or free function whose name is unique in the crate
    and in the vocabulary, missing under its vocabulary path and present under a new one, gets its vocabulary path
    back (textual replacement of the qualified name throughout the facts)."""
    import re as _re
    cur_adts = {strip_lt(a["path"]) for a in raw.get("adts", []) if (a.get("span") or {}).get("file", "").startswith("regexml/")}
    ref_adts = set(vocab_fields or {})
    cur_fns = {strip_lt(b["path"]) for b in raw["bodies"] if b.get("kind") == "Fn" and "{" not in b["path"] and "<" not in b["path"]}
    ref_fns = {p for p in vocabulary if "<" not in p and "{" not in p}
    # free functions of the vocabulary: paths whose parent is not a known type
    ref_types = {p for p in ref_adts}
    ren = {}

    def plan(cur, ref):
        new = [p for p in cur if p not in ref]
        lost = [p for p in ref if p not in cur]
        for n in new:
            name = n.split("::")[-1]
            cands = [l for l in lost if l.split("::")[-1] == name]
            same_new = [m for m in new if m.split("::")[-1] == name]
            if len(cands) == 1 and len(same_new) == 1 and n.count("::") >= 1:
                ren[n] = cands[0]

    plan(cur_adts, ref_adts)
    # a renamed struct: same module, identical field list, unique on both sides
    curf = {}
    for a in raw.get("adts", []):
        ap = strip_lt(a["path"])
        if ap in cur_adts and a.get("kind") == "Struct" and len(a.get("variants", [])) == 1:
            curf[ap] = [[f["name"], strip_lt(f["ty"])] for f in a["variants"][0]["fields"]]
    for n in [p for p in cur_adts if p not in ref_adts and p not in ren]:
        if n not in curf or not curf[n]:
            continue
        same_mod = lambda a, b: a.rsplit("::", 1)[0] == b.rsplit("::", 1)[0]
        cands = [l for l in ref_adts if l not in cur_adts and l not in ren.values() and same_mod(l, n) and [[fn_, ft.replace(l, "\0SELF")] for fn_, ft in vocab_fields[l]] == [[fn_, ft.replace(n, "\0SELF")] for fn_, ft in curf[n]]]
        rivals = [m for m in cur_adts if m not in ref_adts and m in curf and curf[m] == curf[n]]
        if len(cands) == 1 and len(rivals) == 1:
            ren[n] = cands[0]
    plan({p for p in cur_fns if "::".join(p.split("::")[:-1]) not in cur_adts}, {p for p in ref_fns if "::".join(p.split("::")[:-1]) not in ref_types and p.count("::") == 1})
    if not ren:
        return {}
    s = json.dumps(raw)
    for o, n in sorted(ren.items(), key=lambda x: -len(x[0])):
        s = _re.sub(r"(?<![A-Za-z0-9_:])%s(?![A-Za-z0-9_])" % _re.escape(o), n.replace("\\", "\\\\"), s)
    new = json.loads(s)
    raw.clear()
    raw.update(new)
    if log:
        log("items given back their vocabulary module paths: %s" % ren)
    return ren


def canonicalise_renamed_functions(raw, vocab_sigs, strip_lt, log=None):
    """A private function that was renamed: a vocabulary function is missing, and in the same parent (module, type or
    trait impl) exactly one function outside the vocabulary has the identical signature -> it gets the vocabulary
    name back.  Done before the inlining of non-vocabulary functions."""
    import re as _re
    nb = lambda s: _re.sub(r"^for(?:<[^>]*>)? ", "", s)  # the binder of late-bound lifetimes is noise after erasure
    cur = {strip_lt(b["path"]): nb(strip_lt(b.get("sig") or "")) for b in raw["bodies"] if b.get("kind") in ("Fn", "AssocFn")}
    vocab_sigs = {p: nb(s) for p, s in vocab_sigs.items()}
    lost = {p: s for p, s in vocab_sigs.items() if p not in cur}
    new = {p: s for p, s in cur.items() if p not in vocab_sigs}
    ren = {}
    parent = lambda p: p.rsplit("::", 1)[0]
    for lp, ls in lost.items():
        cands = [np for np, ns in new.items() if parent(np) == parent(lp) and ns == ls and ns]
        rivals = [lp2 for lp2, ls2 in lost.items() if parent(lp2) == parent(lp) and ls2 == ls]
        if len(cands) == 1 and len(rivals) == 1:
            ren[cands[0]] = lp
        elif len(cands) == len(rivals) > 1:
            # several functions with the same signature renamed together (getters, setters): pair them in source order
            order_new = [p_ for p_ in new if p_ in cands]
            order_lost = [p_ for p_ in vocab_sigs if p_ in rivals]
            for a_, b_ in zip(order_new, order_lost):
                ren.setdefault(a_, b_)
    # a function that kept its name and signature but moved to another parent (an associated function without `self`
    # made a free function of another module, or the reverse): unique by name on both sides
    moved = {}
    last = lambda p: p.rsplit("::", 1)[1]
    for lp, ls in lost.items():
        if lp in ren.values() or not ls or "<" in lp:
            continue
        cands = [np for np, ns in new.items() if np not in ren and last(np) == last(lp) and ns == ls and "<" not in np and "{" not in np]
        rivals = [lp2 for lp2 in lost if last(lp2) == last(lp)]
        if len(cands) == 1 and len(rivals) == 1:
            moved[cands[0]] = lp
    # moved *and* renamed: the only lost function and the only new function with that signature
    for lp, ls in lost.items():
        if lp in ren.values() or lp in moved.values() or not ls or "<" in lp:
            continue
        cands = [np for np, ns in new.items() if np not in ren and np not in moved and ns == ls and "<" not in np and "{" not in np]
        rivals = [lp2 for lp2, ls2 in lost.items() if ls2 == ls and lp2 not in ren.values() and lp2 not in moved.values()]
        if len(cands) == 1 and len(rivals) == 1 and ls.count(",") + ls.count("->") >= 2:
            moved[cands[0]] = lp
    if not ren and not moved:
        return {}
    # raw paths may carry lifetime arguments (`Type::<'a>::f`): rename by the last segment within the same parent
    s = json.dumps(raw)
    for o, n in ren.items():
        on, nn = o.rsplit("::", 1)[1], n.rsplit("::", 1)[1]
        par = _re.escape(parent(o)).replace("\\:\\:", "(?:::<[^>]*>)?::")
        s = _re.sub(r"(%s(?:::<[^>]*>)?::)%s(?![A-Za-z0-9_])" % (par, _re.escape(on)), lambda m: m.group(1) + nn, s)
    for o, n in moved.items():
        s = _re.sub(r"(?<![A-Za-z0-9_:])%s(?![A-Za-z0-9_])" % _re.escape(o), n.replace("\\", "\\\\"), s)
    ren.update(moved)
    newraw = json.loads(s)
    raw.clear()
    raw.update(newraw)
    if log:
        log("renamed functions given back their vocabulary names: %s" % ren)
    return ren


def canonicalise_generics(raw, vocabulary, strip_lt, log=None):
    """A type of the crate that gained type parameters (a boxed `dyn Iterator` field made generic, say): its
    functions are `Type::<I>::f` / `<Type<I> as Trait>::f` now.  When erasing the parameter list gives back a
    vocabulary function that is otherwise missing, the parameter lists of that type are erased everywhere (definitions
    and instantiated call sites alike) - the rules are stated over the type, not over how it is parameterised."""
    import re as _re
    voc = set(vocabulary)
    cur = {strip_lt(b["path"]) for b in raw["bodies"]}
    types = set()
    for p in cur:
        if p in voc:
            continue
        for m in _re.finditer(r"((?:[a-z_][a-z0-9_]*::)+[A-Z]\w*)(?:::)?<([A-Z]\w*(?:, [A-Z]\w*)*)>", p):
            ty = m.group(1)
            if ty.startswith(("std::", "core::", "alloc::")):
                continue
            q = p[:m.start()] + ty + p[m.end():]
            if q in voc and q not in cur:
                types.add(ty)
    if not types:
        return []
    s = json.dumps(raw)
    for ty in sorted(types, key=len, reverse=True):
        out, i = [], 0
        pat = _re.compile(_re.escape(ty) + r"(?:::)?<")
        while True:
            m = pat.search(s, i)
            if not m:
                out.append(s[i:])
                break
            # do not cut a longer identifier (`TypeX<..>`): the match starts at a path boundary by construction of `ty`
            out.append(s[i:m.start()] + ty)
            j, depth = m.end(), 1
            while j < len(s) and depth:
                ch = s[j]
                if ch == "<":
                    depth += 1
                elif ch == ">" and s[j - 1] != "-":
                    depth -= 1
                j += 1
            i = j
        s = "".join(out)
    newraw = json.loads(s)
    raw.clear()
    raw.update(newraw)
    if log:
        log("type parameters erased from %s" % sorted(types))
    return sorted(types)


def load_vocabulary_sigs():
    p = os.path.join(os.path.dirname(os.path.abspath(__file__)), "vocabulary_sigs.json")
    if not os.path.exists(p):
        return None
    return json.load(open(p))


def canonicalise_fields(raw, vocab_fields, strip_lt, log=None):
    """Struct fields of the crate's own types: a field that was renamed is given back its vocabulary name when its
    type identifies it (exactly one field of that type lost its name and exactly one new name of that type appeared),
    and aggregates list their fields in the vocabulary's order (declaration order is unobservable)."""
    ren = {}    # adt -> {new name: vocabulary name}
    order = {}  # adt -> [names in vocabulary order]
    for a in raw.get("adts", []):
        ap = strip_lt(a["path"])
        ref = vocab_fields.get(ap)
        if not ref or a.get("kind") != "Struct" or len(a.get("variants", [])) != 1:
            continue
        cur = [(f["name"], strip_lt(f["ty"])) for f in a["variants"][0]["fields"]]
        refn = [n for n, _ in ref]
        curn = [n for n, _ in cur]
        m = {}
        if [ty for _, ty in cur] == [ty for _, ty in ref]:
            # same types in the same order: a pure rename, resolved by position
            for (n, _), (rn, _) in zip(cur, ref):
                if n != rn and n not in refn and rn not in curn:
                    m[n] = rn
        for n, ty in cur:
            if n in refn or n in m:
                continue
            lost = [rn for rn, rty in ref if rty == ty and rn not in curn]
            new_same = [cn for cn, cty in cur if cty == ty and cn not in refn]
            if len(lost) == 1 and len(new_same) == 1:
                m[n] = lost[0]
        if m:
            ren[ap] = m
        order[ap] = refn
    if not ren and not order:
        return {}

    def fix(node):
        if isinstance(node, list):
            for x in node:
                fix(x)
            return
        if not isinstance(node, dict):
            return
        if "f" in node and "adt" in node and isinstance(node.get("f"), str):
            m = ren.get(strip_lt(node["adt"]))
            if m and node["f"] in m:
                node["f"] = m[node["f"]]
        if node.get("k") == "agg" and node.get("agg") == "adt" and node.get("fnames"):
            ap = strip_lt(node.get("adt", ""))
            m = ren.get(ap, {})
            names = [m.get(n, n) for n in node["fnames"]]
            ref = order.get(ap)
            if ref and len(names) == len(node.get("fields", [])) and set(names) <= set(ref):
                pairs = sorted(zip(names, node["fields"]), key=lambda x: ref.index(x[0]))
                names = [x[0] for x in pairs]
                node["fields"] = [x[1] for x in pairs]
            node["fnames"] = names
        for v in node.values():
            fix(v)

    fix(raw["bodies"])
    for a in raw.get("adts", []):
        m = ren.get(strip_lt(a["path"]))
        if m:
            for f in a["variants"][0]["fields"]:
                f["name"] = m.get(f["name"], f["name"])
    if log and ren:
        log("fields given back their vocabulary names: %s" % ren)
    return ren


def load_vocabulary_fields():
    p = os.path.join(os.path.dirname(os.path.abspath(__file__)), "vocabulary_fields.json")
    if not os.path.exists(p):
        return None
    return json.load(open(p))


def load_vocabulary():
    p = os.path.join(os.path.dirname(os.path.abspath(__file__)), "vocabulary.json")
    if not os.path.exists(p):
        return None
    return json.load(open(p))


# --------------------------------------------------------------------------------------------------------------
# Iterator adaptors with a closure of the crate: `it.all(|x| p)`, `any`, `find`, `position`, `for_each` are the loops
# they abbreviate.  The call is replaced by `loop { match it.next() { None => .., Some(x) => <closure body> } }` with
# the closure's body spliced in (captured variables become the caller's own places), so that a hand-written loop and
# the adaptor form reach the analyses as the same control flow.  Anything unusual (a closure created elsewhere, a
# by-value environment, an environment used other than through its fields) leaves the call as it is.

ADAPTORS = {
    "std::iter::Iterator::all": "all",
    "std::iter::Iterator::any": "any",
    "std::iter::Iterator::find": "find",
    "std::iter::Iterator::position": "position",
    "std::iter::Iterator::for_each": "for_each",
    "std::iter::Iterator::fold": "fold",
    "std::iter::Iterator::min": "min",
    "std::iter::Iterator::max": "max",
}


def _places(node, fn):
    """Applies fn to every place dict ({"l":..,"p":[..]}) in node, in place (fn may mutate / return replacement)."""
    if isinstance(node, list):
        for i, x in enumerate(node):
            r = _places(x, fn)
            if r is not None:
                node[i] = r
        return None
    if not isinstance(node, dict):
        return None
    if "l" in node and "p" in node and isinstance(node["p"], list) and isinstance(node["l"], int):
        for x in node["p"]:
            _places(x, fn)
        return fn(node)
    for k, v in list(node.items()):
        r = _places(v, fn)
        if r is not None:
            node[k] = r
    return None


# the path under which rustc resolves `<T as Iterator>::next` for the iterator types of std that occur in this crate
# (the same strings as for the `next` calls of hand-written `for` loops, so that both forms render alike)
_NEXT_IMPLS = (
    ("std::ops::Range<", "std::iter::range::<impl std::iter::Iterator for std::ops::Range<A>>::next"),
    ("std::ops::RangeInclusive<", "std::iter::range::<impl std::iter::Iterator for std::ops::RangeInclusive<A>>::next"),
    ("std::slice::Iter<", "<std::slice::Iter<'a, T> as std::iter::Iterator>::next"),
    ("std::slice::IterMut<", "<std::slice::IterMut<'a, T> as std::iter::Iterator>::next"),
    ("std::str::Chars<", "<std::str::Chars<'a> as std::iter::Iterator>::next"),
    ("std::str::CharIndices<", "<std::str::CharIndices<'a> as std::iter::Iterator>::next"),
    ("std::vec::IntoIter<", "<std::vec::IntoIter<T, A> as std::iter::Iterator>::next"),
    ("std::boxed::Box<", "std::boxed::iter::<impl std::iter::Iterator for std::boxed::Box<I, A>>::next"),
    ("&mut ", "<&mut I as std::iter::Iterator>::next"),
    ("std::iter::Enumerate<", "<std::iter::Enumerate<I> as std::iter::Iterator>::next"),
    ("std::iter::Skip<", "<std::iter::Skip<I> as std::iter::Iterator>::next"),
    ("std::iter::Take<", "<std::iter::Take<I> as std::iter::Iterator>::next"),
    ("std::iter::Rev<", "<std::iter::Rev<I> as std::iter::Iterator>::next"),
    ("std::iter::Peekable<", "<std::iter::Peekable<I> as std::iter::Iterator>::next"),
    ("std::iter::Copied<", "<std::iter::Copied<I> as std::iter::Iterator>::next"),
    ("std::iter::Cloned<", "<std::iter::Cloned<I> as std::iter::Iterator>::next"),
    ("std::iter::Zip<", "<std::iter::Zip<A, B> as std::iter::Iterator>::next"),
    ("std::iter::Chain<", "<std::iter::Chain<A, B> as std::iter::Iterator>::next"),
    ("std::iter::Map<", "<std::iter::Map<I, F> as std::iter::Iterator>::next"),
    ("std::iter::Filter<", "<std::iter::Filter<I, P> as std::iter::Iterator>::next"),
    ("std::iter::FilterMap<", "<std::iter::FilterMap<I, F> as std::iter::Iterator>::next"),
    ("std::iter::TakeWhile<", "<std::iter::TakeWhile<I, P> as std::iter::Iterator>::next"),
    ("std::iter::SkipWhile<", "<std::iter::SkipWhile<I, P> as std::iter::Iterator>::next"),
)


def _next_impl_path(iter_ty):
    for pre, res in _NEXT_IMPLS:
        if iter_ty.startswith(pre):
            return res
    return "<%s as std::iter::Iterator>::next" % iter_ty


class _Abort(Exception):
    pass


def _bool_const(v):
    return {"k": "const", "ty": "bool", "bool": v}


def _local(ty, mut=True):
    return {"ty": ty, "name": None, "user": False, "mut": mut}


def _unique_def(c, l):
    defs = [st for b2 in c["blocks"] for st in b2["stmts"] if st["k"] == "assign" and st["place"]["l"] == l and not st["place"]["p"]]
    calls = [(i, b2) for i, b2 in enumerate(c["blocks"]) if b2["term"]["k"] == "call" and b2["term"].get("dest") and b2["term"]["dest"]["l"] == l and not b2["term"]["dest"]["p"]]
    return defs, calls


def _uses(c, l):
    """Occurrences of local l in statements and terminators (storage markers and drops aside)."""
    s = json.dumps([[st for st in b2["stmts"] if st.get("k") not in ("live", "dead")] for b2 in c["blocks"]] + [b2["term"] for b2 in c["blocks"] if b2["term"]["k"] != "drop"])
    return s.count('"l": %d,' % l) + s.count('"l": %d}' % l)


class _Fun:
    """A function value handed to an adaptor: a closure of the crate created in the caller (body spliced in) or a
    function item (called)."""

    def __init__(self, c, op, by_path, strip_lt, argc):
        self.ok = False
        self.c = c
        self.kind = None
        if op.get("k") == "const" and "fn" in op:
            self.kind = "fn"
            self.op = op
            self.ok = True
            self.ret_ty = None
            return
        if op.get("k") not in ("move", "copy") or op["place"]["p"]:
            return
        lc = op["place"]["l"]
        sites = [(i, j) for i, b2 in enumerate(c["blocks"]) for j, st in enumerate(b2["stmts"]) if st["k"] == "assign" and st["place"]["l"] == lc and not st["place"]["p"]]
        if len(sites) != 1:
            return
        self.site = sites[0]
        agg = c["blocks"][sites[0][0]]["stmts"][sites[0][1]]["rv"]
        if agg.get("k") != "agg" or agg.get("agg") != "closure":
            return
        self.cpath = strip_lt(agg["def"])
        f = by_path.get(self.cpath)
        if f is None or f.get("kind") != "Closure" or f["argc"] != argc + 1 or len(f["blocks"]) > MAX_BLOCKS:
            return
        if not strip_lt(f["locals"][1]["ty"]).startswith("&"):
            return
        if strip_lt(c["path"]) == self.cpath or json.dumps(agg["def"])[1:-1] in json.dumps(f["blocks"]):
            return  # a closure that (after helper inlining) creates itself: splicing would never end
        caps = []
        for o in agg["fields"]:
            if o.get("k") not in ("move", "copy") or o["place"]["p"]:
                return
            lk = o["place"]["l"]
            defs, calls = _unique_def(c, lk)
            ref = None
            if len(defs) == 1 and not calls and defs[0]["rv"]["k"] == "ref" and not c["locals"][lk].get("user"):
                ref = defs[0]["rv"]["place"]
            caps.append((lk, ref))
        self.kind, self.f, self.caps, self.lc = "closure", f, caps, lc
        self.arg_tys = [l["ty"] for l in f["locals"][2:2 + argc]]
        self.ret_ty = f["locals"][0]["ty"]
        self.ok = True

    def prepare(self):
        """Removes the closure value from the block that creates it (its captured temporaries stay alive)."""
        if self.kind != "closure":
            return
        c = self.c
        bi, sj = self.site
        blk = c["blocks"][bi]
        cap_locals = {lk for lk, _ in self.caps}
        blk["stmts"] = [st for j, st in enumerate(blk["stmts"]) if j != sj and not (st["k"] == "dead" and st.get("l") in cap_locals) and not (st["k"] in ("live", "dead") and st.get("l") == self.lc)]

    def emit(self, args, dest, cont, line, unwind, cleanup, new_blocks, base):
        """Appends blocks computing dest := f(args...) and continuing at `cont`; returns the entry block index.
        `base` is the index the first appended block will get."""
        c = self.c
        if self.kind == "fn":
            new_blocks.append({"stmts": [], "term": {"k": "call", "func": copy.deepcopy(self.op), "args": [{"k": "move", "place": {"l": a, "p": []}} for a in args], "dest": {"l": dest, "p": []}, "t": cont, "unwind": unwind, "line": line, "exp": False}, "cleanup": cleanup})
            return base
        f, caps = self.f, self.caps
        L = c["locals"]
        lo, po = len(L), len(c.get("promoted", []))
        bo = base + 2
        fb = _remap(copy.deepcopy(f["blocks"]), lo, bo, po)
        env = lo + 1

        def subst(pl):
            if pl["l"] != env:
                return None
            p = pl["p"]
            if len(p) < 2 or p[0] != "deref" or not isinstance(p[1], dict) or "i" not in p[1] or p[1]["i"] >= len(caps):
                raise _Abort()
            lk, ref = caps[p[1]["i"]]
            rest = p[2:]
            if ref is not None and rest and rest[0] == "deref":
                return {"l": ref["l"], "p": copy.deepcopy(ref["p"]) + rest[1:]}
            return {"l": lk, "p": rest}

        _places(fb, subst)
        for nb in fb:
            nb["stmts"] = [st for st in nb["stmts"] if not (st["k"] in ("live", "dead") and st.get("l") == env)]
        s = json.dumps(fb)
        if ('"l": %d,' % env) in s or ('"l": %d}' % env) in s:
            raise _Abort()
        RET = base + 1
        for nb in fb:
            nt = nb["term"]
            if nt["k"] == "return":
                nb["term"] = {"k": "goto", "t": RET}
            elif nt["k"] == "resume" and unwind is not None:
                nb["term"] = {"k": "goto", "t": unwind}
            if cleanup:
                nb["cleanup"] = True
        L.extend(copy.deepcopy(f["locals"]))
        c.setdefault("promoted", []).extend(copy.deepcopy(f.get("promoted", [])))
        entry = {"stmts": [{"k": "assign", "place": {"l": lo + 2 + k, "p": []}, "rv": {"k": "use", "op": {"k": "move", "place": {"l": a, "p": []}}}, "line": line, "exp": False} for k, a in enumerate(args)], "term": {"k": "goto", "t": bo}, "cleanup": cleanup}
        ret = {"stmts": [{"k": "assign", "place": {"l": dest, "p": []}, "rv": {"k": "use", "op": {"k": "move", "place": {"l": lo, "p": []}}}, "line": line, "exp": False}], "term": {"k": "goto", "t": cont}, "cleanup": cleanup}
        new_blocks.append(entry)
        new_blocks.append(ret)
        new_blocks.extend(fb)
        return base


def _item_ty_of(iter_ty, fallback):
    return fallback


def _desugar_one(c, bi, kind, fn, by_path, strip_lt):
    blk = c["blocks"][bi]
    t = blk["term"]
    args = t["args"]
    a_it = args[0]
    if a_it.get("k") not in ("move", "copy"):
        return None
    if kind in ("min", "max"):
        fun = None
    else:
        nfun_args = {"all": 1, "any": 1, "find": 1, "position": 1, "for_each": 1, "fold": 2}[kind]
        fun = _Fun(c, args[-1], by_path, strip_lt, nfun_args)
        if not fun.ok:
            return None
        if fun.kind == "closure" and fun.site[0] != bi:
            return None
    snapshot = (copy.deepcopy(c["blocks"]), copy.deepcopy(c["locals"]), copy.deepcopy(c.get("promoted", [])))
    try:
        return _desugar_build(c, bi, kind, fn, fun, by_path, strip_lt)
    except _Abort:
        c["blocks"], c["locals"] = snapshot[0], snapshot[1]
        c["promoted"] = snapshot[2]
        return None


def _desugar_build(c, bi, kind, fn, fun, by_path, strip_lt):
    blk = c["blocks"][bi]
    t = blk["term"]
    args = t["args"]
    a_it = args[0]
    line = t.get("line")
    cleanup = blk.get("cleanup", False)
    unwind = t.get("unwind")
    iter_ty = (fn.get("targs") or ["?"])[0]
    by_ref = kind in ("all", "any", "find", "position")
    it_place = copy.deepcopy(a_it["place"])
    src_local = None  # the local that holds the iterator value itself
    if by_ref:
        it_place = {"l": it_place["l"], "p": list(it_place["p"]) + ["deref"]}
        if not a_it["place"]["p"]:
            defs, calls = _unique_def(c, a_it["place"]["l"])
            if len(defs) == 1 and not calls and defs[0]["rv"]["k"] == "ref" and defs[0]["rv"].get("mut") and not defs[0]["rv"]["place"]["p"]:
                s = defs[0]["rv"]["place"]["l"]
                if _uses(c, s) <= 2:  # its definition and this borrow: nobody else sees the iterator afterwards
                    src_local = s
    elif not a_it["place"]["p"]:
        src_local = a_it["place"]["l"]
    # `.map(f)` / `.filter(p)` stages in front of the adaptor: the loop runs over the innermost iterator and applies
    # them to each item (outermost stage last)
    stages = []
    cur = src_local
    while cur is not None and len(stages) < 4:
        defs, calls = _unique_def(c, cur)
        if defs or len(calls) != 1:
            break
        mi, mblk = calls[0]
        mt = mblk["term"]
        mf = mt.get("func", {}).get("fn") if mt.get("func", {}).get("k") == "const" else None
        if not mf or mf.get("def") not in ("std::iter::Iterator::map", "std::iter::Iterator::filter") or len(mt["args"]) != 2:
            break
        if mt["args"][0].get("k") not in ("move", "copy") or mt["args"][0]["place"]["p"] or mblk.get("cleanup") or mi == bi:
            break
        sf = _Fun(c, mt["args"][1], by_path, strip_lt, 1)
        if not sf.ok or (sf.kind == "closure" and sf.site[0] != mi) or (cur != src_local and _uses(c, cur) > 2) or (cur == src_local and not by_ref and _uses(c, cur) > 2):
            break
        stages.insert(0, (mf["def"].split("::")[-1], sf, mi, (mf.get("targs") or [None])[0]))
        cur = mt["args"][0]["place"]["l"]
    L = c["locals"]
    pred_arg_ty = fun.arg_tys[-1] if (fun is not None and fun.kind == "closure") else None
    if kind == "find":
        if pred_arg_ty is None or not pred_arg_ty.startswith("&"):
            raise _Abort()
        item_ty = pred_arg_ty[1:]
    elif pred_arg_ty is not None:
        item_ty = pred_arg_ty
    else:
        item_ty = "?"
    inner_item_ty = item_ty
    if stages:
        first = stages[0]
        if first[1].kind == "closure":
            a0 = first[1].arg_tys[0]
            inner_item_ty = a0[1:] if (first[0] == "filter" and a0.startswith("&")) else a0
        else:
            inner_item_ty = "?"
        iter_ty = first[3] or c["locals"][cur]["ty"]

    def newl(ty):
        L.append(_local(ty))
        return len(L) - 1

    r_iter, opt, disc = newl("&mut " + iter_ty), newl("std::option::Option<%s>" % inner_item_ty), newl("isize")
    item0 = newl(inner_item_ty)
    dest_ty = c["locals"][t["dest"]["l"]]["ty"] if not t["dest"]["p"] else "?"
    item_ref = idx = acc = has = None
    if kind == "position":
        idx = newl("usize")
    if kind == "fold":
        acc = newl(dest_ty)
    if kind in ("min", "max"):
        acc = newl(item_ty if item_ty != "?" else "usize")
        has = newl("bool")
    ret = newl("()" if kind == "for_each" else (dest_ty if kind == "fold" else (item_ty if kind in ("min", "max") else "bool")))
    iterv = None
    if stages:
        # the adaptor calls of the stages go away: the innermost receiver is the iterator of the loop
        for name_, sf, mi, _ty in stages:
            sf.prepare()
        first_mi = stages[0][2]
        iterv = newl(iter_ty)
        fb_ = c["blocks"][first_mi]
        fb_["stmts"].append({"k": "assign", "place": {"l": iterv, "p": []}, "rv": {"k": "use", "op": {"k": "move", "place": {"l": cur, "p": []}}}, "line": line, "exp": False})
        for name_, sf, mi, _ty in stages:
            sb = c["blocks"][mi]
            sb["term"] = {"k": "goto", "t": sb["term"]["t"]}
        it_place = {"l": iterv, "p": []}
    elif src_local is not None:
        iterv = newl(iter_ty)
        it_place = {"l": iterv, "p": []}
    if fun is not None:
        fun.prepare()
    blk = c["blocks"][bi]

    def assign(place, rv):
        return {"k": "assign", "place": place, "rv": rv, "line": line, "exp": False}

    def loc(l):
        return {"l": l, "p": []}

    def mv(l):
        return {"k": "move", "place": loc(l)}

    if kind == "position":
        blk["stmts"].append(assign(loc(idx), {"k": "use", "op": {"k": "const", "ty": "usize", "int": 0}}))
    if kind == "fold":
        blk["stmts"].append(assign(loc(acc), {"k": "use", "op": copy.deepcopy(args[1])}))
    if kind in ("min", "max"):
        blk["stmts"].append(assign(loc(has), {"k": "use", "op": _bool_const(False)}))
    if not stages and src_local is not None:
        blk["stmts"].append(assign(loc(iterv), {"k": "use", "op": mv(src_local)}))
    dest, after = t["dest"], t["t"]
    n0 = len(c["blocks"])
    new = []

    def add(b_):
        new.append(b_)
        return n0 + len(new) - 1

    def goto(x):
        return {"k": "goto", "t": x}

    def blk_(stmts, term):
        return {"stmts": stmts, "term": term, "cleanup": cleanup}

    opt_some = lambda op: {"k": "agg", "agg": "adt", "adt": "std::option::Option", "variant": "Some", "vidx": 1, "fnames": ["0"], "fields": [op]}
    opt_none = {"k": "agg", "agg": "adt", "adt": "std::option::Option", "variant": "None", "vidx": 0, "fnames": [], "fields": []}
    unit = {"k": "use", "op": {"k": "const", "ty": "()", "zst": True}}
    next_fn = {"def": "std::iter::Iterator::next", "inst": "<%s as std::iter::Iterator>::next" % iter_ty, "targs": [iter_ty], "local": False, "trait": "std::iter::Iterator", "res_local": False, "res_kind": "item"}
    next_fn["res"] = _next_impl_path(iter_ty)
    next_fn["res_inst"] = next_fn["inst"]
    H = n0
    blk["term"] = goto(H)
    # H, D, U: fetch the next item
    add(blk_([assign(loc(r_iter), {"k": "ref", "mut": True, "place": it_place})],
             {"k": "call", "func": {"k": "const", "ty": "fn(&mut %s) -> std::option::Option<%s> {<%s as std::iter::Iterator>::next}" % (iter_ty, inner_item_ty, iter_ty), "fn": next_fn}, "args": [mv(r_iter)], "dest": loc(opt), "t": n0 + 1, "unwind": unwind, "line": line, "exp": False}))
    D = add(blk_([assign(loc(disc), {"k": "discr", "place": loc(opt), "ty": "std::option::Option<%s>" % inner_item_ty, "variants": [[0, "None"], [1, "Some"]]})], None))
    U = add(blk_([], {"k": "unreachable"}))
    some_payload = {"l": opt, "p": [{"downcast": "Some", "v": 1}, {"f": "0", "i": 0, "adt": "std::option::Option", "ty": inner_item_ty}]}
    SOME = add(blk_([assign(loc(item0), {"k": "use", "op": {"k": "move", "place": some_payload}})], None))
    NONE = add(blk_([], None))
    new[D - n0]["term"] = {"k": "switch", "op": mv(disc), "ty": "isize", "targets": [[0, NONE], [1, SOME]], "otherwise": U, "line": line, "exp": False}
    # the stages
    cur_item = item0
    tail = SOME  # block whose terminator is still open
    used = []
    for name_, sf, mi, _ty in stages:
        if name_ == "map":
            out_ty = sf.ret_ty if sf.kind == "closure" and sf.ret_ty else "?"
            out = newl(out_ty)
            CONT = add(blk_([], None))
            entry = sf.emit([cur_item], out, CONT, line, unwind, cleanup, new, n0 + len(new))
            new[tail - n0]["term"] = goto(entry)
            tail = CONT
            cur_item = out
        else:
            ity = c["locals"][cur_item]["ty"]
            r = newl("&" + ity)
            fbool = newl("bool")
            PREP = add(blk_([assign(loc(r), {"k": "ref", "mut": False, "place": loc(cur_item)})], None))
            TEST = add(blk_([], None))
            entry = sf.emit([r], fbool, TEST, line, unwind, cleanup, new, n0 + len(new))
            new[PREP - n0]["term"] = goto(entry)
            new[tail - n0]["term"] = goto(PREP)
            KEEP = add(blk_([], None))
            new[TEST - n0]["term"] = {"k": "switch", "op": mv(fbool), "ty": "bool", "targets": [[0, H]], "otherwise": KEEP, "line": line, "exp": False}
            tail = KEEP
        if sf.kind == "closure":
            used.append(sf.cpath)
    item = cur_item
    # the adaptor itself
    sw = lambda zero, other: {"k": "switch", "op": mv(ret), "ty": "bool", "targets": [[0, zero]], "otherwise": other, "line": line, "exp": False}
    if kind in ("min", "max"):
        ord_fn = {"def": "std::cmp::Ord::%s" % kind, "inst": "<%s as std::cmp::Ord>::%s" % (item_ty, kind), "targs": [item_ty], "local": False, "trait": "std::cmp::Ord", "res": "std::cmp::Ord::%s" % kind, "res_inst": "<%s as std::cmp::Ord>::%s" % (item_ty, kind), "res_local": False, "res_kind": "item"}
        FIRST = add(blk_([assign(loc(acc), {"k": "use", "op": mv(item)}), assign(loc(has), {"k": "use", "op": _bool_const(True)})], goto(H)))
        UPD = add(blk_([assign(loc(acc), {"k": "use", "op": mv(ret)})], goto(H)))
        CALL = add(blk_([], {"k": "call", "func": {"k": "const", "ty": "fn", "fn": ord_fn}, "args": [mv(acc), mv(item)], "dest": loc(ret), "t": UPD, "unwind": unwind, "line": line, "exp": False}))
        new[tail - n0]["term"] = {"k": "switch", "op": {"k": "copy", "place": loc(has)}, "ty": "bool", "targets": [[0, FIRST]], "otherwise": CALL, "line": line, "exp": False}
        SOME_OUT = add(blk_([assign(copy.deepcopy(dest), opt_some(mv(acc)))], goto(after)))
        NONE_OUT = add(blk_([assign(copy.deepcopy(dest), opt_none)], goto(after)))
        new[NONE - n0]["term"] = {"k": "switch", "op": {"k": "copy", "place": loc(has)}, "ty": "bool", "targets": [[0, NONE_OUT]], "otherwise": SOME_OUT, "line": line, "exp": False}
    else:
        none_val = {"all": {"k": "use", "op": _bool_const(True)}, "any": {"k": "use", "op": _bool_const(False)}, "find": opt_none, "position": opt_none, "for_each": unit, "fold": {"k": "use", "op": mv(acc if acc is not None else 0)}}[kind]
        new[NONE - n0]["stmts"].append(assign(copy.deepcopy(dest), none_val))
        new[NONE - n0]["term"] = goto(after)
        RET = add(blk_([], None))
        if kind == "find":
            item_ref = newl("&" + c["locals"][item]["ty"])
            PREP = add(blk_([assign(loc(item_ref), {"k": "ref", "mut": False, "place": loc(item)})], None))
            entry = fun.emit([item_ref], ret, RET, line, unwind, cleanup, new, n0 + len(new))
            new[PREP - n0]["term"] = goto(entry)
            new[tail - n0]["term"] = goto(PREP)
        else:
            entry = fun.emit([acc, item] if kind == "fold" else [item], ret, RET, line, unwind, cleanup, new, n0 + len(new))
            new[tail - n0]["term"] = goto(entry)
        if kind == "all":
            EXIT = add(blk_([assign(copy.deepcopy(dest), {"k": "use", "op": _bool_const(False)})], goto(after)))
            new[RET - n0]["term"] = sw(EXIT, H)
        elif kind == "any":
            EXIT = add(blk_([assign(copy.deepcopy(dest), {"k": "use", "op": _bool_const(True)})], goto(after)))
            new[RET - n0]["term"] = sw(H, EXIT)
        elif kind == "find":
            EXIT = add(blk_([assign(copy.deepcopy(dest), opt_some(mv(item)))], goto(after)))
            new[RET - n0]["term"] = sw(H, EXIT)
        elif kind == "position":
            EXIT = add(blk_([assign(copy.deepcopy(dest), opt_some({"k": "copy", "place": loc(idx)}))], goto(after)))
            INC = add(blk_([assign(loc(idx), {"k": "bin", "op": "Add", "a": {"k": "copy", "place": loc(idx)}, "b": {"k": "const", "ty": "usize", "int": 1}})], goto(H)))
            new[RET - n0]["term"] = sw(INC, EXIT)
        elif kind == "fold":
            new[RET - n0]["stmts"].append(assign(loc(acc), {"k": "use", "op": mv(ret)}))
            new[RET - n0]["term"] = goto(H)
        else:
            new[RET - n0]["term"] = goto(H)
    for nb in new:
        assert nb["term"] is not None
    c["blocks"].extend(new)
    out = ([fun.cpath] if (fun is not None and fun.kind == "closure") else []) + used
    return out or ["<fn>"]


def _desugar_option_fn(c, bi, name, fn, strip_lt):
    """`x.and_then(F)` / `x.map(F)` with a function item F: the match they abbreviate, F called on the payload."""
    blk = c["blocks"][bi]
    t = blk["term"]
    x, f = t["args"]
    if x.get("k") not in ("move", "copy") or f.get("k") != "const" or "fn" not in f or t["dest"]["p"]:
        return False
    line, cleanup, unwind = t.get("line"), blk.get("cleanup", False), t.get("unwind")
    L = c["locals"]
    opt_ty = L[x["place"]["l"]]["ty"] if not x["place"]["p"] else "std::option::Option<?>"
    m = None
    import re as _re
    m = _re.match(r"^std::option::Option<(.*)>$", opt_ty)
    pay_ty = m.group(1) if m else "?"
    disc, pay, tmp = len(L), len(L) + 1, len(L) + 2
    dest_ty = L[t["dest"]["l"]]["ty"]
    md = _re.match(r"^std::option::Option<(.*)>$", dest_ty)
    L.extend([_local("isize"), _local(pay_ty), _local(md.group(1) if (md and name == "map") else dest_ty)])
    n0 = len(c["blocks"])
    D, U, SOME, NONE, WRAP = n0, n0 + 1, n0 + 2, n0 + 3, n0 + 4
    xp = x["place"]

    def assign(place, rv):
        return {"k": "assign", "place": place, "rv": rv, "line": line, "exp": False}

    after, dest = t["t"], t["dest"]
    blk["term"] = {"k": "goto", "t": D}
    new = []
    new.append({"stmts": [assign({"l": disc, "p": []}, {"k": "discr", "place": copy.deepcopy(xp), "ty": opt_ty, "variants": [[0, "None"], [1, "Some"]]})],
                "term": {"k": "switch", "op": {"k": "move", "place": {"l": disc, "p": []}}, "ty": "isize", "targets": [[0, NONE], [1, SOME]], "otherwise": U, "line": line, "exp": False}, "cleanup": cleanup})
    new.append({"stmts": [], "term": {"k": "unreachable"}, "cleanup": cleanup})
    payload = {"l": xp["l"], "p": list(xp["p"]) + [{"downcast": "Some", "v": 1}, {"f": "0", "i": 0, "adt": "std::option::Option", "ty": pay_ty}]}
    call_dest = {"l": tmp, "p": []} if name == "map" else copy.deepcopy(dest)
    new.append({"stmts": [assign({"l": pay, "p": []}, {"k": "use", "op": {"k": "move", "place": payload}})],
                "term": {"k": "call", "func": copy.deepcopy(f), "args": [{"k": "move", "place": {"l": pay, "p": []}}], "dest": call_dest, "t": WRAP if name == "map" else after, "unwind": unwind, "line": line, "exp": False}, "cleanup": cleanup})
    new.append({"stmts": [assign(copy.deepcopy(dest), {"k": "agg", "agg": "adt", "adt": "std::option::Option", "variant": "None", "vidx": 0, "fnames": [], "fields": []})], "term": {"k": "goto", "t": after}, "cleanup": cleanup})
    new.append({"stmts": [assign(copy.deepcopy(dest), {"k": "agg", "agg": "adt", "adt": "std::option::Option", "variant": "Some", "vidx": 1, "fnames": ["0"], "fields": [{"k": "move", "place": {"l": tmp, "p": []}}]})], "term": {"k": "goto", "t": after}, "cleanup": cleanup})
    c["blocks"].extend(new)
    return True


def desugar_iterator_adaptors(raw, strip_lt, log=None):
    if raw.get("crate") != "regexml":
        return []
    bodies = raw["bodies"]
    by_path = {}
    for b in bodies:
        by_path.setdefault(strip_lt(b["path"]), b)
    done = []
    vp = os.path.join(os.path.dirname(os.path.abspath(__file__)), "vocabulary_adaptors.json")
    reference = json.load(open(vp)) if os.path.exists(vp) else {}
    for c in bodies:
        bi = 0
        keep = reference.get(strip_lt(c["path"]).split("::{closure")[0], {})
        budget = 60
        while bi < len(c["blocks"]) and len(c["blocks"]) < 4000 and budget > 0:
            blk = c["blocks"][bi]
            t = blk["term"]
            if t["k"] == "call" and not blk.get("cleanup"):
                f = t.get("func", {})
                fn = f.get("fn") if f.get("k") == "const" else None
                d = fn.get("def") if fn else None
                kind = ADAPTORS.get(d) if fn else None
                nargs = 3 if kind == "fold" else 1 if kind in ("min", "max") else 2
                if kind and not keep.get(kind) and len(t.get("args", [])) == nargs and t.get("t") is not None and t.get("dest") is not None:
                    cp = _desugar_one(c, bi, kind, fn, by_path, strip_lt)
                    if cp:
                        budget -= 1
                        for x in cp:
                            done.append((strip_lt(c["path"]), kind, x))
                elif d in ("std::option::Option::<T>::and_then", "std::option::Option::<T>::map") and not keep.get("option_fn") and len(t.get("args", [])) == 2 and t.get("t") is not None:
                    if _desugar_option_fn(c, bi, d.split("::")[-1], fn, strip_lt):
                        done.append((strip_lt(c["path"]), "option_" + d.split("::")[-1], "<fn>"))
            bi += 1
    if done:
        # closure bodies that no aggregate creates any more are gone from the program
        s = json.dumps([b["blocks"] for b in bodies])
        gone = {d[2] for d in done if d[2] != "<fn>" and json.dumps(d[2])[1:-1] not in s}
        raw["bodies"] = [b for b in bodies if strip_lt(b["path"]) not in gone and not any(strip_lt(b["path"]).startswith(g + "::") for g in gone)]
    if log and done:
        log("desugared %d iterator adaptor call(s)" % len(done))
    return done


def desugar_memos(raw, strip_lt, log=None):
    """`S.get_or_init(f)` on a `static S: OnceLock<T>` with a parameterless function item f is a memo of the constant
    f(): the call is replaced by `f()` (and a reference to its result), so that code which computes a table on every
    call and code which caches it once per process reach the rules alike.  That statics are used in no other way is
    checked by API-STATICS on the calls this pass leaves alone; the reference tree's own memo sites are left as they
    are (rxv/vocabulary_adaptors.json, kind "memo")."""
    if raw.get("crate") != "regexml":
        return []
    vp = os.path.join(os.path.dirname(os.path.abspath(__file__)), "vocabulary_adaptors.json")
    reference = json.load(open(vp)) if os.path.exists(vp) else {}
    by_path = {}
    for b in raw["bodies"]:
        by_path.setdefault(strip_lt(b["path"]), b)
    done = []
    for c in raw["bodies"]:
        if reference.get(strip_lt(c["path"]).split("::{closure")[0], {}).get("memo"):
            continue
        for bi in range(len(c["blocks"])):
            blk = c["blocks"][bi]
            t = blk["term"]
            if t["k"] != "call" or blk.get("cleanup") or t.get("t") is None:
                continue
            f = t.get("func", {})
            fn = f.get("fn") if f.get("k") == "const" else None
            if not fn or fn.get("def") != "std::sync::OnceLock::<T>::get_or_init" or len(t["args"]) != 2:
                continue
            ini = t["args"][1]
            if ini.get("k") != "const" or "fn" not in ini:
                continue
            target = by_path.get(strip_lt(ini["fn"].get("res", ini["fn"]["def"])))
            if target is None or target["argc"] != 0 or t["dest"]["p"]:
                continue
            L = c["locals"]
            tmp = len(L)
            L.append(_local(target["locals"][0]["ty"]))
            n0 = len(c["blocks"])
            dest, after = t["dest"], t["t"]
            blk["term"] = {"k": "call", "func": copy.deepcopy(ini), "args": [], "dest": {"l": tmp, "p": []}, "t": n0, "unwind": t.get("unwind"), "line": t.get("line"), "exp": False}
            c["blocks"].append({"stmts": [{"k": "assign", "place": copy.deepcopy(dest), "rv": {"k": "ref", "mut": False, "place": {"l": tmp, "p": []}}, "line": t.get("line"), "exp": False}], "term": {"k": "goto", "t": after}, "cleanup": False})
            done.append((strip_lt(c["path"]), strip_lt(ini["fn"].get("res", ini["fn"]["def"]))))
    if log and done:
        log("memo sites read as calls: %s" % done)
    return done
