"""Normalisation of the facts before any analysis: calls to *new* private helper functions are inlined.

A function of the crate that is not in the committed vocabulary (rxv/vocabulary.json: the functions of the reference
tree) was introduced by a later edit - typically "extract function".  Every rule is written over the functions of the
vocabulary, so a new helper is spliced into its callers (MIR-level inlining on the JSON facts: locals and blocks are
renumbered, arguments become assignments, `return` becomes an assignment to the call's destination and a goto).  The
analyses then see the code as if the statements had never been moved.  Not inlined: closures, generic instances,
recursive helpers, helpers above the size bound (those stay opaque calls, and a rule that needs to look inside
reports an unrecognised path)."""
import copy, json, os

MAX_BLOCKS = 120
MAX_ROUNDS = 4


def _callee_path(t, strip_lt):
    f = t.get("func", {})
    if f.get("k") == "const" and "fn" in f:
        fn = f["fn"]
        return strip_lt(fn.get("res", fn["def"])), fn
    return None, None


def _remap(node, lo, bo, po):
    """Deep copy of a callee fragment with locals shifted by lo, blocks by bo, promoted indices by po."""
    if isinstance(node, list):
        return [_remap(x, lo, bo, po) for x in node]
    if not isinstance(node, dict):
        return node
    out = {}
    for k, v in node.items():
        if k == "l" and isinstance(v, int):
            out[k] = v + lo
        elif k == "idx" and isinstance(v, int):
            out[k] = v + lo
        elif k in ("t", "unwind", "otherwise") and isinstance(v, int):
            out[k] = v + bo
        elif k == "targets" and isinstance(v, list):
            out[k] = [[a, b + bo] for a, b in v]
        elif k == "promoted" and isinstance(v, int):
            out[k] = v + po
        else:
            out[k] = _remap(v, lo, bo, po)
    return out


def inline_new_helpers(raw, vocabulary, strip_lt, log=None):
    bodies = raw["bodies"]
    by_path = {}
    for b in bodies:
        by_path.setdefault(strip_lt(b["path"]), b)
    voc = set(vocabulary)

    def eligible(p):
        b = by_path.get(p)
        if b is None or p in voc:
            return False
        if b.get("kind") not in ("Fn", "AssocFn") or "{closure" in p or "{constant" in p:
            return False
        if len(b["blocks"]) > MAX_BLOCKS:
            return False
        return True

    new = {p for p in by_path if eligible(p)}
    if not new:
        return []
    # drop recursive helpers (a helper that can reach itself through new helpers)
    edges = {}
    for p in new:
        es = set()
        for blk in by_path[p]["blocks"]:
            t = blk["term"]
            if t["k"] == "call":
                cp, fn = _callee_path(t, strip_lt)
                if cp in new:
                    es.add(cp)
        edges[p] = es
    def reaches_self(p):
        seen, st = set(), list(edges[p])
        while st:
            x = st.pop()
            if x == p:
                return True
            if x in seen:
                continue
            seen.add(x)
            st.extend(edges.get(x, ()))
        return False
    new = {p for p in new if not reaches_self(p)}
    done = []
    for _ in range(MAX_ROUNDS):
        changed = False
        for c in bodies:
            bi = 0
            while bi < len(c["blocks"]):
                blk = c["blocks"][bi]
                t = blk["term"]
                if t["k"] == "call":
                    cp, fn = _callee_path(t, strip_lt)
                    if cp in new and strip_lt(c["path"]) != cp and not [x for x in fn.get("targs", []) if not x.startswith("'")] and len(t.get("args", [])) == by_path[cp]["argc"]:
                        f = by_path[cp]
                        lo, bo, po = len(c["locals"]), len(c["blocks"]), len(c.get("promoted", []))
                        c["locals"].extend(copy.deepcopy(f["locals"]))
                        c.setdefault("promoted", []).extend(copy.deepcopy(f.get("promoted", [])))
                        fb = _remap(f["blocks"], lo, bo, po)
                        cleanup = blk.get("cleanup", False)
                        for nb in fb:
                            if cleanup:
                                nb["cleanup"] = True
                            nt = nb["term"]
                            if nt["k"] == "return":
                                dest = t.get("dest")
                                if dest is not None:
                                    nb["stmts"].append({"k": "assign", "place": copy.deepcopy(dest), "rv": {"k": "use", "op": {"k": "move", "place": {"l": lo, "p": []}}}, "line": t.get("line"), "exp": False})
                                if t.get("t") is not None:
                                    nb["term"] = {"k": "goto", "t": t["t"]}
                                else:
                                    nb["term"] = {"k": "unreachable"}
                            elif nt["k"] == "resume":
                                if t.get("unwind") is not None:
                                    nb["term"] = {"k": "goto", "t": t["unwind"]}
                        for k, a in enumerate(t.get("args", [])):
                            blk["stmts"].append({"k": "assign", "place": {"l": lo + 1 + k, "p": []}, "rv": {"k": "use", "op": copy.deepcopy(a)}, "line": t.get("line"), "exp": False})
                        blk["term"] = {"k": "goto", "t": bo}
                        c["blocks"].extend(fb)
                        done.append((strip_lt(c["path"]), cp))
                        changed = True
                bi += 1
        if not changed:
            break
    # a helper whose every call was inlined is no longer part of the program the rules look at
    if done:
        still = set()
        for c in bodies:
            for blk in c["blocks"]:
                t = blk["term"]
                if t["k"] == "call":
                    cp, fn = _callee_path(t, strip_lt)
                    if cp in new:
                        still.add(cp)
        gone = {d[1] for d in done} - still
        if gone:
            raw["bodies"] = [b for b in bodies if strip_lt(b["path"]) not in gone]
    if log and done:
        log("inlined %d call(s) to functions outside the vocabulary: %s" % (len(done), sorted({d[1] for d in done})))
    return done


def _succs(t):
    k = t["k"]
    if k == "goto":
        return [t["t"]]
    if k == "switch":
        return [x[1] for x in t["targets"]] + [t["otherwise"]]
    if k in ("call", "assert", "drop"):
        return [t["t"]] if t.get("t") is not None else []
    return []


def _closures_in_flow_order(b):
    blocks = b["blocks"]
    seen, post, stack = {0}, [], [(0, iter(_succs(blocks[0]["term"])))]
    while stack:
        v, it = stack[-1]
        for w in it:
            if w not in seen and not blocks[w].get("cleanup"):
                seen.add(w)
                stack.append((w, iter(_succs(blocks[w]["term"]))))
                break
        else:
            post.append(v)
            stack.pop()
    out = []
    for bi in post[::-1]:
        for st in blocks[bi]["stmts"]:
            if st["k"] == "assign" and st["rv"].get("k") == "agg" and st["rv"].get("agg") == "closure":
                d = st["rv"]["def"]
                if d not in out:
                    out.append(d)
    return out


def canonicalise_closures(raw, log=None):
    """Closures are named after the function whose (inlined) code creates them, numbered in control-flow order.
    On an unrefactored tree this is rustc's own numbering; after "extract function" the closures that moved with
    the statements get back the names they would have had."""
    ren = {}
    for b in raw["bodies"]:
        if "{closure" in b["path"]:
            continue
        for k, d in enumerate(_closures_in_flow_order(b)):
            want = "%s::{closure#%d}" % (b["path"], k)
            if d != want:
                ren[d] = want
    if not ren:
        return {}
    s = json.dumps(raw)
    tmp = {}
    for i, (o, n) in enumerate(sorted(ren.items(), key=lambda x: -len(x[0]))):
        ph = "\u0001CLOSURE%d\u0001" % i
        tmp[ph] = n
        s = s.replace(json.dumps(o)[1:-1], ph)
    for ph, n in tmp.items():
        s = s.replace(ph, json.dumps(n)[1:-1])
    new = json.loads(s)
    raw.clear()
    raw.update(new)
    if log:
        log("renamed %d closure(s) to their flow-order names" % len(ren))
    return ren


def canonicalise_modules(raw, vocabulary, vocab_fields, strip_lt, log=None):
    """Items moved to another module (file split / merge): a type or free function whose name is unique in the crate
    and in the vocabulary, missing under its vocabulary path and present under a new one, gets its vocabulary path
    back (textual replacement of the qualified name throughout the facts)."""
    import re as _re
    cur_adts = {strip_lt(a["path"]) for a in raw.get("adts", []) if (a.get("span") or {}).get("file", "").startswith("regexml/")}
    ref_adts = set(vocab_fields or {})
    cur_fns = {strip_lt(b["path"]) for b in raw["bodies"] if b.get("kind") == "Fn" and "{" not in b["path"] and "<" not in b["path"]}
    ref_fns = {p for p in vocabulary if "<" not in p and "{" not in p}
    # free functions of the vocabulary: paths whose parent is not a known type
    ref_types = {p for p in ref_adts}
    ren = {}

    def plan(cur, ref):
        new = [p for p in cur if p not in ref]
        lost = [p for p in ref if p not in cur]
        for n in new:
            name = n.split("::")[-1]
            cands = [l for l in lost if l.split("::")[-1] == name]
            same_new = [m for m in new if m.split("::")[-1] == name]
            if len(cands) == 1 and len(same_new) == 1 and n.count("::") >= 1:
                ren[n] = cands[0]

    plan(cur_adts, ref_adts)
    # a renamed struct: same module, identical field list, unique on both sides
    curf = {}
    for a in raw.get("adts", []):
        ap = strip_lt(a["path"])
        if ap in cur_adts and a.get("kind") == "Struct" and len(a.get("variants", [])) == 1:
            curf[ap] = [[f["name"], strip_lt(f["ty"])] for f in a["variants"][0]["fields"]]
    for n in [p for p in cur_adts if p not in ref_adts and p not in ren]:
        if n not in curf or not curf[n]:
            continue
        same_mod = lambda a, b: a.rsplit("::", 1)[0] == b.rsplit("::", 1)[0]
        cands = [l for l in ref_adts if l not in cur_adts and l not in ren.values() and same_mod(l, n) and [[fn_, ft.replace(l, "\0SELF")] for fn_, ft in vocab_fields[l]] == [[fn_, ft.replace(n, "\0SELF")] for fn_, ft in curf[n]]]
        rivals = [m for m in cur_adts if m not in ref_adts and m in curf and curf[m] == curf[n]]
        if len(cands) == 1 and len(rivals) == 1:
            ren[n] = cands[0]
    plan({p for p in cur_fns if "::".join(p.split("::")[:-1]) not in cur_adts}, {p for p in ref_fns if "::".join(p.split("::")[:-1]) not in ref_types and p.count("::") == 1})
    if not ren:
        return {}
    s = json.dumps(raw)
    for o, n in sorted(ren.items(), key=lambda x: -len(x[0])):
        s = _re.sub(r"(?<![A-Za-z0-9_:])%s(?![A-Za-z0-9_])" % _re.escape(o), n.replace("\\", "\\\\"), s)
    new = json.loads(s)
    raw.clear()
    raw.update(new)
    if log:
        log("items given back their vocabulary module paths: %s" % ren)
    return ren


def canonicalise_renamed_functions(raw, vocab_sigs, strip_lt, log=None):
    """A private function that was renamed: a vocabulary function is missing, and in the same parent (module, type or
    trait impl) exactly one function outside the vocabulary has the identical signature -> it gets the vocabulary
    name back.  Done before the inlining of non-vocabulary functions."""
    import re as _re
    cur = {strip_lt(b["path"]): strip_lt(b.get("sig") or "") for b in raw["bodies"] if b.get("kind") in ("Fn", "AssocFn")}
    lost = {p: s for p, s in vocab_sigs.items() if p not in cur}
    new = {p: s for p, s in cur.items() if p not in vocab_sigs}
    ren = {}
    parent = lambda p: p.rsplit("::", 1)[0]
    for lp, ls in lost.items():
        cands = [np for np, ns in new.items() if parent(np) == parent(lp) and ns == ls and ns]
        rivals = [lp2 for lp2, ls2 in lost.items() if parent(lp2) == parent(lp) and ls2 == ls]
        if len(cands) == 1 and len(rivals) == 1:
            ren[cands[0]] = lp
        elif len(cands) == len(rivals) > 1:
            # several functions with the same signature renamed together (getters, setters): pair them in source order
            order_new = [p_ for p_ in new if p_ in cands]
            order_lost = [p_ for p_ in vocab_sigs if p_ in rivals]
            for a_, b_ in zip(order_new, order_lost):
                ren.setdefault(a_, b_)
    if not ren:
        return {}
    # raw paths may carry lifetime arguments (`Type::<'a>::f`): rename by the last segment within the same parent
    s = json.dumps(raw)
    for o, n in ren.items():
        on, nn = o.rsplit("::", 1)[1], n.rsplit("::", 1)[1]
        par = _re.escape(parent(o)).replace("\\:\\:", "(?:::<[^>]*>)?::")
        s = _re.sub(r"(%s(?:::<[^>]*>)?::)%s(?![A-Za-z0-9_])" % (par, _re.escape(on)), lambda m: m.group(1) + nn, s)
    newraw = json.loads(s)
    raw.clear()
    raw.update(newraw)
    if log:
        log("renamed functions given back their vocabulary names: %s" % ren)
    return ren


def load_vocabulary_sigs():
    p = os.path.join(os.path.dirname(os.path.abspath(__file__)), "vocabulary_sigs.json")
    if not os.path.exists(p):
        return None
    return json.load(open(p))


def canonicalise_fields(raw, vocab_fields, strip_lt, log=None):
    """Struct fields of the crate's own types: a field that was renamed is given back its vocabulary name when its
    type identifies it (exactly one field of that type lost its name and exactly one new name of that type appeared),
    and aggregates list their fields in the vocabulary's order (declaration order is unobservable)."""
    ren = {}    # adt -> {new name: vocabulary name}
    order = {}  # adt -> [names in vocabulary order]
    for a in raw.get("adts", []):
        ap = strip_lt(a["path"])
        ref = vocab_fields.get(ap)
        if not ref or a.get("kind") != "Struct" or len(a.get("variants", [])) != 1:
            continue
        cur = [(f["name"], strip_lt(f["ty"])) for f in a["variants"][0]["fields"]]
        refn = [n for n, _ in ref]
        curn = [n for n, _ in cur]
        m = {}
        if [ty for _, ty in cur] == [ty for _, ty in ref]:
            # same types in the same order: a pure rename, resolved by position
            for (n, _), (rn, _) in zip(cur, ref):
                if n != rn and n not in refn and rn not in curn:
                    m[n] = rn
        for n, ty in cur:
            if n in refn or n in m:
                continue
            lost = [rn for rn, rty in ref if rty == ty and rn not in curn]
            new_same = [cn for cn, cty in cur if cty == ty and cn not in refn]
            if len(lost) == 1 and len(new_same) == 1:
                m[n] = lost[0]
        if m:
            ren[ap] = m
        order[ap] = refn
    if not ren and not order:
        return {}

    def fix(node):
        if isinstance(node, list):
            for x in node:
                fix(x)
            return
        if not isinstance(node, dict):
            return
        if "f" in node and "adt" in node and isinstance(node.get("f"), str):
            m = ren.get(strip_lt(node["adt"]))
            if m and node["f"] in m:
                node["f"] = m[node["f"]]
        if node.get("k") == "agg" and node.get("agg") == "adt" and node.get("fnames"):
            ap = strip_lt(node.get("adt", ""))
            m = ren.get(ap, {})
            names = [m.get(n, n) for n in node["fnames"]]
            ref = order.get(ap)
            if ref and len(names) == len(node.get("fields", [])) and set(names) <= set(ref):
                pairs = sorted(zip(names, node["fields"]), key=lambda x: ref.index(x[0]))
                names = [x[0] for x in pairs]
                node["fields"] = [x[1] for x in pairs]
            node["fnames"] = names
        for v in node.values():
            fix(v)

    fix(raw["bodies"])
    for a in raw.get("adts", []):
        m = ren.get(strip_lt(a["path"]))
        if m:
            for f in a["variants"][0]["fields"]:
                f["name"] = m.get(f["name"], f["name"])
    if log and ren:
        log("fields given back their vocabulary names: %s" % ren)
    return ren


def load_vocabulary_fields():
    p = os.path.join(os.path.dirname(os.path.abspath(__file__)), "vocabulary_fields.json")
    if not os.path.exists(p):
        return None
    return json.load(open(p))


def load_vocabulary():
    p = os.path.join(os.path.dirname(os.path.abspath(__file__)), "vocabulary.json")
    if not os.path.exists(p):
        return None
    return json.load(open(p))
