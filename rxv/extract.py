"""E1 runner: builds (if needed) and runs the rxfacts driver over a source tree
and returns the directory with the fact files.  Facts are cached under the
SHA-256 of every file that feeds the build, so every check rebuilds from the
*current* tree while the 20 checks share one extraction."""
import fcntl, hashlib, os, subprocess, sys, time, uuid, shutil, json

VERIF = os.path.dirname(os.path.dirname(os.path.abspath(__file__)))
CACHE = os.path.join(VERIF, ".cache")
DRIVER_DIR = os.path.join(VERIF, "driver")
DRIVER = os.path.join(DRIVER_DIR, "target", "release", "rxfacts")


def _sysroot():
    return subprocess.check_output(["rustc", "+nightly", "--print", "sysroot"], text=True).strip()


def tree_hash(repo):
    h = hashlib.sha256()
    files = []
    for top in ("Cargo.toml", "Cargo.lock"):
        files.append(top)
    if os.path.isdir(os.path.join(repo, "src")):
        for root, dirs, fs in os.walk(os.path.join(repo, "src")):
            dirs.sort()
            for f in sorted(fs):
                files.append(os.path.relpath(os.path.join(root, f), repo))
    for member in sorted(os.listdir(repo)):
        mp = os.path.join(repo, member)
        if member in ("target", ".git") or not os.path.isdir(mp):
            continue
        if not os.path.exists(os.path.join(mp, "Cargo.toml")):
            continue
        files.append(os.path.join(member, "Cargo.toml"))
        for root, dirs, fs in os.walk(os.path.join(mp, "src")):
            dirs.sort()
            for f in sorted(fs):
                files.append(os.path.relpath(os.path.join(root, f), repo))
        # README is include_str!-ed into the crate docs
        if os.path.exists(os.path.join(mp, "README.md")):
            files.append(os.path.join(member, "README.md"))
    for f in files:
        p = os.path.join(repo, f)
        h.update(f.encode() + b"\0")
        try:
            with open(p, "rb") as fh:
                h.update(fh.read())
        except OSError:
            h.update(b"<missing>")
        h.update(b"\0")
    # the driver itself is part of the key
    try:
        with open(os.path.join(DRIVER_DIR, "src", "main.rs"), "rb") as fh:
            h.update(fh.read())
    except OSError:
        pass
    return h.hexdigest()[:24]


def build_driver(log=sys.stderr):
    src = os.path.join(DRIVER_DIR, "src", "main.rs")
    if os.path.exists(DRIVER) and os.path.getmtime(DRIVER) >= os.path.getmtime(src):
        return
    env = dict(os.environ, CARGO_NET_OFFLINE="true")
    r = subprocess.run(["cargo", "+nightly", "build", "--release", "--offline"], cwd=DRIVER_DIR, env=env, stdout=subprocess.PIPE, stderr=subprocess.STDOUT, text=True)
    if r.returncode != 0:
        log.write(r.stdout)
        raise SystemExit(2)


class CompileError(Exception):
    pass


def extract(repo="/repo", target_dir=None, out_dir=None, use_cache=True, log=sys.stderr, main_json="regexml.main.json", fp_prefix="regexml", lock_name="extract.lock"):
    """Returns the directory holding <crate>.main.json fact files for the tree at `repo`."""
    os.makedirs(CACHE, exist_ok=True)
    build_driver(log)
    key = tree_hash(repo)
    if out_dir is None:
        out_dir = os.path.join(CACHE, "facts", key)
    if target_dir is None:
        target_dir = os.path.join(CACHE, "target")
    lock = open(os.path.join(CACHE, lock_name), "w")
    fcntl.flock(lock, fcntl.LOCK_EX)
    try:
        marker = os.path.join(out_dir, "OK")
        if use_cache and os.path.exists(marker):
            return out_dir, {"cached": True, "key": key}
        if os.path.exists(out_dir):
            shutil.rmtree(out_dir)
        os.makedirs(out_dir)
        os.makedirs(target_dir, exist_ok=True)
        # cargo's freshness cache would silently skip the wrapper: drop the
        # workspace members' fingerprints so that they are always re-checked
        fp = os.path.join(target_dir, "debug", ".fingerprint")
        if os.path.isdir(fp):
            for d in os.listdir(fp):
                if d.startswith(fp_prefix):
                    shutil.rmtree(os.path.join(fp, d), ignore_errors=True)
        nonce = uuid.uuid4().hex
        env = dict(os.environ)
        env.update(
            LD_LIBRARY_PATH=os.path.join(_sysroot(), "lib") + ":" + env.get("LD_LIBRARY_PATH", ""),
            RUSTFLAGS="-Zmir-opt-level=0 -Awarnings",
            RUSTC_WORKSPACE_WRAPPER=DRIVER,
            RXFACTS_OUT=out_dir,
            RXFACTS_NONCE=nonce,
            CARGO_TARGET_DIR=target_dir,
            CARGO_NET_OFFLINE="true",
        )
        env.pop("RUSTC_WRAPPER", None)
        t0 = time.time()
        r = subprocess.run(["cargo", "+nightly", "check", "--offline", "--workspace", "-j", "16"], cwd=repo, env=env, stdout=subprocess.PIPE, stderr=subprocess.STDOUT, text=True)
        if r.returncode != 0:
            shutil.rmtree(out_dir, ignore_errors=True)
            raise CompileError(r.stdout[-6000:])
        main = os.path.join(out_dir, main_json)
        if not os.path.exists(main):
            shutil.rmtree(out_dir, ignore_errors=True)
            raise CompileError("driver wrote no fact file (cargo skipped the wrapper?)\n" + r.stdout[-3000:])
        with open(main) as fh:
            head = fh.read(200)
        if nonce not in head and nonce not in open(main).read(4096):
            # nonce is near the start of the file
            raise CompileError("fact file does not carry this run's nonce")
        with open(marker, "w") as fh:
            json.dump({"key": key, "nonce": nonce, "wall_s": time.time() - t0}, fh)
        # keep the facts cache small
        base = os.path.join(CACHE, "facts")
        ds = sorted((os.path.getmtime(os.path.join(base, d)), d) for d in os.listdir(base))
        for _, d in ds[:-48]:  # more than the number of trees analysed side by side (tools/*_results.py -j 14)
            shutil.rmtree(os.path.join(base, d), ignore_errors=True)
        return out_dir, {"cached": False, "key": key, "wall_s": time.time() - t0}
    finally:
        fcntl.flock(lock, fcntl.LOCK_UN)
        lock.close()


if __name__ == "__main__":
    repo = sys.argv[1] if len(sys.argv) > 1 else "/repo"
    d, info = extract(repo)
    print(d, info)
