"""Loading of the fact files written by the rxfacts driver + CFG utilities.

Everything here is a pure function of the JSON facts; nothing of /repo is run.
"""
import json, re

_LT1 = re.compile(r"::<'[A-Za-z_0-9]+(?:, '[A-Za-z_0-9]+)*>")
_LT2 = re.compile(r"<'[A-Za-z_0-9]+(?:, '[A-Za-z_0-9]+)*>")
_LT3 = re.compile(r"'[A-Za-z_0-9]+, ")
_LT4 = re.compile(r"&'[A-Za-z_0-9]+ ")
_LT5 = re.compile(r"(?:^| )\+ '[A-Za-z_0-9]+")


def strip_lt(s):
    if not isinstance(s, str) or "'" not in s:
        return s
    s = _LT1.sub("", s)
    s = _LT2.sub("", s)
    s = _LT4.sub("&", s)
    s = _LT3.sub("", s)
    s = _LT5.sub("", s)
    return s


class Body:
    def __init__(self, raw, parent=None, promoted_idx=None):
        self.raw = raw
        self.parent = parent
        self.promoted_idx = promoted_idx
        if parent is None:
            self.path = strip_lt(raw["path"])
            self.kind = raw["kind"]
            self.vis = raw["vis"]
            self.span = raw["span"]
            self.impl_self = strip_lt(raw.get("impl_self"))
            self.impl_adt = raw.get("impl_adt")
            self.impl_trait = raw.get("impl_trait")
            self.name = raw.get("name")
            self.sig = strip_lt(raw.get("sig"))
            self.from_expansion = raw["span"]["exp"]
            self.promoted = [Body(p, self, i) for i, p in enumerate(raw.get("promoted", []))]
        else:
            self.path = "%s::promoted[%d]" % (parent.path, promoted_idx)
            self.kind = "Promoted"
            self.vis = "n/a"
            self.span = parent.span
            self.impl_self = parent.impl_self
            self.impl_adt = parent.impl_adt
            self.impl_trait = parent.impl_trait
            self.name = None
            self.sig = None
            self.from_expansion = parent.from_expansion
            self.promoted = []
        self.argc = raw["argc"]
        self.locals = raw["locals"]
        self.blocks = raw["blocks"]
        self.file = self.span["file"]
        self._succ = None
        self._pred = None
        self._idom = None
        self._reach = None

    # ---------------------------------------------------------------- CFG
    def term(self, bb):
        return self.blocks[bb]["term"]

    def succs(self, bb):
        """Successors without unwind edges."""
        if self._succ is None:
            self._succ = [self._succs(i) for i in range(len(self.blocks))]
        return self._succ[bb]

    def _succs(self, bb):
        t = self.blocks[bb]["term"]
        k = t["k"]
        if k == "goto":
            return [t["t"]]
        if k == "switch":
            out = []
            for _, b in t["targets"]:
                if b not in out:
                    out.append(b)
            if t["otherwise"] not in out:
                out.append(t["otherwise"])
            return out
        if k in ("call", "drop", "assert"):
            return [t["t"]] if t.get("t") is not None else []
        return []

    def preds(self, bb):
        if self._pred is None:
            self._pred = [[] for _ in self.blocks]
            for i in range(len(self.blocks)):
                for s in self.succs(i):
                    self._pred[s].append(i)
        return self._pred[bb]

    def reachable(self):
        if self._reach is None:
            seen = {0}
            st = [0]
            while st:
                b = st.pop()
                for s in self.succs(b):
                    if s not in seen:
                        seen.add(s)
                        st.append(s)
            self._reach = seen
        return self._reach

    def reach_from(self, start, avoid_blocks=(), avoid_edges=()):
        seen = set()
        st = [start]
        if start in avoid_blocks:
            return seen
        seen.add(start)
        while st:
            b = st.pop()
            for s in self.succs(b):
                if s in seen or s in avoid_blocks or (b, s) in avoid_edges:
                    continue
                seen.add(s)
                st.append(s)
        return seen

    def idom(self):
        if self._idom is not None:
            return self._idom
        # iterative dominators (Cooper-Harvey-Kennedy)
        order = []
        seen = set()

        def dfs(b):
            stack = [(b, iter(self.succs(b)))]
            seen.add(b)
            while stack:
                node, it = stack[-1]
                adv = False
                for s in it:
                    if s not in seen:
                        seen.add(s)
                        stack.append((s, iter(self.succs(s))))
                        adv = True
                        break
                if not adv:
                    order.append(node)
                    stack.pop()

        dfs(0)
        rpo = list(reversed(order))
        num = {b: i for i, b in enumerate(rpo)}
        idom = {0: 0}

        def inter(a, b):
            while a != b:
                while num[a] > num[b]:
                    a = idom[a]
                while num[b] > num[a]:
                    b = idom[b]
            return a

        changed = True
        while changed:
            changed = False
            for b in rpo[1:]:
                ps = [p for p in self.preds(b) if p in idom]
                if not ps:
                    continue
                new = ps[0]
                for p in ps[1:]:
                    new = inter(new, p)
                if idom.get(b) != new:
                    idom[b] = new
                    changed = True
        self._idom = idom
        return idom

    def dominates(self, a, b):
        """Block a dominates block b (every entry->b path passes a)."""
        idom = self.idom()
        if b not in idom or a not in idom:
            return False
        while True:
            if a == b:
                return True
            if b == 0:
                return False
            b = idom[b]

    def edge_dominates(self, edge, b):
        """Every path entry->b takes the edge (s,t)."""
        s, t = edge
        if b not in self.reachable():
            return False
        # remove the edge and test reachability of b
        r = self.reach_from(0, avoid_edges={(s, t)})
        return b not in r

    def back_edges(self):
        out = []
        for b in self.reachable():
            for s in self.succs(b):
                if self.dominates(s, b):
                    out.append((b, s))
        return out

    def natural_loops(self):
        """header -> set of blocks."""
        loops = {}
        for (t, h) in self.back_edges():
            body = loops.setdefault(h, {h})
            st = [t]
            while st:
                x = st.pop()
                if x in body:
                    continue
                body.add(x)
                st.extend(self.preds(x))
        return loops

    # ---------------------------------------------------------------- queries
    def calls(self):
        """All call terminators: (bb, term)."""
        for i, b in enumerate(self.blocks):
            t = b["term"]
            if t["k"] == "call":
                yield i, t

    def local_name(self, l):
        n = self.locals[l].get("name")
        return n if n else "_%d" % l

    def line_of(self, bb, si=None):
        b = self.blocks[bb]
        if si is not None and si < len(b["stmts"]):
            return b["stmts"][si].get("line")
        t = b["term"]
        if "line" in t:
            return t["line"]
        for st in reversed(b["stmts"]):
            if "line" in st:
                return st["line"]
        return None

    def loc(self, bb=None, si=None):
        if bb is None:
            return "%s:%s" % (self.file, self.span["line"])
        return "%s:%s" % (self.file, self.line_of(bb, si))


def callee(t):
    """Resolved callee info of a call terminator: (def_path, resolved_path or def_path, fn dict) or (None, None, None)."""
    f = t["func"]
    if f.get("k") == "const" and "fn" in f:
        fn = f["fn"]
        d = strip_lt(fn["def"])
        r = strip_lt(fn.get("res", fn["def"]))
        return d, r, fn
    return None, None, None


class Facts:
    def __init__(self, path):
        self.raw = json.load(open(path))
        from . import inline
        voc = inline.load_vocabulary()
        vf0 = inline.load_vocabulary_fields()
        self.moved = inline.canonicalise_modules(self.raw, voc, vf0, strip_lt) if voc is not None and self.raw.get("crate") == "regexml" else {}
        self.degenericised = inline.canonicalise_generics(self.raw, voc, strip_lt) if voc is not None and self.raw.get("crate") == "regexml" else []
        vs = inline.load_vocabulary_sigs()
        self.renamed_fns = inline.canonicalise_renamed_functions(self.raw, vs, strip_lt) if vs is not None and self.raw.get("crate") == "regexml" else {}
        self.memos = inline.desugar_memos(self.raw, strip_lt) if voc is not None else []
        self.inlined = inline.inline_new_helpers(self.raw, voc, strip_lt) if voc is not None and self.raw.get("crate") == "regexml" else []
        self.desugared = inline.desugar_iterator_adaptors(self.raw, strip_lt) if voc is not None else []
        self.renamed_closures = inline.canonicalise_closures(self.raw) if (self.inlined or self.desugared) else {}
        vf = inline.load_vocabulary_fields()
        self.renamed_fields = inline.canonicalise_fields(self.raw, vf, strip_lt) if vf is not None and self.raw.get("crate") == "regexml" else {}
        self.crate = self.raw["crate"]
        self.nonce = self.raw.get("nonce")
        self.bodies = [Body(b) for b in self.raw["bodies"]]
        self.by_path = {}
        for b in self.bodies:
            self.by_path.setdefault(b.path, []).append(b)
        self.adts = {strip_lt(a["path"]): a for a in self.raw["adts"]}
        self.statics = self.raw["statics"]
        self.unsafe = self.raw["unsafe"]
        self.impls = self.raw["impls"]

    def frozen_fields(self):
        """Names of struct fields of the crate that are written only when the struct is built: no assignment to a
        place ending in the field and no `&mut` borrow of such a place anywhere in the crate."""
        if getattr(self, "_frozen", None) is None:
            names = set()
            for a in self.raw.get("adts", []):
                if (a.get("span") or {}).get("file", "").startswith(self.crate + "/") or True:
                    for v in a.get("variants", []):
                        for f in v.get("fields", []):
                            names.add(f["name"])
            written = set()
            for b in self.bodies:
                for blk in b.blocks:
                    for st in blk["stmts"]:
                        if st["k"] != "assign":
                            continue
                        for e in st["place"]["p"]:
                            if isinstance(e, dict) and "f" in e:
                                written.add(e["f"])
                        rv = st["rv"]
                        if rv.get("k") in ("ref", "rawptr") and rv.get("mut"):
                            for e in rv["place"]["p"]:
                                if isinstance(e, dict) and "f" in e:
                                    written.add(e["f"])
            self._frozen = names - written
        return self._frozen

    def body(self, path):
        """Exact (lifetime-stripped) def path; returns None when missing."""
        bs = self.by_path.get(path)
        if not bs:
            return None
        return bs[0]

    def find(self, suffix):
        return [b for b in self.bodies if b.path.endswith(suffix)]

    def user_bodies(self):
        return [b for b in self.bodies if not b.from_expansion]
