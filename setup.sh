#!/bin/sh
# Builds the rxfacts driver (offline) and warms the dependency artefacts / fact cache.
set -e
cd "$(dirname "$0")"
export CARGO_NET_OFFLINE=true
(cd driver && cargo +nightly build --release --offline)
python3 -m rxv.extract /repo
