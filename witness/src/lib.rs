//! Compile witnesses for property C18 (nothing here is executed: `no_run` / `compile_fail`).
//!
//! A compiled `Regex` is `Send + Sync`:
//! ```no_run
//! fn ok<T: Send + Sync>() {}
//! ok::<regexml::Regex>();
//! ```
//!
//! The witness is live: the same instantiation at a type that is not `Send + Sync` is rejected.
//! ```compile_fail,E0277
//! fn ok<T: Send + Sync>() {}
//! ok::<std::rc::Rc<regexml::Regex>>();
//! ```
//!
//! All API methods take `&self`: iterators of one `Regex` can be alive while other calls run, and `&Regex`
//! can be shared with scoped threads.
//! ```no_run
//! let re = regexml::Regex::xpath("a+", "").unwrap();
//! let mut t = re.tokenize("baab").unwrap();
//! let mut a = re.analyze("baab").unwrap();
//! let _ = t.next();
//! let m = re.is_match("aa");
//! let _ = a.next();
//! let r = re.replace_all("baab", "x").unwrap();
//! std::thread::scope(|s| {
//!     s.spawn(|| re.is_match("a"));
//!     s.spawn(|| re.replace_all("a", "b").unwrap());
//! });
//! let _ = (t.next(), a.next(), m, r);
//! ```
//!
//! A method that needed `&mut self` would make the previous block fail; this twin shows the borrow checker is
//! what is being relied on (mutating the Regex while an iterator borrows it is rejected).
//! ```compile_fail,E0505
//! let re = regexml::Regex::xpath("a+", "").unwrap();
//! let t = re.tokenize("baab").unwrap();
//! drop(re);
//! let _ = t.count();
//! ```
